//! Family `nfs`: the process-global `vouched_time::nfs_voucher` module on real
//! files of two real devices (C19).
//!
//! The module's state (`TRUSTED_PATHS`, `BASE_TIME`, the thread-local
//! `LAST_UPDATE`) lives for the whole process, so every case runs in a child
//! forked *before* the module is ever touched; the parent only relays lines.
//!
//! Abstract ops (what the generator produces, what replays re-execute):
//!   mk <fid> <root|shm|nodir>   create file <fid> on `/`'s device, on /dev/shm, or only name a
//!                               path inside a directory that does not exist
//!   touch <fid>                 chmod the file (bumps its ctime)
//!   sleep <ms>
//!   link <fid> <fid2>           replace path <fid> by a symlink to <fid2>
//!   kill <fid>                  remove the file and its directory (open(create) then fails)
//!   add <fid>                   add_trusted_path(path)
//!   obs <fid>                   observe_file_time(File::open(path))
//!   mobs <fid> <prime|wait>     maybe_observe_file_time; `prime` = a should_refresh call right
//!                               before it (rate limiter armed), `wait` = at least 105 ms after
//!                               the previous module call (rate limiter off)
//!   scan <prime|wait>           scan_base_time()
//!   get <delta_ms> <sub_ns>     get_base_time(now) with now = current base + delta (+ sub-ms part)
//!   sr <leeway|-> <delta_ms>    should_refresh_base_time(leeway, Some(base + delta))
//!   unl                         get_base_time_unlocked
//! Ids 90 (/etc/passwd: old change-time on `/`'s device) and 91 (/proc/version:
//! a third device) are read-only and can only be observed.
//!
//! What the operating system answered (device, change-time, open failures, the
//! clock) is only known after the call; it is handed to the model in late-bound
//! input lines `add@`, `obs@`, `mobs@`, `scan@`, `get@`, `sr@` (see
//! `fam_vtime::late_input`), each followed by the observation
//! `<result> | base=<ms> v=<voucher>` where base/v are what
//! `get_base_time_unlocked` reports right after the call.
use crate::fam_vtime::{bits_of, datetime_of, err_class, late_input, params, voucher_of};
use crate::util::*;
use std::collections::BTreeMap;
use std::io::{BufRead, BufReader, Write};
use std::os::unix::fs::{MetadataExt, PermissionsExt};
use std::os::unix::io::FromRawFd;
use std::panic::{catch_unwind, AssertUnwindSafe};
use std::path::PathBuf;
use std::time::{Duration, Instant};
use vouched_time::nfs_voucher as nv;

pub struct NfsFamily;

// --------------------------------------------------------------------- parent

struct Proxy {
    pid: libc::pid_t,
    to_child: Option<std::fs::File>,
    from_child: BufReader<std::fs::File>,
}

static CASE_COUNTER: std::sync::atomic::AtomicU64 = std::sync::atomic::AtomicU64::new(0);

fn spawn() -> Proxy {
    let serial = CASE_COUNTER.fetch_add(1, std::sync::atomic::Ordering::Relaxed);
    let mut down = [0i32; 2]; // parent -> child
    let mut up = [0i32; 2]; // child -> parent
    unsafe {
        assert_eq!(libc::pipe(down.as_mut_ptr()), 0);
        assert_eq!(libc::pipe(up.as_mut_ptr()), 0);
        let parent_pid = libc::getpid();
        let pid = libc::fork();
        assert!(pid >= 0, "fork failed");
        if pid == 0 {
            libc::close(down[1]);
            libc::close(up[0]);
            let input = BufReader::new(std::fs::File::from_raw_fd(down[0]));
            let output = std::fs::File::from_raw_fd(up[1]);
            let _ = catch_unwind(AssertUnwindSafe(|| child_main(input, output, parent_pid as u64, serial)));
            libc::_exit(0);
        }
        libc::close(down[0]);
        libc::close(up[1]);
        Proxy {
            pid,
            to_child: Some(std::fs::File::from_raw_fd(down[1])),
            from_child: BufReader::new(std::fs::File::from_raw_fd(up[0])),
        }
    }
}

impl Proxy {
    fn shutdown(&mut self) {
        if let Some(f) = self.to_child.take() {
            drop(f); // EOF: the child removes its files and exits
            let mut status = 0;
            unsafe {
                libc::waitpid(self.pid, &mut status, 0);
            }
        }
    }
}

impl Drop for Proxy {
    fn drop(&mut self) {
        self.shutdown();
    }
}

impl Exec for Proxy {
    fn step(&mut self, w: &[&str]) -> StepOut {
        let mut so = StepOut::default();
        let Some(tx) = self.to_child.as_mut() else { return StepOut::obs("child-gone") };
        if writeln!(tx, "{}", w.join(" ")).is_err() {
            return StepOut::obs("child-gone");
        }
        let mut pending: Option<String> = None; // an `O` line waiting for a possible late-bound input
        loop {
            let mut line = String::new();
            match self.from_child.read_line(&mut line) {
                Ok(0) | Err(_) => {
                    so.obs.extend(pending.take());
                    so.obs.push("child-died".into());
                    return so;
                }
                Ok(_) => {}
            }
            let line = line.trim_end_matches('\n');
            if line == "." {
                break;
            } else if let Some(o) = line.strip_prefix("O ") {
                so.obs.extend(pending.take());
                pending = Some(o.to_string());
            } else if let Some(l) = line.strip_prefix("L ") {
                let head = pending.take().unwrap_or_default();
                so.obs.push(late_input(&head, l));
            } else if let Some(v) = line.strip_prefix("V ") {
                so.violations.push(v.to_string());
            } else if let Some(t) = line.strip_prefix("T ") {
                so.tags.push(t.to_string());
            }
        }
        so.obs.extend(pending.take());
        so
    }

    fn finish(&mut self) -> StepOut {
        self.shutdown();
        StepOut::default()
    }
}

// ---------------------------------------------------------------------- child

const FID_ETC: u64 = 90;
const FID_PROC: u64 = 91;

struct Real {
    dirs: Vec<PathBuf>,
    root_dir: PathBuf,
    shm_dir: PathBuf,
    files: BTreeMap<u64, PathBuf>,
    /// shadow of the registrations that succeeded: device id -> file id
    trusted: BTreeMap<u64, u64>,
    last_call_end: Option<Instant>,
    last: (u64, u64),
    dead: bool,
    out: Vec<String>,
}

fn snapshot() -> (u64, u64) {
    let (b, v) = nv::get_base_time_unlocked(time::OffsetDateTime::now_utc()).expect("unlocked never fails");
    (b, bits_of(v))
}

fn millis_of(dev_ctime: (u64, i64, i64)) -> u64 {
    (dev_ctime.1 as u64).saturating_mul(1000).saturating_add(dev_ctime.2 as u64 / 1_000_000)
}

fn stat_of(md: &std::fs::Metadata) -> (u64, i64, i64) {
    (md.dev(), md.ctime(), md.ctime_nsec())
}

fn fmt_stat(s: (u64, i64, i64)) -> String {
    format!("S:{}:{}:{}", s.0, s.1, s.2)
}

fn now_ns() -> i128 {
    time::OffsetDateTime::now_utc().unix_timestamp_nanos()
}

fn default_leeway() -> u64 {
    2 * vouched_time::MAX_FORWARD_DISCREPANCY_MS / 3
}

impl Real {
    fn o(&mut self, s: impl Into<String>) {
        self.out.push(format!("O {}", s.into()));
    }
    fn l(&mut self, s: impl Into<String>) {
        self.out.push(format!("L {}", s.into()));
    }
    fn v(&mut self, s: impl Into<String>) {
        self.out.push(format!("V C19 {}", s.into()));
    }
    fn t(&mut self, s: impl Into<String>) {
        self.out.push(format!("T {}", s.into()));
    }

    fn path(&self, fid: u64) -> Option<PathBuf> {
        match fid {
            FID_ETC => Some("/etc/passwd".into()),
            FID_PROC => Some("/proc/version".into()),
            _ => self.files.get(&fid).cloned(),
        }
    }

    /// Every path the harness knows, stat'ed now (following symlinks, like `open`).
    fn table(&self) -> (String, Vec<(u64, (u64, i64, i64))>) {
        let mut parts = Vec::new();
        let mut stats = Vec::new();
        for (fid, p) in &self.files {
            match std::fs::metadata(p) {
                Ok(md) => {
                    parts.push(format!("{}={}", fid, fmt_stat(stat_of(&md))));
                    stats.push((*fid, stat_of(&md)));
                }
                Err(_) => parts.push(format!("{}=E", fid)),
            }
        }
        (if parts.is_empty() { "-".into() } else { parts.join(",") }, stats)
    }

    /// After a module call: the observation line and the oracle.
    /// `ret` is the canonical result; `pairs` the (base, voucher) pairs it handed out;
    /// `evidence` the stat answers the call could legitimately have used, each with
    /// whether this very call registers its device.
    fn after_call(&mut self, ret: String, pairs: &[(u64, u64)], evidence: &[((u64, i64, i64), bool)]) {
        self.last_call_end = Some(Instant::now());
        let now = snapshot();
        self.o(format!("{} | base={} v={}", ret, now.0, now.1));
        let before = self.last;
        if now.0 < before.0 {
            self.v(format!("base time decreased from {} to {}", before.0, now.0));
        }
        if now != before {
            let justified = evidence.iter().any(|(s, registering)| {
                (self.trusted.contains_key(&s.0) || *registering) && millis_of(*s) == now.0
            });
            if !justified {
                self.v(format!(
                    "base time changed from {} to {} which is not the change-time of a file on a trusted device seen by this call (evidence {:?}, trusted devices {:?})",
                    before.0, now.0, evidence, self.trusted.keys().collect::<Vec<_>>()
                ));
            }
        }
        for (b, v) in pairs.iter().chain(std::iter::once(&now)) {
            let by_params = params().check.check(*b, voucher_of(*v));
            let by_crate = match vouched_time::VouchedTime::check(datetime_of(0).unwrap(), *b, voucher_of(*v)) {
                Ok(()) => true,
                Err(e) => err_class(&e) != "bad-voucher",
            };
            if !by_params || !by_crate {
                self.v(format!("returned pair ({}, {}) does not pass VouchedTime's voucher check", b, v));
            }
        }
        self.last = now;
    }

    /// Arms (`prime`) or rules out (`wait`) the 100 ms rate limiter of
    /// `should_refresh_base_time(_, None)`; returns the instant to measure from.
    fn before_unclocked_call(&mut self, mode: &str) -> Option<Instant> {
        if mode == "prime" {
            let t = Instant::now();
            // always records LAST_UPDATE (`now` is given), never refreshes (huge leeway)
            let _ = nv::should_refresh_base_time(Some(u64::MAX), Some(time::OffsetDateTime::now_utc()));
            Some(t)
        } else {
            if let Some(t) = self.last_call_end {
                while t.elapsed() < Duration::from_millis(105) {
                    std::thread::sleep(Duration::from_millis(5));
                }
            }
            None
        }
    }

    /// The rate-limiter input of the call just made (`?` = cannot tell), given the
    /// clock readings around it and the leeway it uses.
    fn rl_field(&self, armed: Option<Instant>, base: u64, lo: i128, hi: i128, leeway: u64) -> &'static str {
        match armed {
            Some(t) => {
                if t.elapsed() < Duration::from_millis(95) {
                    "1"
                } else {
                    "?"
                }
            }
            None => {
                let wanted = |ns: i128| (ns / 1_000_000).clamp(0, u64::MAX as i128) as u64;
                let stale = |ns: i128| wanted(ns).saturating_sub(base) > leeway;
                if stale(lo) == stale(hi) {
                    "0"
                } else {
                    "?"
                }
            }
        }
    }

    /// `unwinding <module call>` (track traits, `unwind.rs`): the call is made from a destructor while
    /// this (child) thread unwinds from a caught panic; same observations and late-bound inputs.  Only
    /// the module calls that are specified not to panic are accepted (not `add`, not the file ops).
    fn step(&mut self, w: &[&str]) {
        if let ["unwinding", rest @ ..] = w {
            if !matches!(rest.first().copied(), Some("obs" | "mobs" | "scan" | "get" | "sr" | "unl")) {
                self.o("bad-op");
                return;
            }
            match crate::unwind::while_unwinding(|| self.step_plain(rest)) {
                Ok(()) => self.out.push("T unwinding".into()),
                Err(p) => std::panic::resume_unwind(p),
            }
            return;
        }
        self.step_plain(w)
    }

    fn step_plain(&mut self, w: &[&str]) {
        if self.dead {
            self.o("dead");
            return;
        }
        // An abstract operation whose arguments make no sense here (unknown file id, ...) is a
        // no-op that is merely echoed - as in the model driver - so that shrinking a case by
        // dropping lines cannot manufacture a disagreement.
        let echo = w.join(" ");
        let num = |s: &str| s.parse::<u64>().ok();
        match w {
            ["mk", fid, place] => {
                let Some(fid) = num(fid) else { return self.o(echo) };
                if fid >= FID_ETC || self.files.contains_key(&fid) {
                    return self.o(echo);
                }
                let base = match *place {
                    "root" | "nodir" => self.root_dir.clone(),
                    "shm" => self.shm_dir.clone(),
                    _ => return self.o(echo),
                };
                let dir = base.join(format!("d{}", fid));
                let path = dir.join("f");
                if *place != "nodir" {
                    std::fs::create_dir_all(&dir).expect("mkdir");
                    std::fs::write(&path, b"x").expect("write");
                }
                self.files.insert(fid, path);
                self.o(echo);
            }
            ["touch", fid] => {
                let Some(p) = num(fid).filter(|f| *f < FID_ETC).and_then(|f| self.path(f)) else { return self.o(echo) };
                if let Ok(md) = std::fs::metadata(&p) {
                    let mode = md.permissions().mode() & 0o777;
                    let _ = std::fs::set_permissions(&p, std::fs::Permissions::from_mode(mode ^ 0o020));
                }
                self.o(echo);
            }
            ["pub", fid] => {
                // make the file openable read-write by everybody (and its directories searchable
                // and writable), so that an unprivileged caller (`euid`) can open it although it
                // does not own it
                let Some(p) = num(fid).filter(|f| *f < FID_ETC).and_then(|f| self.path(f)) else { return self.o(echo) };
                let _ = std::fs::set_permissions(&p, std::fs::Permissions::from_mode(0o666));
                if let Some(d) = p.parent() {
                    let _ = std::fs::set_permissions(d, std::fs::Permissions::from_mode(0o777));
                }
                for d in [&self.root_dir, &self.shm_dir] {
                    let _ = std::fs::set_permissions(d, std::fs::Permissions::from_mode(0o777));
                }
                self.o(echo);
            }
            ["euid", uid] => {
                // switch the EFFECTIVE user id (the saved id stays 0, so `euid 0` switches back):
                // with a non-zero effective uid the process has no CAP_FOWNER, and touching the
                // timestamps of a file it does not own fails with EPERM - the only way a
                // registration can fail AFTER its path was opened.  Not running as root: no-op.
                let Some(uid) = num(uid).filter(|u| *u == 0 || *u == 65534) else { return self.o(echo) };
                let rc = unsafe { libc::seteuid(uid as libc::uid_t) };
                self.t(if rc == 0 { "euid_ok" } else { "euid_failed" });
                self.o(echo);
            }
            ["sleep", ms] => {
                let Some(ms) = num(ms).filter(|m| *m <= 5000) else { return self.o(echo) };
                std::thread::sleep(Duration::from_millis(ms));
                self.o(echo);
            }
            ["link", fid, target] => {
                let (Some(p), Some(t)) = (
                    num(fid).filter(|f| *f < FID_ETC).and_then(|f| self.path(f)),
                    // never a system file: registered paths get touched (atime) and chmod'ed
                    num(target).filter(|f| *f < FID_ETC).and_then(|f| self.path(f)),
                ) else {
                    return self.o(echo);
                };
                let _ = std::fs::remove_file(&p);
                if let Some(d) = p.parent() {
                    let _ = std::fs::create_dir_all(d);
                }
                let _ = std::os::unix::fs::symlink(&t, &p);
                self.o(echo);
            }
            ["kill", fid] => {
                let Some(p) = num(fid).filter(|f| *f < FID_ETC).and_then(|f| self.path(f)) else { return self.o(echo) };
                if let Some(d) = p.parent() {
                    let _ = std::fs::remove_dir_all(d);
                }
                self.o(echo);
            }
            ["unl"] => {
                let p = snapshot();
                self.after_call(format!("pair {} {}", p.0, p.1), &[p], &[]);
            }
            ["add", fid] => {
                let Some(fid) = num(fid).filter(|f| *f < FID_ETC) else { return self.o(echo) };
                let Some(p) = self.path(fid) else { return self.o(echo) };
                self.o(echo);
                let res = nv::add_trusted_path(p.clone());
                match res {
                    Ok(()) => match std::fs::metadata(&p) {
                        Ok(md) => {
                            let s = stat_of(&md);
                            self.l(format!("add@ {} {}", fid, fmt_stat(s)));
                            self.after_call("ok".into(), &[], &[(s, true)]);
                            self.trusted.insert(s.0, fid);
                            self.t("add_ok");
                        }
                        Err(_) => {
                            // cannot happen (the call just created/opened it); do not guess
                            self.l(format!("add@ {} E", fid));
                            self.o("stat-after-add-failed");
                            self.dead = true;
                        }
                    },
                    Err(_) => {
                        self.l(format!("add@ {} E", fid));
                        self.after_call("err".into(), &[], &[]);
                        self.t("add_err");
                    }
                }
            }
            ["obs", fid] => {
                let Some(p) = num(fid).and_then(|f| self.path(f)) else { return self.o(echo) };
                self.o(echo);
                let Ok(file) = std::fs::File::open(&p) else {
                    self.l("obs@ X");
                    self.o("noopen");
                    return;
                };
                match nv::observe_file_time(&file) {
                    Ok((md, upd)) => {
                        let s = stat_of(&md);
                        self.l(format!("obs@ {}", fmt_stat(s)));
                        let trusted = self.trusted.contains_key(&s.0);
                        let before = self.last;
                        match upd {
                            Some((t, v)) => {
                                let pair = (t, bits_of(v));
                                self.after_call(format!("some {} {}", pair.0, pair.1), &[pair], &[(s, false)]);
                                if !trusted {
                                    self.v(format!("observe_file_time reported {:?} for a file on untrusted device {}", pair, s.0));
                                }
                                if t != millis_of(s) {
                                    self.v(format!("observe_file_time reported {} for change-time {:?}", t, s));
                                }
                                self.t(if t >= before.0 { "obs_trusted_newer" } else { "obs_trusted_older" });
                            }
                            None => {
                                self.after_call("none".into(), &[], &[]);
                                if trusted {
                                    self.v(format!("observe_file_time reported nothing for a file on trusted device {}", s.0));
                                }
                                if self.last != before {
                                    self.v("observing a file on an untrusted device changed the base time".to_string());
                                }
                                self.t("obs_untrusted");
                            }
                        }
                    }
                    Err(_) => {
                        self.l("obs@ U");
                        self.after_call("err".into(), &[], &[]);
                    }
                }
            }
            ["mobs", fid, mode] => {
                let Some(p) = num(fid).and_then(|f| self.path(f)) else { return self.o(echo) };
                if !matches!(*mode, "prime" | "wait") {
                    return self.o(echo);
                }
                self.o(echo);
                let Ok(file) = std::fs::File::open(&p) else {
                    self.l("mobs@ X");
                    self.o("noopen");
                    return;
                };
                let armed = self.before_unclocked_call(mode);
                let base = snapshot().0;
                let lo = now_ns();
                nv::maybe_observe_file_time(&file);
                let hi = now_ns();
                let rl = self.rl_field(armed, base, lo, hi, default_leeway());
                let s = file.metadata().map(|md| stat_of(&md));
                let ans = match &s {
                    Ok(s) => fmt_stat(*s),
                    Err(_) => "U".into(),
                };
                self.l(format!("mobs@ {} {} {}", rl, lo, ans));
                if rl == "?" {
                    self.o("ambiguous");
                    self.t("ambiguous");
                    self.dead = true;
                    return;
                }
                let ev: Vec<_> = s.iter().map(|s| (*s, false)).collect();
                let before = self.last;
                self.after_call("ok".into(), &[], &ev);
                if let Ok(s) = s {
                    if !self.trusted.contains_key(&s.0) && self.last != before {
                        self.v("maybe-observing a file on an untrusted device changed the base time".to_string());
                    }
                }
                self.t(format!("mobs_rl{}_{}", rl, if self.last != before { "moved" } else { "same" }));
            }
            ["scan", mode] => {
                if !matches!(*mode, "prime" | "wait") {
                    return self.o(echo);
                }
                self.o(echo);
                let armed = self.before_unclocked_call(mode);
                let base = snapshot().0;
                let lo = now_ns();
                let res = nv::scan_base_time();
                let hi = now_ns();
                let rl = self.rl_field(armed, base, lo, hi, 1000);
                let (tbl, stats) = self.table();
                self.l(format!("scan@ {} {} {}", rl, lo, tbl));
                if rl == "?" {
                    self.o("ambiguous");
                    self.t("ambiguous");
                    self.dead = true;
                    return;
                }
                let ev = self.trusted_evidence(&stats);
                let before = self.last;
                self.after_call(if res.is_ok() { "ok".into() } else { "err".into() }, &[], &ev);
                self.t(format!("scan_rl{}_{}_{}", rl, if res.is_ok() { "ok" } else { "err" }, if self.last != before { "moved" } else { "same" }));
            }
            ["get", delta, sub] => {
                let (Ok(delta), Some(sub)) = (delta.parse::<i64>(), num(sub).filter(|s| *s < 1_000_000)) else {
                    return self.o(echo);
                };
                self.o(echo);
                let base = snapshot().0;
                let now = (base as i128 + delta as i128) * 1_000_000 + sub as i128;
                let Ok(odt) = time::OffsetDateTime::from_unix_timestamp_nanos(now) else {
                    self.l("get@ ? -");
                    self.o("ambiguous");
                    self.t("ambiguous");
                    self.dead = true;
                    return;
                };
                let res = nv::get_base_time(odt);
                let (tbl, stats) = self.table();
                self.l(format!("get@ {} {}", now, tbl));
                let ev = self.trusted_evidence(&stats);
                let before = self.last;
                match res {
                    Ok((b, v)) => {
                        let pair = (b, bits_of(v));
                        self.after_call(format!("pair {} {}", pair.0, pair.1), &[pair], &ev);
                    }
                    Err(_) => self.after_call("err".into(), &[], &ev),
                }
                self.t(format!("get_{}", if self.last != before { "moved" } else { "same" }));
            }
            ["sr", leeway, delta] => {
                let Ok(delta) = delta.parse::<i64>() else { return self.o(echo) };
                let leeway_v = if *leeway == "-" { None } else { Some(match num(leeway) { Some(l) => l, None => return self.o(echo) }) };
                self.o(echo);
                let base = snapshot().0;
                let now = (base as i128 + delta as i128) * 1_000_000;
                let Ok(odt) = time::OffsetDateTime::from_unix_timestamp_nanos(now) else {
                    self.l("sr@ ? 0");
                    self.o("ambiguous");
                    self.t("ambiguous");
                    self.dead = true;
                    return;
                };
                let b = nv::should_refresh_base_time(leeway_v, Some(odt));
                self.l(format!("sr@ {} {}", leeway, now));
                self.after_call(format!("bool {}", if b { 1 } else { 0 }), &[], &[]);
                self.t(format!("sr_{}", b));
            }
            _ => self.o("bad-op"),
        }
    }

    /// The stat answers of the registered paths (what a scan may use).
    fn trusted_evidence(&self, stats: &[(u64, (u64, i64, i64))]) -> Vec<((u64, i64, i64), bool)> {
        stats
            .iter()
            .filter(|(fid, _)| self.trusted.values().any(|t| t == fid))
            .map(|(_, s)| (*s, false))
            .collect()
    }
}

fn child_main(input: BufReader<std::fs::File>, mut output: std::fs::File, parent: u64, serial: u64) {
    let root = std::env::var("WP_NFS_ROOT").unwrap_or_else(|_| "/tmp/vtime-scratch".into());
    let tag = format!("wp-nfs-{}-{}", parent, serial);
    let root_dir = PathBuf::from(root).join(&tag);
    let shm_dir = PathBuf::from("/dev/shm").join(&tag);
    std::fs::create_dir_all(&root_dir).expect("root scratch dir");
    std::fs::create_dir_all(&shm_dir).expect("shm scratch dir");
    let mut real = Real {
        dirs: vec![root_dir.clone(), shm_dir.clone()],
        root_dir,
        shm_dir,
        files: BTreeMap::new(),
        trusted: BTreeMap::new(),
        last_call_end: None,
        last: (0, 0),
        dead: false,
        out: Vec::new(),
    };
    real.last = snapshot();
    for line in input.lines() {
        let Ok(line) = line else { break };
        let words: Vec<&str> = line.split_whitespace().collect();
        real.out.clear();
        if catch_unwind(AssertUnwindSafe(|| real.step(&words))).is_err() {
            real.out.push("O panic".into());
            real.out.push("V C19 a module call panicked".into());
            real.dead = true;
        }
        let mut text = real.out.join("\n");
        text.push_str("\n.\n");
        if output.write_all(text.as_bytes()).is_err() {
            break;
        }
    }
    unsafe {
        libc::seteuid(0);
    }
    for d in &real.dirs {
        let _ = std::fs::remove_dir_all(d);
    }
}

// ----------------------------------------------------------------- generators

fn ops(s: &[&str]) -> Vec<String> {
    s.iter().map(|x| x.to_string()).collect()
}

impl Family for NfsFamily {
    fn name(&self) -> &'static str {
        "nfs"
    }

    fn new_exec(&self) -> Box<dyn Exec> {
        Box::new(spawn())
    }

    fn enumerated(&self, thorough: bool) -> Vec<Vec<String>> {
        let mut cases = vec![
            // a registration that fails AFTER its path was opened (unprivileged caller, file owned by
            // somebody else: the timestamp touch gets EPERM) must establish no trust
            ops(&["mk 1 shm", "mk 2 shm", "mk 3 root", "pub 1", "pub 2", "pub 3", "sleep 15", "euid 65534", "add 1", "obs 1", "obs 2", "mobs 2 wait",
                  "scan wait", "add 3", "obs 3", "unl", "euid 0", "obs 2", "add 2", "obs 1", "unl"]),
            ops(&["mk 1 root", "pub 1", "euid 65534", "add 1", "euid 0", "obs 1", "mk 2 root", "sleep 15", "obs 2", "add 2", "obs 1", "unl"]),
            // nothing trusted yet: every observation is a no-op, nothing refreshes
            ops(&["unl", "mk 1 root", "mk 2 shm", "obs 1", "obs 2", "obs 90", "obs 91", "mobs 1 wait", "mobs 2 prime",
                  "scan wait", "scan prime", "get 0 0", "get 5000 1", "sr - 5000", "sr 0 1", "unl"]),
            // trust /dev/shm: newer / older / untrusted files
            ops(&["mk 1 shm", "mk 2 shm", "mk 3 root", "sleep 15", "add 1", "obs 2", "obs 3", "obs 90", "obs 91", "sleep 15",
                  "touch 2", "obs 2", "touch 3", "obs 3", "obs 1", "unl"]),
            // trust `/`: the old /etc/passwd is trusted but stale; tmpfs is not trusted
            ops(&["mk 1 root", "mk 2 shm", "add 1", "obs 90", "sleep 15", "touch 2", "obs 2", "mobs 2 wait", "mobs 90 prime", "unl"]),
            // both devices: refresh threshold of get_base_time / should_refresh on both sides, exactly
            ops(&["mk 1 root", "mk 2 shm", "add 1", "add 2", "sr - 1993", "sr - 1994", "sr 1000 1000", "sr 1000 1001", "sr 0 0",
                  "sr 0 1", "sr - -5", "get 1993 999999", "get -100 0", "sleep 15", "get 1994 0", "unl", "sleep 15", "get 60000 0"]),
            // a registered path that cannot be opened any more aborts the scan, in device order
            ops(&["mk 1 root", "mk 2 shm", "add 1", "add 2", "kill 2", "get 5000 0", "scan wait", "unl"]),
            ops(&["mk 1 root", "mk 2 shm", "add 1", "add 2", "kill 1", "sleep 15", "get 5000 0", "unl"]),
            // a registered path that moved to an untrusted device is skipped
            ops(&["mk 1 shm", "mk 2 root", "add 1", "link 1 2", "get 5000 0", "obs 1", "unl"]),
            ops(&["mk 1 shm", "mk 2 root", "mk 3 root", "add 1", "add 3", "link 1 2", "sleep 15", "get 5000 0", "unl"]),
            // registering a path that cannot be created changes nothing
            ops(&["mk 1 nodir", "mk 2 root", "add 1", "obs 2", "get 5000 0", "unl"]),
            // a second path on the same device replaces the first
            ops(&["mk 1 shm", "mk 2 shm", "add 1", "add 2", "kill 1", "sleep 15", "get 5000 0", "unl"]),
            // the unclocked policy: rate limited / stale after a real second / two
            ops(&["mk 1 shm", "add 1", "scan prime", "scan wait", "sleep 1150", "scan prime", "scan wait", "unl"]),
            ops(&["mk 1 shm", "mk 2 shm", "add 1", "mobs 2 wait", "sleep 2150", "touch 2", "mobs 2 prime", "mobs 2 wait", "unl"]),
        ];
        // a stale base and a registered path that is gone: the scan fails, the base stays
        cases.push(ops(&["mk 1 root", "add 1", "sleep 1150", "mk 2 shm", "scan wait", "add 2", "sleep 1150", "kill 2", "scan wait", "unl"]));
        if thorough {
            cases.push(ops(&["mk 1 root", "mk 2 shm", "add 2", "sleep 2150", "touch 1", "mobs 1 wait", "touch 2", "mobs 90 wait", "mobs 2 wait", "scan wait", "unl"]));
        }
        cases
    }

    fn gen_case(&self, rng: &mut Rng, _idx: u64, thorough: bool) -> Vec<String> {
        let mut out = Vec::new();
        let nfiles = rng.range(2, 5);
        for f in 1..=nfiles {
            let place = match rng.below(10) {
                0 => "nodir",
                1..=5 => "shm",
                _ => "root",
            };
            out.push(format!("mk {} {}", f, place));
        }
        let any = |rng: &mut Rng| match rng.below(8) {
            0 => 90,
            1 => 91,
            _ => rng.range(1, nfiles),
        };
        let nops = rng.range(5, if thorough { 18 } else { 12 });
        let mut long_sleeps = 0;
        for _ in 0..nops {
            match rng.below(24) {
                0..=3 => out.push(format!("add {}", rng.range(1, nfiles))),
                4..=8 => out.push(format!("obs {}", any(rng))),
                9 | 10 => out.push(format!("touch {}", rng.range(1, nfiles))),
                11 => out.push(format!("sleep {}", rng.range(2, 30))),
                12 | 13 => {
                    let d = match rng.below(4) {
                        0 => *rng.pick(&[1992i64, 1993, 1994, 1995]),
                        1 => -(rng.range(0, 3000) as i64),
                        _ => rng.range(0, 6000) as i64,
                    };
                    out.push(format!("get {} {}", d, rng.below(1_000_000)));
                }
                14 => {
                    let l = *rng.pick(&["-", "-", "0", "1000", "1993", "18446744073709551615"]);
                    let d = match rng.below(3) {
                        0 => *rng.pick(&[999i64, 1000, 1001, 1993, 1994]),
                        _ => rng.range(0, 4000) as i64 - 500,
                    };
                    out.push(format!("sr {} {}", l, d));
                }
                15 | 16 => out.push(format!("mobs {} {}", any(rng), if rng.chance(1, 2) { "prime" } else { "wait" })),
                17 | 18 => out.push(format!("scan {}", if rng.chance(1, 2) { "prime" } else { "wait" })),
                19 => out.push("unl".to_string()),
                20 => out.push(format!("kill {}", rng.range(1, nfiles))),
                21 => {
                    let a = rng.range(1, nfiles);
                    let b = rng.range(1, nfiles);
                    if a != b {
                        out.push(format!("link {} {}", a, b));
                    }
                }
                _ => {
                    // one real wait past a refresh threshold per case at most (they cost seconds)
                    if long_sleeps == 0 && rng.chance(1, 3) {
                        long_sleeps += 1;
                        // past a refresh threshold for real, then the unclocked policy right away
                        if rng.chance(1, 2) {
                            out.push("sleep 1150".to_string());
                            out.push(format!("scan {}", if rng.chance(1, 4) { "prime" } else { "wait" }));
                        } else {
                            let f = rng.range(1, nfiles);
                            out.push("sleep 2150".to_string());
                            out.push(format!("touch {}", f));
                            out.push(format!("mobs {} {}", f, if rng.chance(1, 4) { "prime" } else { "wait" }));
                        }
                    } else {
                        out.push(format!("obs {}", any(rng)));
                    }
                }
            }
        }
        out.push("unl".to_string());
        // track traits: some module calls made while the (child) thread is unwinding
        if rng.chance(1, 4) {
            out = crate::unwind::sprinkle(rng, out, 1, 2, |o| {
                matches!(o.split(' ').next(), Some("obs" | "mobs" | "scan" | "get" | "sr" | "unl"))
            });
        }
        out
    }
}

//! Plain sequential calls on a real `AtomicBaseTime` - no stepping backend (track traits).
//!
//! Every other op of this family re-runs the real functions against a replay backend that uses
//! panics for control flow; that machinery cannot run while the thread is already panicking.  The
//! `seq` ops call the real functions directly (no backend registered: the H3 shim passes every
//! access through to std), on an object of their own:
//!
//!   seq new | seq default                       a fresh object (`AtomicBaseTime::new()` / `Default::default()`)
//!   seq snapshot | seq update <b> <v> | seq try_update <b> <v>
//!
//! answering `ret=…` like a finished `start`/`step` run, or `panic` (an update whose voucher does
//! not match its base time fails the assert in `BaseTime::update`; the lock it held is poisoned).
//! The model side is a solo run of thread 0 on the SC machine.  `unwinding seq <call>`
//! (`harness/src/unwind.rs`) makes the same call from a destructor while the thread unwinds from
//! an unrelated caught panic; only calls that cannot panic are wrapped (a snapshot, or an update
//! whose voucher matches).
//!
//! Oracle (C13), sequential reference: the pair a snapshot returns is the initial pair or the pair
//! of the most recent update that returned normally and was not older than its predecessor - a
//! completed update is never lost, whether or not the thread was panicking when it was made.
use super::*;

pub struct SeqState {
    obj: Box<AtomicBaseTime>,
    /// the reference: current pair, and whether the writers' lock is poisoned
    cur: (u64, u64),
    poisoned: bool,
}

impl SeqState {
    pub fn new() -> SeqState {
        SeqState { obj: Box::new(AtomicBaseTime::new()), cur: (0, vouch_bits(0)), poisoned: false }
    }
}

pub fn seq_safe(w: &[&str]) -> bool {
    match w {
        ["seq", rest @ ..] => match parse_call(rest) {
            Some((Call::Snapshot, [])) => true,
            Some((Call::Update(b, v), [])) | Some((Call::TryUpdate(b, v), [])) => vouch_bits(b) == v,
            _ => false,
        },
        _ => false,
    }
}

impl AbtExec {
    pub(super) fn step_seq(&mut self, w: &[&str]) -> Option<StepOut> {
        let ["seq", rest @ ..] = w else { return None };
        Some(match rest {
            ["new"] => {
                self.seq = SeqState::new();
                StepOut::obs("seq fresh")
            }
            ["default"] => {
                self.seq = SeqState::new();
                self.seq.obj = Box::new(Default::default());
                StepOut::obs("seq fresh")
            }
            _ => {
                let Some((call, [])) = parse_call(rest) else { return Some(StepOut::bad()) };
                if call == Call::Unlocked {
                    return Some(StepOut::bad());
                }
                let prev = set_backend(None); // a plain call: nothing is replayed
                let obj: &AtomicBaseTime = &self.seq.obj;
                // under the process watchdog: run alone like this, every call finishes in a handful
                // of steps (C18); real code that spins or blocks here would otherwise hang the run
                let on_expiry = vec![format!(
                    "C18 sequential calls: `{}` did not return within the watchdog budget although no other thread is running",
                    fmt_call(call)
                )];
                let res = crate::iterscript::watched(on_expiry, || catch_unwind(AssertUnwindSafe(|| match call {
                    Call::Snapshot => {
                        let (b, v) = obj.snapshot();
                        Ret::Snap(b, unsafe { std::mem::transmute::<raffle::Voucher, u64>(v) })
                    }
                    Call::Update(b, v) => {
                        obj.update((b, voucher_of_bits(v)));
                        Ret::Unit
                    }
                    Call::TryUpdate(b, v) => Ret::Bool(obj.try_update((b, voucher_of_bits(v)))),
                    _ => unreachable!(),
                })));
                set_backend(prev);
                let mut so = StepOut::default();
                so.tags.push(format!("seq_{}", rest[0]));
                // the sequential reference
                let s = &mut self.seq;
                let expect: Option<Ret> = match call {
                    Call::Snapshot => Some(Ret::Snap(s.cur.0, s.cur.1)),
                    Call::Update(b, v) | Call::TryUpdate(b, v) => {
                        let is_try = matches!(call, Call::TryUpdate(..));
                        if is_try && s.poisoned {
                            // try_lock fails with Poisoned: the poison is cleared, nothing is written
                            s.poisoned = false;
                            Some(Ret::Bool(false))
                        } else {
                            s.poisoned = false; // update() clears the poison and retries
                            if b < s.cur.0 {
                                Some(if is_try { Ret::Bool(false) } else { Ret::Unit })
                            } else if vouch_bits(b) != v {
                                s.poisoned = true; // the assert fires while the guard is held
                                None
                            } else {
                                s.cur = (b, v);
                                Some(if is_try { Ret::Bool(true) } else { Ret::Unit })
                            }
                        }
                    }
                    _ => unreachable!(),
                };
                match (res, expect) {
                    (Ok(r), Some(e)) => {
                        if r != e {
                            so.violations.push(match call {
                                Call::Snapshot => format!(
                                    "C13 sequential calls: snapshot returned {} but the most recent completed update published {} (a completed update was lost, or a pair nobody published was returned)",
                                    fmt_ret(r), fmt_ret(e)
                                ),
                                _ => format!("C13 sequential calls: `{}` returned {} but the sequential reference returns {}", fmt_call(call), fmt_ret(r), fmt_ret(e)),
                            });
                        }
                        so.obs.push(format!("seq {}", fmt_ret(r)));
                    }
                    (Ok(r), None) => {
                        so.violations.push(format!("C13 sequential calls: `{}` carries a voucher that does not match its base time but returned {}", fmt_call(call), fmt_ret(r)));
                        so.obs.push(format!("seq {}", fmt_ret(r)));
                    }
                    (Err(_), None) => {
                        so.tags.push("seq_update_panics_as_specified".into());
                        so.obs.push("seq panic".into());
                    }
                    (Err(_), Some(_)) => {
                        so.violations.push(format!("C13 sequential calls: `{}` panicked although its voucher matches (or it had nothing to write)", fmt_call(call)));
                        so.obs.push("seq panic".into());
                    }
                }
                so
            }
        })
    }
}

// ------------------------------------------------------------------ generators

/// A random sequential history; `unwinding` wraps some of the calls that cannot panic.
pub fn random_seq(rng: &mut Rng, unwinding: bool) -> Vec<String> {
    let mut ops = Vec::new();
    if rng.chance(1, 2) {
        ops.push(format!("seq {}", rng.pick(&["new", "default"])));
    }
    let mut clock = 0u64;
    let sp = special_bases();
    if !sp.is_empty() && rng.chance(1, 6) {
        clock = (*rng.pick(&sp)).saturating_sub(rng.below(3));
    }
    for _ in 0..rng.range(2, 24) {
        let (text, safe) = match rng.below(10) {
            0..=3 => ("seq snapshot".to_string(), true),
            _ => {
                let b = if rng.chance(1, 5) { clock.saturating_sub(rng.range(1, 3)) } else { clock = clock.saturating_add(rng.below(3)); clock };
                let bad = rng.chance(1, 12);
                let vb = if bad { b.wrapping_add(1) } else { b };
                parse_val(&format!("v{}", b));
                parse_val(&format!("v{}", vb));
                (format!("seq {} {} v{}", if rng.chance(1, 2) { "update" } else { "try_update" }, b, vb), !bad)
            }
        };
        ops.push(if unwinding && safe && rng.chance(1, 2) { format!("unwinding {}", text) } else { text });
    }
    ops
}

/// Every placement of `unwinding` over a short history: updates, an older one, snapshots in between.
pub fn enumerated_seq() -> Vec<Vec<String>> {
    let mut cases = Vec::new();
    for x in 0..=9u64 {
        parse_val(&format!("v{}", x));
    }
    let calls = ["seq update 5 v5", "seq snapshot", "seq try_update 7 v7", "seq snapshot", "seq update 3 v3", "seq try_update 7 v7", "seq update 9 v9", "seq snapshot"];
    for mask in 0..(1u32 << calls.len()) {
        let mut ops = vec![if mask % 2 == 0 { "seq new".to_string() } else { "seq default".to_string() }];
        for (i, c) in calls.iter().enumerate() {
            ops.push(if mask >> i & 1 == 1 { format!("unwinding {}", c) } else { c.to_string() });
        }
        cases.push(ops);
    }
    // an invalid pair poisons the writers' lock: the next writers recover, with and without unwinding
    for first in ["seq update 4 v5", "seq try_update 4 v5"] {
        for second in ["seq try_update 6 v6", "seq update 6 v6", "unwinding seq try_update 6 v6", "unwinding seq update 6 v6"] {
            cases.push(vec![
                "seq update 2 v2".to_string(),
                first.to_string(),
                "seq snapshot".to_string(),
                second.to_string(),
                "unwinding seq snapshot".to_string(),
                "seq try_update 8 v8".to_string(),
                "seq snapshot".to_string(),
                "unwinding seq update 4 v5".to_string(), // refused on both sides: it would panic while panicking
            ]);
        }
    }
    cases
}

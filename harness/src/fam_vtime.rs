//! Family `vtime`: `VouchedTime::{check, new, get_local_time, check_or_die, now}`
//! and the raffle voucher arithmetic (C14).
//!
//! Ops (decimal numbers; local times are signed nanoseconds since the epoch):
//!   limits                      PrimitiveDateTime::MIN/MAX and the two window constants
//!   vouch <nfs|abt> <value>     the crate's vouching parameters applied to a value
//!   rcheck <value> <voucher>    does BASE_TIME_CHECK accept (value, voucher)?
//!   check <ns> <base> <voucher> VouchedTime::check
//!   new <ns> <base> <voucher>   VouchedTime::new, then get_local_time + check_or_die on success
//!   now <delta_ms> <ok|bad|fail>  VouchedTime::now with a provider answering
//!                               base = floor(clock/1ms) - delta; the clock reading is
//!                               only known afterwards and is reported to the model in a
//!                               late-bound input line (see `late_input`).
use crate::util::*;
use std::panic::{catch_unwind, AssertUnwindSafe};
use std::sync::OnceLock;
use vouched_time::VouchedTime;

pub const FALLBACK_CHECK: &str = "CHECK-fc1da7b1b77c57cb-594b9cce3091464a";
pub const FALLBACK_VOUCH: &str =
    "VOUCH-773ec2a0e62c20cd-f9e079b78e895091-fc1da7b1b77c57cb-594b9cce3091464a";
/// Randomly generated parameters unrelated to the crate's (from its unit tests).
pub const FOREIGN_VOUCH: &str =
    "VOUCH-d165ec246b320939-2067990c3fc0f62d-309ee23efd609c4b-45b19da4a316ca0e";

/// "The crate's parameters", read from the source tree the harness was built
/// against (so that a consistent re-keying of the crate is not an alarm).
pub struct Params {
    pub check: raffle::CheckingParameters,
    pub nfs: raffle::VouchingParameters,
    pub abt: raffle::VouchingParameters,
    pub foreign: raffle::VouchingParameters,
}

fn find_param(text: &str, prefix: &str, len: usize) -> Option<String> {
    // first string literal starting with the prefix, outside `//` comment lines
    for line in text.lines() {
        if line.trim_start().starts_with("//") {
            continue;
        }
        if let Some(pos) = line.find(&format!("\"{}", prefix)) {
            let rest = &line[pos + 1..];
            if rest.len() >= len && rest.as_bytes().get(len) == Some(&b'"') {
                return Some(rest[..len].to_string());
            }
        }
    }
    None
}

pub fn params() -> &'static Params {
    static P: OnceLock<Params> = OnceLock::new();
    P.get_or_init(|| {
        let repo = std::env::var("WOODPILE_REPO").unwrap_or_else(|_| "/repo".into());
        let read = |rel: &str| std::fs::read_to_string(format!("{}/vouched_time/src/{}", repo, rel)).unwrap_or_default();
        let check = find_param(&read("lib.rs"), "CHECK-", 39).unwrap_or_else(|| FALLBACK_CHECK.into());
        let nfs = find_param(&read("nfs_voucher.rs"), "VOUCH-", 73).unwrap_or_else(|| FALLBACK_VOUCH.into());
        let abt = find_param(&read("atomic_base_time.rs"), "VOUCH-", 73).unwrap_or_else(|| FALLBACK_VOUCH.into());
        Params {
            check: raffle::CheckingParameters::parse(&check)
                .unwrap_or_else(|_| raffle::CheckingParameters::parse_or_die(FALLBACK_CHECK)),
            nfs: raffle::VouchingParameters::parse(&nfs)
                .unwrap_or_else(|_| raffle::VouchingParameters::parse_or_die(FALLBACK_VOUCH)),
            abt: raffle::VouchingParameters::parse(&abt)
                .unwrap_or_else(|_| raffle::VouchingParameters::parse_or_die(FALLBACK_VOUCH)),
            foreign: raffle::VouchingParameters::parse_or_die(FOREIGN_VOUCH),
        }
    })
}

/// `raffle::Voucher` is a `repr(transparent)` wrapper around a `u64` with no
/// public constructor; the crate itself converts through a union.
union TransmuteVoucher {
    bits: u64,
    voucher: raffle::Voucher,
}
const _: () = assert!(std::mem::size_of::<raffle::Voucher>() == 8);

pub fn voucher_of(bits: u64) -> raffle::Voucher {
    unsafe { TransmuteVoucher { bits }.voucher }
}
pub fn bits_of(voucher: raffle::Voucher) -> u64 {
    unsafe { TransmuteVoucher { voucher }.bits }
}

pub fn min_ns() -> i128 {
    time::PrimitiveDateTime::MIN.assume_utc().unix_timestamp_nanos()
}
pub fn max_ns() -> i128 {
    time::PrimitiveDateTime::MAX.assume_utc().unix_timestamp_nanos()
}

pub fn datetime_of(ns: i128) -> Option<time::PrimitiveDateTime> {
    let odt = time::OffsetDateTime::from_unix_timestamp_nanos(ns).ok()?;
    Some(time::PrimitiveDateTime::new(odt.date(), odt.time()))
}
pub fn ns_of(dt: time::PrimitiveDateTime) -> i128 {
    dt.assume_utc().unix_timestamp_nanos()
}

pub fn err_class(e: &std::io::Error) -> String {
    let msg = e.to_string();
    match msg.as_str() {
        "base_time does not match voucher" => "bad-voucher".into(),
        "local_time is before the Unix epoch" => "before-epoch".into(),
        "local time is out of range" => "out-of-range".into(),
        "local_time is too far ahead of base_time" => "too-far-ahead".into(),
        "local_time is too far behind base_time" => "too-far-behind".into(),
        "provider" => "provider".into(),
        _ => format!("other:{}", msg.replace(' ', "_")),
    }
}

/// C14's acceptance rule, written from the property text with literal
/// constants, in i128 (no wrap-around is possible: |ns| < 2^69, base < 2^64).
pub fn c14_expected(ns: i128, base: u64, voucher: u64) -> bool {
    let vouched = params().check.check(base, voucher_of(voucher));
    let ms = ns.div_euclid(1_000_000);
    let diff = ms - base as i128;
    vouched && ns >= 0 && (-59_900..=2_990).contains(&diff)
}

/// A late-bound input line: an input of the operation that only exists once the
/// real code has run (a clock reading, what `stat` answered).  It is spliced
/// into the transcript after the `O` line `head`, with a leading blank: the
/// model driver trims lines and therefore executes it like any `I` line, while
/// the check driver (which collects a case's replayable ops from lines starting
/// with `I `) and replays ignore it, so that a replay re-executes the real
/// operation and binds fresh values instead of re-using stale ones.
pub fn late_input(head: &str, line: &str) -> String {
    format!("{}\n I {}", head, line)
}

pub struct VTimeFamily;
struct VTimeExec;

fn parse_triple(ns: &str, base: &str, voucher: &str) -> Option<(i128, time::PrimitiveDateTime, u64, u64)> {
    let ns: i128 = ns.parse().ok()?;
    let dt = datetime_of(ns)?;
    Some((ns, dt, base.parse().ok()?, voucher.parse().ok()?))
}

impl Exec for VTimeExec {
    fn step(&mut self, w: &[&str]) -> StepOut {
        match w {
            ["limits"] => StepOut::obs(format!(
                "min={} max={} fwd={} back={}",
                min_ns(),
                max_ns(),
                vouched_time::MAX_FORWARD_DISCREPANCY_MS,
                vouched_time::MAX_BACKWARD_DISCREPANCY_MS
            )),
            ["vouch", which, value] => {
                let Ok(value) = value.parse::<u64>() else { return StepOut::bad() };
                let p = match *which {
                    "nfs" => &params().nfs,
                    "abt" => &params().abt,
                    _ => return StepOut::bad(),
                };
                match catch_unwind(AssertUnwindSafe(|| p.vouch(value))) {
                    Ok(v) => {
                        let mut so = StepOut::obs(format!("v={}", bits_of(v)));
                        if !params().check.check(value, v) {
                            so.violations.push("C14 the crate's own voucher does not pass the crate's check".into());
                        }
                        so
                    }
                    Err(_) => StepOut::obs("panic"),
                }
            }
            ["rcheck", value, voucher] => {
                // Through the crate's own BASE_TIME_CHECK: `check` reports a bad voucher first.
                let (Ok(value), Ok(voucher)) = (value.parse::<u64>(), voucher.parse::<u64>()) else {
                    return StepOut::bad();
                };
                let dt = datetime_of(0).unwrap();
                let bad = match VouchedTime::check(dt, value, voucher_of(voucher)) {
                    Ok(()) => false,
                    Err(e) => err_class(&e) == "bad-voucher",
                };
                let mut so = StepOut::obs(format!("ok={}", if bad { 0 } else { 1 }));
                if bad == params().check.check(value, voucher_of(voucher)) {
                    so.violations.push(format!(
                        "C14 BASE_TIME_CHECK disagrees with the crate's checking parameters on ({}, {})",
                        value, voucher
                    ));
                }
                so
            }
            ["check", ns, base, voucher] => {
                let Some((ns, dt, base, voucher)) = parse_triple(ns, base, voucher) else { return StepOut::bad() };
                let res = catch_unwind(AssertUnwindSafe(|| VouchedTime::check(dt, base, voucher_of(voucher))));
                let mut so = StepOut::default();
                let expected = c14_expected(ns, base, voucher);
                match res {
                    Ok(Ok(())) => {
                        so.obs.push("ok".into());
                        if !expected {
                            so.violations.push(format!("C14 check accepted ns={} base={} voucher={} outside the rule", ns, base, voucher));
                        }
                    }
                    Ok(Err(e)) => {
                        so.obs.push(format!("err {}", err_class(&e)));
                        if expected {
                            so.violations.push(format!("C14 check rejected ns={} base={} voucher={} inside the rule", ns, base, voucher));
                        }
                    }
                    Err(_) => {
                        so.obs.push("panic".into());
                        so.violations.push(format!("C14 check panicked on ns={} base={} voucher={}", ns, base, voucher));
                    }
                }
                so.tags.push(format!("check_{}", if expected { "accept" } else { "reject" }));
                so
            }
            ["new", ns, base, voucher] => {
                let Some((ns, dt, base, voucher)) = parse_triple(ns, base, voucher) else { return StepOut::bad() };
                let res = catch_unwind(AssertUnwindSafe(|| {
                    VouchedTime::new(dt, base, voucher_of(voucher)).map(|vt| {
                        let lt = vt.get_local_time();
                        vt.check_or_die();
                        lt
                    })
                }));
                let mut so = judge_new("new", res, ns, Some((base, voucher)));
                so.tags.push(classify(ns, base, voucher));
                so
            }
            // `new_or_die` (track apigaps): a value inside the rule, a panic outside, never anything else
            ["new_or_die", ns, base, voucher] => {
                let Some((ns, dt, base, voucher)) = parse_triple(ns, base, voucher) else { return StepOut::bad() };
                // the construction and the accessors are caught separately: an invalid value that
                // `new_or_die` lets through must not hide behind the accessors' own self-check panic
                let made = catch_unwind(AssertUnwindSafe(|| VouchedTime::new_or_die(dt, base, voucher_of(voucher))));
                let res = made.map(|vt| {
                    catch_unwind(AssertUnwindSafe(|| {
                        let lt = vt.get_local_time();
                        vt.check_or_die();
                        lt
                    }))
                    .ok()
                });
                let mut so = judge_or_die("new_or_die", res, ns, Some((base, voucher)));
                so.tags.push(format!("or_die_{}", classify(ns, base, voucher)));
                so
            }
            [op @ ("now" | "now_or_die"), delta, kind] => {
                let Ok(delta) = delta.parse::<i128>() else { return StepOut::bad() };
                if !matches!(*kind, "ok" | "bad" | "fail") {
                    return StepOut::bad();
                }
                let or_die = *op == "now_or_die";
                let mut seen: Option<(i128, Option<(u64, u64)>)> = None;
                let res = catch_unwind(AssertUnwindSafe(|| {
                    let provider = |now: time::OffsetDateTime| {
                        let clock = now.unix_timestamp_nanos();
                        if *kind == "fail" {
                            seen = Some((clock, None));
                            return Err(std::io::Error::other("provider"));
                        }
                        let base = (clock.div_euclid(1_000_000) - delta) as u64;
                        let vouched = if *kind == "ok" { base } else { base.wrapping_add(1) };
                        let voucher = params().nfs.vouch(vouched);
                        seen = Some((clock, Some((base, bits_of(voucher)))));
                        Ok((base, voucher))
                    };
                    let made = if or_die { Ok(VouchedTime::now_or_die(provider)) } else { VouchedTime::now(provider) };
                    made.map(|vt| {
                        if or_die {
                            // caught separately (see `new_or_die`)
                            catch_unwind(AssertUnwindSafe(|| {
                                let lt = vt.get_local_time();
                                vt.check_or_die();
                                lt
                            }))
                            .ok()
                        } else {
                            let lt = vt.get_local_time();
                            vt.check_or_die();
                            Some(lt)
                        }
                    })
                }));
                let Some((clock, answer)) = seen else {
                    let mut so = StepOut::obs("now");
                    so.obs.push("provider-not-called".into());
                    so.violations.push("C14 now() did not consult the provider".into());
                    return so;
                };
                let verb = if or_die { "nowat_or_die" } else { "nowat" };
                let line = match answer {
                    Some((b, v)) => format!("{} {} {} {}", verb, clock, b, v),
                    None => format!("{} {} fail", verb, clock),
                };
                let mut so = if or_die {
                    judge_or_die("now_or_die", res.map(|r| r.expect("now_or_die returned")), clock, answer)
                } else {
                    judge_new("now", res.map(|r| r.map(|lt| lt.expect("not caught separately"))), clock, answer)
                };
                so.obs.insert(0, late_input("now", &line));
                so.tags.push(format!("{}_{}", op, kind));
                so
            }
            _ => StepOut::bad(),
        }
    }
}

/// Observation + oracle for a constructor call (`new`, or `now` with the
/// clock reading `ns` and the provider's answer).
fn judge_new(
    what: &str,
    res: std::thread::Result<std::io::Result<time::PrimitiveDateTime>>,
    ns: i128,
    answer: Option<(u64, u64)>,
) -> StepOut {
    let mut so = StepOut::default();
    let expected = match answer {
        Some((base, voucher)) => c14_expected(ns, base, voucher),
        None => false,
    };
    let desc = format!("{} ns={} answer={:?}", what, ns, answer);
    match res {
        Ok(Ok(lt)) => {
            so.obs.push(format!("ok lt={}", ns_of(lt)));
            if !expected {
                so.violations.push(format!("C14 accepted outside the rule: {}", desc));
            }
            if ns_of(lt) != ns {
                so.violations.push(format!("C14 get_local_time reports {} instead of the construction time: {}", ns_of(lt), desc));
            }
        }
        Ok(Err(e)) => {
            so.obs.push(format!("err {}", err_class(&e)));
            if expected {
                so.violations.push(format!("C14 rejected inside the rule: {}", desc));
            }
        }
        Err(_) => {
            so.obs.push("panic".into());
            so.violations.push(format!("C14 panicked: {}", desc));
        }
    }
    so
}

/// Observation + oracle for an `_or_die` constructor: a value exactly inside the rule, a panic outside.
fn judge_or_die(what: &str, res: std::thread::Result<Option<time::PrimitiveDateTime>>, ns: i128, answer: Option<(u64, u64)>) -> StepOut {
    let mut so = StepOut::default();
    let expected = match answer {
        Some((base, voucher)) => c14_expected(ns, base, voucher),
        None => false,
    };
    let desc = format!("{} ns={} answer={:?}", what, ns, answer);
    match res {
        Ok(lt) => {
            match lt {
                Some(lt) => {
                    so.obs.push(format!("ok lt={}", ns_of(lt)));
                    if ns_of(lt) != ns {
                        so.violations.push(format!("C14 get_local_time reports {} instead of the construction time: {}", ns_of(lt), desc));
                    }
                }
                None => so.obs.push("ok lt=panic".into()),
            }
            if !expected {
                so.violations.push(format!("C14 a VouchedTime exists outside the rule: {}", desc));
            } else if lt.is_none() {
                so.violations.push(format!("C14 get_local_time / check_or_die panicked on a value inside the rule: {}", desc));
            }
        }
        Err(_) => {
            so.obs.push("panic".into());
            if expected {
                so.violations.push(format!("C14 died inside the rule: {}", desc));
            }
        }
    }
    so
}

fn classify(ns: i128, base: u64, voucher: u64) -> String {
    let vouched = params().check.check(base, voucher_of(voucher));
    let ms = ns.div_euclid(1_000_000);
    let diff = ms - base as i128;
    let w = if !vouched {
        "unvouched"
    } else if ns < 0 {
        "pre_epoch"
    } else if diff == 2990 || diff == -59900 {
        "on_edge"
    } else if diff == 2991 || diff == -59901 {
        "just_outside"
    } else if (-59900..=2990).contains(&diff) {
        "inside"
    } else if diff.unsigned_abs() > (1u128 << 63) {
        "apart_by_2^63+"
    } else {
        "outside"
    };
    format!("new_{}", w)
}

// ----------------------------------------------------------------- generators

const MS: i128 = 1_000_000;
const T0_MS: i128 = 1_713_027_659_000;

/// Base times of interest for a local time of `l` milliseconds (floor).
fn bases_for(l: i128) -> Vec<u64> {
    let mut v: Vec<u64> = Vec::new();
    for d in [-2992i128, -2991, -2990, -2989, -1, 0, 1, 59_899, 59_900, 59_901, 59_902] {
        // base = l + d, *wrapping* into u64 on purpose: for small l this yields base
        // times just below 2^64, which a wrapping subtraction would take for "close".
        v.push((l + d) as u64);
    }
    for k in [0u64, 1, 2, 2989, 2990, 2991, 59_899, 59_900, 59_901] {
        v.push(u64::MAX - k);
        v.push(k);
    }
    v.extend([(1u64 << 63) - 1, 1u64 << 63, (1u64 << 63) + 1]);
    v.sort_unstable();
    v.dedup();
    v
}

fn special_locals() -> Vec<i128> {
    let (lo, hi) = (min_ns(), max_ns());
    let mut v = vec![
        0, -1, 1, -999_999, -MS, -MS - 1, -MS + 1, 999_999, MS, MS + 1,
        2990 * MS, 2991 * MS - 1, 2991 * MS, 59_900 * MS, 59_901 * MS,
        lo, lo + 1, lo + MS, hi, hi - 1, hi - 999_999, hi - MS,
        T0_MS * MS, T0_MS * MS + 999_999, T0_MS * MS - 1,
        (1i128 << 63) - 1, 1i128 << 63, (1i128 << 64) - 1, 1i128 << 64, (1i128 << 64) + 1,
        -(1i128 << 63), -(1i128 << 64),
    ];
    v.retain(|x| *x >= lo && *x <= hi);
    v
}

fn voucher_for(kind: u64, base: u64, rng: &mut Rng) -> u64 {
    let p = params();
    match kind {
        0..=5 => bits_of(p.nfs.vouch(base)),
        6 => bits_of(p.nfs.vouch(base.wrapping_add(1))),
        7 => bits_of(p.nfs.vouch(base ^ (1 << rng.below(64)))),
        8 => bits_of(p.foreign.vouch(base)),
        9 => bits_of(p.nfs.vouch(base)) ^ (1 << rng.below(64)),
        10 => 0,
        _ => rng.next(),
    }
}

fn random_local(rng: &mut Rng) -> i128 {
    let (lo, hi) = (min_ns(), max_ns());
    let span = (hi - lo) as u128 + 1;
    match rng.below(8) {
        0 => *rng.pick(&special_locals()),
        1 => rng.range(0, 70_000) as i128 * MS + rng.below(1_000_000) as i128, // first minute after the epoch
        2 => -(rng.range(0, 70_000) as i128 * MS) - rng.below(1_000_000) as i128, // just before it
        3 if rng.chance(1, 2) => {
            // just around a random multiple of a power of two (in ms)
            let k = rng.range(8, 46) as u32;
            let m = 1 + rng.below(((hi.div_euclid(MS)) >> k).max(1) as u64) as i128;
            ((m << k) + rng.range(0, 6_000) as i128 - 3_000) * MS + rng.below(1_000_000) as i128
        }
        3 => T0_MS * MS + rng.below(1u64 << 50) as i128,
        4 => hi - rng.below(1u64 << 40) as i128,
        5 => lo + rng.below(1u64 << 40) as i128,
        _ => {
            let r = ((rng.next() as u128) << 64 | rng.next() as u128) % span;
            lo + r as i128
        }
    }
}

impl VTimeExec {
    fn fresh() -> VTimeExec {
        VTimeExec
    }
}

/// Every op catches the panics its `_or_die` calls are specified to raise inside the op itself, so
/// every op may run while the thread is unwinding (track traits, `unwind.rs`): nothing in C14 depends
/// on `std::thread::panicking()`.
impl crate::unwind::Probe for VTimeExec {
    fn unwind_safe(&self, _w: &[&str]) -> bool {
        true
    }
}

impl Family for VTimeFamily {
    fn name(&self) -> &'static str {
        "vtime"
    }

    fn new_exec(&self) -> Box<dyn Exec> {
        crate::unwind::UnwindExec::boxed(VTimeExec::fresh)
    }

    /// Every special local time x every base time of interest x {own voucher,
    /// voucher of base+1, foreign parameters}, through `new` and `check`; the
    /// raffle arithmetic on boundary values; `now` on both sides of both edges.
    fn enumerated(&self, thorough: bool) -> Vec<Vec<String>> {
        let p = params();
        let mut cases = Vec::new();
        cases.push(vec!["limits".to_string()]);
        let vals: Vec<u64> = vec![0, 1, 2, 59_900, T0_MS as u64, (1 << 63) - 1, 1 << 63, u64::MAX - 1, u64::MAX];
        let mut ops = Vec::new();
        for &x in &vals {
            ops.push(format!("vouch nfs {}", x));
            ops.push(format!("vouch abt {}", x));
            ops.push(format!("rcheck {} {}", x, bits_of(p.nfs.vouch(x))));
            ops.push(format!("rcheck {} {}", x, bits_of(p.nfs.vouch(x.wrapping_add(1)))));
            ops.push(format!("rcheck {} {}", x, bits_of(p.foreign.vouch(x))));
            ops.push(format!("rcheck {} {}", x.wrapping_add(1), bits_of(p.nfs.vouch(x))));
        }
        cases.push(ops);
        for ns in special_locals() {
            let l = ns.div_euclid(MS);
            let mut ops = Vec::new();
            for base in bases_for(l) {
                let good = bits_of(p.nfs.vouch(base));
                ops.push(format!("new {} {} {}", ns, base, good));
                ops.push(format!("new_or_die {} {} {}", ns, base, good));
                ops.push(format!("check {} {} {}", ns, base, good));
                ops.push(format!("new {} {} {}", ns, base, bits_of(p.nfs.vouch(base.wrapping_add(1)))));
                if thorough {
                    ops.push(format!("new {} {} {}", ns, base, bits_of(p.foreign.vouch(base))));
                    ops.push(format!("check {} {} {}", ns, base, good ^ 1));
                }
            }
            cases.push(ops);
        }
        // Power-of-two boundaries of the millisecond timestamps: an in-window (local, base) pair
        // that straddles m * 2^k ms (local just above and base just below, and the other way
        // round), plus the same pairs pushed just outside the window.  Nothing in the property
        // depends on where in the 64-bit range the pair sits, so every verdict must be the one the
        // signed difference gives; "cheap" bit tricks (xor / shift pre-filters, truncating casts)
        // differ exactly on such pairs.
        let max_l = max_ns().div_euclid(MS);
        for k in 8u32..=62 {
            let mut ops = Vec::new();
            for m in [1i128, 2, 3, 5, 7] {
                let b = m << k;
                if b - 60_000 < 0 || b + 60_000 > max_l {
                    continue;
                }
                for (l, base) in [
                    (b + 500, b - 1_000), (b, b - 1), (b + 2_989, b - 1), (b + 2_990, b - 1),      // local ahead of base
                    (b - 1_000, b + 500), (b - 1, b), (b - 59_899, b), (b - 59_900, b + 1),         // local behind base
                    (b + 1, b + 1), (b - 1, b - 1),
                ] {
                    let base = base as u64;
                    ops.push(format!("new {} {} {}", l * MS + 123_456, base, bits_of(p.nfs.vouch(base))));
                }
            }
            if !ops.is_empty() {
                cases.push(ops);
            }
        }
        let mut ops = Vec::new();
        for d in [-2992i64, -2991, -2990, -2989, -100, 0, 100, 59_800, 59_899, 59_900, 59_901, 59_902] {
            // d = base - clock; the reading happens inside now(), so exact edges are hit
            ops.push(format!("now {} ok", -d));
            ops.push(format!("now {} bad", -d));
            ops.push(format!("now_or_die {} ok", -d));
        }
        ops.push("now 0 fail".to_string());
        ops.push("now_or_die 0 fail".to_string());
        ops.push("now_or_die 0 bad".to_string());
        cases.push(ops);
        cases
    }

    fn gen_case(&self, rng: &mut Rng, _idx: u64, _thorough: bool) -> Vec<String> {
        let mut ops = Vec::new();
        let nops = rng.range(2, 10);
        for _ in 0..nops {
            match rng.below(20) {
                0 => {
                    let x = match rng.below(3) {
                        0 => rng.next(),
                        1 => u64::MAX - rng.below(100_000),
                        _ => rng.below(1u64 << 45),
                    };
                    ops.push(format!("vouch {} {}", if rng.chance(1, 2) { "nfs" } else { "abt" }, x));
                    let k = rng.below(12);
                    ops.push(format!("rcheck {} {}", x, voucher_for(k, x, rng)));
                }
                1 => {
                    let d = match rng.below(3) {
                        0 => *rng.pick(&[-2991i64, -2990, 59_900, 59_901]),
                        _ => rng.range(0, 70_000) as i64 - 5_000,
                    };
                    let verb = if rng.chance(1, 4) { "now_or_die" } else { "now" };
                    ops.push(format!("{} {} {}", verb, -d, *rng.pick(&["ok", "ok", "ok", "bad", "fail"])));
                }
                _ => {
                    let ns = random_local(rng);
                    let l = ns.div_euclid(MS);
                    let base = match rng.below(6) {
                        0 => *rng.pick(&bases_for(l)),
                        1 => (l + rng.range(0, 70_000) as i128 - 5_000) as u64, // around the window, wrapping
                        2 => (l - rng.range(0, 3_200) as i128) as u64,
                        3 => u64::MAX - rng.below(70_000),
                        4 => rng.next(),
                        _ => (l + *rng.pick(&[-2991i128, -2990, 59_900, 59_901])) as u64,
                    };
                    let k = rng.below(12);
                    let v = voucher_for(k, base, rng);
                    let op = *rng.pick(&["new", "new", "new", "check", "new_or_die"]);
                    ops.push(format!("{} {} {} {}", op, ns, base, v));
                }
            }
        }
        if rng.chance(1, 5) {
            ops = crate::unwind::sprinkle(rng, ops, 1, 2, |_| true);
        }
        ops
    }
}

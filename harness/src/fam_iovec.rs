//! Family `iovec`: histories over OwningIovec / ConsumingIovec / ByteArena /
//! AnchoredSlice (C03, C04, C05, C09 structural, C10, C20).
//!
//! Handles are assigned in creation order per kind (v, a, s, b), exactly as the
//! Lean driver does.  After every op all live objects are printed (abstract `A`
//! lines, structural `S`/`T` lines with canonical addresses, live chunk set
//! `L`) and the direct oracles run on *all* objects:
//!   * shadow buffer per iovec (cells = bytes / placeholders), C03 + C04 + C20
//!   * every exposed slice lies inside a live chunk (registry hook H1) or a
//!     caller buffer, C05
//!   * live chunk counters back to baseline at the end of the case, C10
use crate::fam_readn::{kind_index, parse_script, Call, ScriptedReader};
use crate::util::*;
use owning_iovec::{AnchoredSlice, Backref, ByteArena, OwningIovec};
use std::io::{IoSlice, Read};
use std::num::NonZeroUsize;

// public-API completion (track apigaps): further op words, their generator and scripted cases
mod api;
// the last public corners (track apileft): anchors / arenas / slices obtained through `Default`
mod api2;
// track traits: unwinding / scoped_panic hooks, Clone::clone_from ops
mod traits;
// track sraw: raw (un-anchored) pushes of a detached slice's bytes, empty `extend` items, hand-off histories
mod sraw;

#[derive(Clone, Copy, PartialEq, Debug)]
enum Cell {
    Byte(u8),
    Hole(usize),
}

#[derive(Clone, Default)]
struct Shadow {
    cells: Vec<Cell>,
    consumed: usize,
    /// set when an op whose effect the shadow cannot predict ran (e.g. a foreign backref)
    unknown: bool,
}

impl Shadow {
    fn expected_stable(&self) -> Vec<u8> {
        self.cells[self.consumed..]
            .iter()
            .map_while(|c| match c {
                Cell::Byte(b) => Some(*b),
                Cell::Hole(_) => None,
            })
            .collect()
    }
    fn pending(&self) -> bool {
        self.cells[self.consumed..].iter().any(|c| matches!(c, Cell::Hole(_)))
    }
    fn size(&self) -> usize {
        self.cells.len() - self.consumed
    }
}

pub struct IovecFamily;

impl crate::unwind::Probe for IovecExec {
    fn unwind_safe(&self, w: &[&str]) -> bool {
        self.unwind_safe_words(w)
    }
}

pub(crate) struct IovecExec {
    // objects first (dropped before the buffers they may borrow from)
    pub(crate) iovs: Vec<Option<OwningIovec<'static>>>,
    aslices: Vec<Option<AnchoredSlice>>,
    arenas: Vec<Option<ByteArena>>,
    brefs: Vec<Option<Backref>>,
    bref_owner: Vec<usize>,
    shadows: Vec<Shadow>,
    /// iovec handles that came out of `clone` / `take` (C20 speaks about those)
    snapshots: Vec<usize>,
    bufs: Vec<Box<[u8]>>,
    base_ordinal: u64,
    base_chunks: usize,
    base_bytes: usize,
    /// set once the C05 containment oracle fired in this case: the real objects now hold a dangling
    /// pointer, so no further op is executed on them (and they are leaked, not dropped) - the
    /// violation is reported with its op sequence instead of crashing the whole run.
    pub(crate) dead_memory: bool,
    /// (track sraw) detached slices some iovec borrows from (`push_sraw`): not to be moved / mutated any more
    pinned: Vec<usize>,
    /// (track sraw) set while a call runs that C03 specifies NOT to panic (`panic_violation` reports it)
    must_not_panic: Option<&'static str>,
}

fn handle(pfx: char, t: &str) -> Option<usize> {
    let mut cs = t.chars();
    if cs.next()? != pfx {
        return None;
    }
    cs.as_str().parse().ok()
}

impl IovecExec {
    fn new() -> Self {
        let (_, next) = ByteArena::verif_live_chunks();
        IovecExec {
            iovs: vec![],
            aslices: vec![],
            arenas: vec![],
            brefs: vec![],
            bref_owner: vec![],
            shadows: vec![],
            snapshots: vec![],
            bufs: vec![],
            base_ordinal: next,
            base_chunks: ByteArena::num_live_chunks(),
            base_bytes: ByteArena::num_live_bytes(),
            dead_memory: false,
            pinned: vec![],
            must_not_panic: None,
        }
    }

    fn add_buf(&mut self, bytes: Vec<u8>) -> &'static [u8] {
        let b: Box<[u8]> = bytes.into_boxed_slice();
        let s: &'static [u8] = unsafe { std::slice::from_raw_parts(b.as_ptr(), b.len()) };
        self.bufs.push(b);
        s
    }

    /// canonical address of a slice, or None if it is not inside live memory
    fn canon(&self, ptr: usize, len: usize, live: &[(usize, usize, u64)]) -> Option<String> {
        for (addr, clen, ord) in live {
            if *addr <= ptr && ptr + len <= addr + clen && *ord >= self.base_ordinal {
                return Some(format!("c{}:{}+{}", ord - self.base_ordinal, ptr - addr, len));
            }
        }
        for (id, b) in self.bufs.iter().enumerate() {
            let a = b.as_ptr() as usize;
            if a <= ptr && ptr + len <= a + b.len() && !b.is_empty() {
                return Some(format!("e{}:{}+{}", id, ptr - a, len));
            }
        }
        None
    }

    /// prints every live object and runs the oracles on all of them
    fn describe(&mut self, so: &mut StepOut, touched: Option<usize>) {
        let (live, _) = ByteArena::verif_live_chunks();
        for i in 0..self.iovs.len() {
            let Some(v) = self.iovs[i].as_ref() else { continue };
            let stable: &[IoSlice<'_>] = v.stable_prefix();
            let mut bytes = Vec::new();
            let mut addrs = Vec::new();
            for s in stable {
                if s.is_empty() {
                    so.violations.push(format!("C03 v{} exposes an empty slice", i));
                }
                match self.canon(s.as_ptr() as usize, s.len(), &live) {
                    Some(a) => {
                        addrs.push(a);
                        bytes.extend_from_slice(s);
                    }
                    None => {
                        so.violations.push(format!(
                            "C05 v{} exposes a slice outside live memory (not in any live chunk or caller buffer)",
                            i
                        ));
                        if self.snapshots.contains(&i) {
                            so.violations.push(format!(
                                "C20 v{} (a cloned / taken iovec) no longer holds valid contents: a slice points outside live memory",
                                i
                            ));
                        }
                        addrs.push("DEAD".into());
                    }
                }
            }
            let pend = v.has_pending_backrefs();
            let nslices = v.len();
            let shown = if (touched == Some(i) && bytes.len() <= 4096) || bytes.len() <= 16 { to_hex(&bytes) } else { format!("#{}:{:016x}", bytes.len(), fnv64(&bytes)) };
            so.obs.push(format!("A v{} size={} pend={} stable={}", i, v.total_size(), pend as u8, shown));
            so.obs.push(format!(
                "S v{} n={} stable={} rem={}",
                i,
                nslices,
                if addrs.is_empty() { "-".to_string() } else { addrs.join(",") },
                self.iovs[i].as_mut().unwrap().arena().remaining()
            ));
            // ---- shadow oracle
            let v = self.iovs[i].as_ref().unwrap();
            let sh = &self.shadows[i];
            if !sh.unknown {
                let tag = if touched == Some(i) || touched.is_none() { "C03" } else { "C20" };
                let exp = sh.expected_stable();
                if v.total_size() != sh.size() {
                    so.violations.push(format!("{} v{} total_size {} != appended-consumed {}", tag, i, v.total_size(), sh.size()));
                }
                if !exp.starts_with(&bytes) {
                    let t = if tag == "C20" { "C20" } else { "C04" };
                    so.violations.push(format!(
                        "{} v{} readable bytes are not a prefix of the bytes appended before the first pending placeholder",
                        t, i
                    ));
                }
                if pend != sh.pending() {
                    so.violations.push(format!("C04 v{} has_pending_backrefs={} but shadow says {}", i, pend, sh.pending()));
                }
                if !sh.pending() && bytes != exp {
                    let t = if tag == "C20" { "C20" } else { "C04" };
                    so.violations.push(format!("{} v{} nothing pending but not every buffered byte is readable", t, i));
                }
                let fl = v.flatten();
                if fl.is_ok() != !sh.pending() || v.iovs().is_ok() != !sh.pending() {
                    so.violations.push(format!("C04 v{} flatten/iovs report Ok={} with pending={}", i, fl.is_ok(), sh.pending()));
                }
                let flb = match fl {
                    Ok(b) | Err(b) => b,
                };
                if flb != bytes {
                    so.violations.push(format!("C03 v{} flatten differs from the concatenated stable prefix", i));
                }
            }
        }
        for i in 0..self.iovs.len() {
            // stable_consumer needs &mut
            if let Some(v) = self.iovs[i].as_mut() {
                let pend = v.has_pending_backrefs();
                if v.stable_consumer().is_ok() == pend {
                    so.violations.push(format!("C04 v{} stable_consumer Ok={} with pending={}", i, !pend, pend));
                }
            }
        }
        for (i, s) in self.aslices.iter().enumerate() {
            let Some(s) = s else { continue };
            let sl = s.slice();
            if sl.is_empty() {
                so.obs.push(format!("T s{} at=- bytes=-", i));
                continue;
            }
            match self.canon(sl.as_ptr() as usize, sl.len(), &live) {
                Some(a) => so.obs.push(format!("T s{} at={} bytes=#{}:{:016x}", i, a, sl.len(), fnv64(sl))),
                None => {
                    so.violations.push(format!("C05 anchored slice s{} points outside live memory", i));
                    so.obs.push(format!("T s{} at=DEAD bytes=-", i));
                }
            }
        }
        for (i, a) in self.arenas.iter().enumerate() {
            if let Some(a) = a {
                so.obs.push(format!("S a{} rem={}", i, a.remaining()));
            }
        }
        let mut mine: Vec<(u64, usize)> = live
            .iter()
            .filter(|(_, _, o)| *o >= self.base_ordinal)
            .map(|(_, l, o)| (*o - self.base_ordinal, *l))
            .collect();
        mine.sort();
        // overlapping chunks would be an allocator bug; cheap to check
        let mut ranges: Vec<(usize, usize)> = live.iter().map(|(a, l, _)| (*a, *l)).collect();
        ranges.sort();
        for w in ranges.windows(2) {
            if w[0].0 + w[0].1 > w[1].0 {
                so.violations.push("C05 two live chunks overlap".into());
            }
        }
        so.obs.push(format!(
            "L live={}",
            if mine.is_empty() { "-".to_string() } else { mine.iter().map(|(o, _)| format!("c{}", o)).collect::<Vec<_>>().join(",") }
        ));
    }

    fn push_shadow_bytes(&mut self, i: usize, bytes: &[u8]) {
        self.shadows[i].cells.extend(bytes.iter().map(|b| Cell::Byte(*b)));
    }

    /// consumption oracle: `removed` bytes left through the consumer
    fn consumed_oracle(&mut self, so: &mut StepOut, i: usize, before_size: usize, returned: Option<&[u8]>) {
        let after = self.iovs[i].as_ref().unwrap().total_size();
        let removed = before_size.saturating_sub(after);
        let sh = &mut self.shadows[i];
        if sh.unknown {
            return;
        }
        let exp = sh.expected_stable();
        if removed > exp.len() {
            so.violations.push(format!("C04 v{} consumed {} bytes but only {} precede the first pending placeholder", i, removed, exp.len()));
            // ... and C03: what the consumer was handed can no longer equal the appended bytes with the
            // backfilled value in place (it got placeholder bytes, or bytes behind them, ahead of the fill)
            so.violations.push(format!(
                "C03 v{} the consumer was handed {} bytes but only {} appended bytes precede the first unfilled placeholder",
                i, removed, exp.len()
            ));
            sh.unknown = true;
            return;
        }
        if let Some(r) = returned {
            if r != &exp[..removed.min(exp.len())] || r.len() != removed {
                so.violations.push(format!("C03 v{} Read returned bytes that differ from the next appended bytes", i));
            }
        }
        sh.consumed += removed;
    }
}

/// FNV-1a, 64 bit (the Lean driver computes the same)
pub fn fnv64(bytes: &[u8]) -> u64 {
    let mut h: u64 = 0xcbf29ce484222325;
    for b in bytes {
        h ^= *b as u64;
        h = h.wrapping_mul(0x100000001b3);
    }
    h
}

fn parse_hex_list(s: &str) -> Option<Vec<Vec<u8>>> {
    if s == "-" {
        return Some(vec![]);
    }
    s.split('|').map(from_hex).collect()
}

impl Exec for IovecExec {
    fn step(&mut self, w: &[&str]) -> StepOut {
        let mut so = StepOut::default();
        if self.dead_memory {
            return so;
        }
        if self.sraw_refuses(w) {
            return StepOut::bad();
        }
        if let Some(r) = self.step_sraw(w) {
            return r;
        }
        if let Some(r) = self.step_api2(w) {
            return r;
        }
        if let Some(r) = self.step_api_tagged(w) {
            return r;
        }
        if let Some(r) = self.step_traits(w) {
            return r;
        }
        let mut touched: Option<usize> = None;
        macro_rules! bad {
            () => {
                return StepOut::bad()
            };
        }
        match w {
            ["new"] => {
                self.iovs.push(Some(OwningIovec::new()));
                self.shadows.push(Shadow::default());
            }
            ["new_arena"] => self.arenas.push(Some(ByteArena::new())),
            ["new_from_arena", a] => {
                let Some(ai) = handle('a', a) else { bad!() };
                let Some(ar) = self.arenas.get_mut(ai).and_then(|x| x.take()) else { bad!() };
                self.iovs.push(Some(OwningIovec::new_from_arena(ar)));
                self.shadows.push(Shadow::default());
            }
            ["new_from_slices", hexes] => {
                let Some(bufs) = parse_hex_list(hexes) else { bad!() };
                let mut slices = Vec::new();
                let mut sh = Shadow::default();
                for b in bufs {
                    sh.cells.extend(b.iter().map(|x| Cell::Byte(*x)));
                    let s = self.add_buf(b);
                    slices.push(IoSlice::new(s));
                }
                self.iovs.push(Some(OwningIovec::new_from_slices(slices, None)));
                self.shadows.push(sh);
            }
            [op, x, arg] if handle('v', x).is_some() => {
                let i = handle('v', x).unwrap();
                if self.iovs.get(i).map(|v| v.is_none()).unwrap_or(true) {
                    bad!()
                }
                touched = Some(i);
                match *op {
                    "push" | "push_borrowed" | "push_copy" | "register" => {
                        let Some(bytes) = from_hex(arg) else { bad!() };
                        match *op {
                            "push_copy" => {
                                self.iovs[i].as_mut().unwrap().push_copy(&bytes);
                                self.push_shadow_bytes(i, &bytes);
                            }
                            "register" => {
                                let b = self.iovs[i].as_mut().unwrap().register_patch(&bytes);
                                so.obs.push(format!("R len={}", b.len()));
                                if b.len() != bytes.len() {
                                    so.violations.push("C03 register_patch returned a backref of the wrong size".into());
                                }
                                let id = self.brefs.len();
                                self.brefs.push(Some(b));
                                self.bref_owner.push(i);
                                self.shadows[i].cells.extend(bytes.iter().map(|_| Cell::Hole(id)));
                            }
                            _ => {
                                self.push_shadow_bytes(i, &bytes);
                                let s = self.add_buf(bytes);
                                if *op == "push" {
                                    self.iovs[i].as_mut().unwrap().push(s);
                                } else {
                                    self.iovs[i].as_mut().unwrap().push_borrowed(s);
                                }
                            }
                        }
                    }
                    "extend" => {
                        let Some(bufs) = parse_hex_list(arg) else { bad!() };
                        let mut slices = Vec::new();
                        for b in bufs {
                            self.push_shadow_bytes(i, &b);
                            let s = self.add_buf(b);
                            slices.push(IoSlice::new(s));
                        }
                        self.iovs[i].as_mut().unwrap().extend(slices);
                    }
                    "consume" | "advance" | "read" | "reserve" => {
                        let Ok(k) = arg.parse::<usize>() else { bad!() };
                        let before = self.iovs[i].as_ref().unwrap().total_size();
                        match *op {
                            "consume" => {
                                let nslices_before = self.iovs[i].as_ref().unwrap().len();
                                let n = self.iovs[i].as_mut().unwrap().consumer().consume(k);
                                so.obs.push(format!("R {}", n));
                                let nslices_after = self.iovs[i].as_ref().unwrap().len();
                                if nslices_before - nslices_after != n || n > k {
                                    so.violations.push(format!("C03 v{} consume({}) reported {} but removed {} slices", i, k, n, nslices_before - nslices_after));
                                }
                                self.consumed_oracle(&mut so, i, before, None);
                            }
                            "advance" => {
                                let n = self.iovs[i].as_mut().unwrap().consumer().advance_slices(k);
                                so.obs.push(format!("R {}", n));
                                let after = self.iovs[i].as_ref().unwrap().total_size();
                                if before - after != n || n > k {
                                    so.violations.push(format!("C03 v{} advance_slices({}) reported {} but removed {} bytes", i, k, n, before - after));
                                }
                                self.consumed_oracle(&mut so, i, before, None);
                            }
                            "read" => {
                                let mut dst = vec![0u8; k];
                                let n = self.iovs[i].as_mut().unwrap().consumer().read(&mut dst).unwrap_or(usize::MAX);
                                if n > k {
                                    so.violations.push(format!("C03 v{} Read failed or overran", i));
                                    dst.clear();
                                } else {
                                    dst.truncate(n);
                                }
                                so.obs.push(format!("R {}", to_hex(&dst)));
                                self.consumed_oracle(&mut so, i, before, Some(&dst));
                            }
                            _ => {
                                self.iovs[i].as_mut().unwrap().arena().ensure_capacity(k);
                            }
                        }
                    }
                    "push_aslice" => {
                        let Some(si) = handle('s', arg) else { bad!() };
                        let Some(a) = self.aslices.get_mut(si).and_then(|x| x.take()) else { bad!() };
                        // C05 oracle first: never dereference a slice that is not inside live memory
                        // (a dangling anchored slice must be reported as a violation, not crash the run).
                        if !a.slice().is_empty() {
                            let (live, _) = ByteArena::verif_live_chunks();
                            if self.canon(a.slice().as_ptr() as usize, a.slice().len(), &live).is_none() {
                                so.violations.push(format!("C05 anchored slice s{} points outside live memory (push_aslice)", si));
                                std::mem::forget(a);
                                self.dead_memory = true;
                                return so;
                            }
                        }
                        let bytes = a.slice().to_vec();
                        // the composite the safe wrappers (Encoder::encode_anchored) perform
                        let (_, slice, anchor) = unsafe { a.components() };
                        if !slice.is_empty() {
                            let v = self.iovs[i].as_mut().unwrap();
                            v.push(slice);
                            v.push_anchor(anchor);
                            self.push_shadow_bytes(i, &bytes);
                        }
                    }
                    "swap_arena" => {
                        let Some(ai) = handle('a', arg) else { bad!() };
                        let Some(ar) = self.arenas.get_mut(ai).and_then(|x| x.take()) else { bad!() };
                        let old = self.iovs[i].as_mut().unwrap().consumer().swap_arena(ar);
                        self.arenas[ai] = Some(old);
                    }
                    _ => bad!(),
                }
            }
            [op, x, arg] if handle('a', x).is_some() => {
                let ai = handle('a', x).unwrap();
                let (Some(Some(ar)), Ok(k)) = (self.arenas.get_mut(ai), arg.parse::<usize>()) else { bad!() };
                match *op {
                    "a_reserve" => ar.ensure_capacity(k),
                    _ => bad!(),
                }
            }
            [op, x, arg] if handle('s', x).is_some() => {
                let si = handle('s', x).unwrap();
                let Ok(k) = arg.parse::<usize>() else { bad!() };
                if self.aslices.get(si).map(|s| s.is_none()).unwrap_or(true) {
                    bad!()
                }
                match *op {
                    "s_skip" => {
                        let n = self.aslices[si].as_mut().unwrap().skip_prefix(k);
                        so.obs.push(format!("R {}", n));
                    }
                    "s_dropsuf" => {
                        let n = self.aslices[si].as_mut().unwrap().drop_suffix(k);
                        so.obs.push(format!("R {}", n));
                    }
                    "s_split" => {
                        let a = self.aslices[si].take().unwrap();
                        let whole = a.slice().to_vec();
                        let (l, r) = a.split_at(k);
                        let mut cat = l.slice().to_vec();
                        cat.extend_from_slice(r.slice());
                        if cat != whole || (k < whole.len() && l.slice().len() != k) {
                            so.violations.push("C05 split_at parts do not tile the slice".into());
                        }
                        self.aslices.push(Some(l));
                        self.aslices.push(Some(r));
                    }
                    _ => bad!(),
                }
            }
            ["backfill", v, b, hex] => {
                let (Some(i), Some(bi), Some(bytes)) = (handle('v', v), handle('b', b), from_hex(hex)) else { bad!() };
                if self.iovs.get(i).map(|v| v.is_none()).unwrap_or(true) {
                    bad!()
                }
                let Some(tok) = self.brefs.get_mut(bi).and_then(|x| x.take()) else { bad!() };
                touched = Some(i);
                if tok.len() != bytes.len() {
                    // a source of the wrong size, for ANY token (own, foreign, stale, empty): a documented
                    // panic; `backfill_or_panic` compares the sizes before it looks anything up, so the
                    // iovec must be exactly as it was (a pending placeholder stays pending and
                    // invisible).  Catch it here and keep the case going.
                    so.tags.push("backfill_wrong_size".into());
                    let tok_len = tok.len();
                    let v = self.iovs[i].as_mut().unwrap();
                    let r = std::panic::catch_unwind(std::panic::AssertUnwindSafe(|| v.backfill_or_panic(tok, &bytes)));
                    if r.is_ok() {
                        so.violations.push(format!("C03 v{} backfill_or_panic accepted a {}-byte source for a {}-byte placeholder", i, bytes.len(), tok_len));
                        self.shadows[i].unknown = true;
                    }
                    so.obs.push("R panicked".into());
                    self.describe(&mut so, touched);
                    return so;
                }
                if self.bref_owner[bi] != i {
                    // foreign token: whatever happens, the shadow cannot predict it
                    self.shadows[i].unknown = true;
                } else {
                    let sh = &mut self.shadows[i];
                    let mut it = bytes.iter();
                    let holes = sh.cells.iter().filter(|c| **c == Cell::Hole(bi)).count();
                    if holes == bytes.len() {
                        for c in sh.cells.iter_mut() {
                            if *c == Cell::Hole(bi) {
                                *c = Cell::Byte(*it.next().unwrap());
                            }
                        }
                        // C03 (`no_panic_valid`): a pending placeholder of this very iovec, a source of the
                        // right size - the call is specified not to panic (only claimed while the shadow
                        // still follows the iovec)
                        if holes > 0 && !self.shadows[i].unknown {
                            self.must_not_panic = Some("backfill_or_panic panicked on a pending placeholder of this iovec with a source of the right size");
                        }
                        self.iovs[i].as_mut().unwrap().backfill_or_panic(tok, &bytes);
                        self.must_not_panic = None;
                        self.describe(&mut so, touched);
                        return so;
                    } else if holes > 0 || {
                        // ... or a stale token equal BY VALUE to a placeholder of this iovec that is pending
                        let tok_repr = format!("{:?}", tok);
                        self.brefs.iter().enumerate().any(|(k, t)| {
                            k != bi
                                && self.bref_owner[k] == i
                                && t.as_ref().map(|t| format!("{:?}", t)).as_deref() == Some(tok_repr.as_str())
                                && self.shadows[i].cells.iter().any(|c| *c == Cell::Hole(k))
                        }) && tok.len() != bytes.len()
                    } {
                        // own, still-pending placeholder but a source of the wrong size: a documented
                        // panic, which must leave the iovec exactly as it was (the placeholder stays
                        // pending and invisible).  Catch it here and keep the case going.
                        so.tags.push("backfill_wrong_size".into());
                        let tok_len = tok.len();
                        let v = self.iovs[i].as_mut().unwrap();
                        let r = std::panic::catch_unwind(std::panic::AssertUnwindSafe(|| v.backfill_or_panic(tok, &bytes)));
                        if r.is_ok() {
                            so.violations.push(format!("C03 v{} backfill_or_panic accepted a {}-byte source for a {}-byte placeholder", i, bytes.len(), tok_len));
                            self.shadows[i].unknown = true;
                        }
                        so.obs.push("R panicked".into());
                        self.describe(&mut so, touched);
                        return so;
                    } else {
                        // stale token (cleared since): expected to panic
                        so.tags.push("backfill_expected_panic".into());
                    }
                }
                let tok_len = tok.len();
                // a stale token is legitimately accepted only when it is equal, by value, to a
                // placeholder of this iovec that is still pending (same key and geometry)
                let tok_repr = format!("{:?}", tok); // Backref is neither Clone nor PartialEq
                let twin_pending = self.bref_owner[bi] == i
                    && self.brefs.iter().enumerate().any(|(k, t)| {
                        k != bi && self.bref_owner[k] == i && t.as_ref().map(|t| format!("{:?}", t)).as_deref() == Some(tok_repr.as_str())
                            && self.shadows[i].cells.iter().any(|c| *c == Cell::Hole(k))
                    });
                let owned = self.bref_owner[bi] == i;
                self.iovs[i].as_mut().unwrap().backfill_or_panic(tok, &bytes);
                if owned && !twin_pending && !self.shadows[i].unknown {
                    so.violations.push(format!("C03 v{} backfill_or_panic accepted a stale token (no such placeholder is pending)", i));
                }
                if tok_len != bytes.len() {
                    so.violations.push(format!("C03 v{} backfill_or_panic accepted a {}-byte source for a {}-byte placeholder", i, bytes.len(), tok_len));
                }
                // it returned although the shadow had no matching placeholder (stale token whose
                // key coincides with a newer placeholder): the shadow cannot follow
                self.shadows[i].unknown = true;
            }
            [op, x] if handle('v', x).is_some() => {
                let i = handle('v', x).unwrap();
                if self.iovs.get(i).map(|v| v.is_none()).unwrap_or(true) {
                    bad!()
                }
                touched = Some(i);
                match *op {
                    "pop" => {
                        let before = self.iovs[i].as_ref().unwrap().total_size();
                        self.iovs[i].as_mut().unwrap().consumer().pop_front();
                        self.consumed_oracle(&mut so, i, before, None);
                    }
                    "clear" => {
                        self.iovs[i].as_mut().unwrap().clear();
                        let unknown = false;
                        self.shadows[i] = Shadow { cells: vec![], consumed: 0, unknown };
                    }
                    "take" => {
                        let t = self.iovs[i].as_mut().unwrap().take();
                        let sh = std::mem::take(&mut self.shadows[i]);
                        let newi = self.iovs.len();
                        self.iovs.push(Some(t));
                        self.shadows.push(sh);
                        self.snapshots.push(newi);
                        // outstanding backrefs move with the contents
                        for o in self.bref_owner.iter_mut() {
                            if *o == i {
                                *o = newi;
                            }
                        }
                        if !self.iovs[i].as_ref().unwrap().is_empty() || self.iovs[i].as_ref().unwrap().total_size() != 0 {
                            so.violations.push("C20 take() left a non-empty iovec behind".into());
                        }
                    }
                    "clone" => {
                        let c = self.iovs[i].as_ref().unwrap().clone();
                        let mut sh = self.shadows[i].clone();
                        if sh.pending() {
                            // outside C20's premise; the clone's placeholders have no token
                            sh.unknown = true;
                        } else {
                            // "exactly the bytes unconsumed at that moment"
                            if c.flatten().ok() != self.iovs[i].as_ref().unwrap().flatten().ok() {
                                so.violations.push("C20 clone does not hold the bytes unconsumed at that moment".into());
                            }
                        }
                        self.snapshots.push(self.iovs.len());
                        self.iovs.push(Some(c));
                        self.shadows.push(sh);
                    }
                    "drop" => {
                        self.iovs[i] = None;
                    }
                    "flush" => self.iovs[i].as_mut().unwrap().arena().flush_cache(),
                    "take_arena" => {
                        let a = self.iovs[i].as_mut().unwrap().consumer().take_arena();
                        self.arenas.push(Some(a));
                    }
                    _ => bad!(),
                }
            }
            [op, x] if handle('a', x).is_some() => {
                let ai = handle('a', x).unwrap();
                if self.arenas.get(ai).map(|a| a.is_none()).unwrap_or(true) {
                    bad!()
                }
                match *op {
                    "a_flush" => self.arenas[ai].as_mut().unwrap().flush_cache(),
                    "drop_arena" => self.arenas[ai] = None,
                    _ => bad!(),
                }
            }
            [op, x] if handle('s', x).is_some() => {
                let si = handle('s', x).unwrap();
                if self.aslices.get(si).map(|a| a.is_none()).unwrap_or(true) {
                    bad!()
                }
                match *op {
                    "s_take" => {
                        let t = self.aslices[si].as_mut().unwrap().take();
                        self.aslices.push(Some(t));
                    }
                    "s_clone" => {
                        let c = self.aslices[si].as_ref().unwrap().clone();
                        self.aslices.push(Some(c));
                    }
                    "s_drop" => self.aslices[si] = None,
                    _ => bad!(),
                }
            }
            ["read_n", x, count, attempts, src, script] => {
                let (Ok(count), Ok(attempts), Some(src), Some(script)) =
                    (count.parse::<usize>(), attempts.parse::<usize>(), from_hex(src), parse_script(script))
                else {
                    bad!()
                };
                let Some(att) = NonZeroUsize::new(attempts) else { bad!() };
                let mut reader = ScriptedReader::new(src, script);
                let res = if let Some(i) = handle('v', x) {
                    let Some(Some(v)) = self.iovs.get_mut(i) else { bad!() };
                    touched = Some(i);
                    v.arena().read_n(&mut reader, count, att)
                } else if let Some(ai) = handle('a', x) {
                    let Some(Some(a)) = self.arenas.get_mut(ai) else { bad!() };
                    a.read_n(&mut reader, count, att)
                } else {
                    bad!()
                };
                let reqs: Vec<usize> = reader
                    .calls
                    .iter()
                    .map(|c| match c {
                        Call::Delivered(a, _) => *a,
                        Call::Failed(a, _) => *a,
                    })
                    .collect();
                match res {
                    Ok(s) => {
                        so.obs.push(format!("R ok reqs={}", nat_list(&reqs)));
                        self.aslices.push(Some(s));
                    }
                    Err(e) => so.obs.push(format!("R err {} reqs={}", kind_index(e.kind()), nat_list(&reqs))),
                }
            }
            _ => bad!(),
        }
        self.describe(&mut so, touched);
        if so.violations.iter().any(|v| v.starts_with("C05")) {
            self.dead_memory = true;
        }
        so
    }

    fn panic_violation(&self, w: &[&str]) -> Option<String> {
        // `pop` on an iovec with no stable slice and `backfill` with a stale / foreign / wrong-size
        // token are documented panics; nothing else in this vocabulary may panic.
        match w.first().copied() {
            Some("backfill") if self.must_not_panic.is_some() => Some(format!("C03 {}", self.must_not_panic.unwrap())),
            Some("pop") | Some("sc_pop") | Some("backfill") => None,
            Some(op) => Some(format!("C03 unexpected panic in {}", op)),
            None => None,
        }
    }

    fn as_any_mut(&mut self) -> Option<&mut dyn std::any::Any> {
        Some(self)
    }

    fn finish(&mut self) -> StepOut {
        let mut so = StepOut::default();
        if self.dead_memory {
            // dangling pointers inside: leak the objects rather than run their destructors
            std::mem::forget(std::mem::take(&mut self.iovs));
            std::mem::forget(std::mem::take(&mut self.aslices));
            std::mem::forget(std::mem::take(&mut self.arenas));
            std::mem::forget(std::mem::take(&mut self.brefs));
            return so;
        }
        self.iovs.clear();
        self.aslices.clear();
        self.arenas.clear();
        self.brefs.clear();
        let chunks = ByteArena::num_live_chunks();
        let bytes = ByteArena::num_live_bytes();
        if chunks != self.base_chunks || bytes != self.base_bytes {
            so.violations.push(format!(
                "C10 after dropping every object {} chunks / {} bytes are still live (baseline {} / {})",
                chunks, bytes, self.base_chunks, self.base_bytes
            ));
        }
        let (live, _) = ByteArena::verif_live_chunks();
        if live.iter().any(|(_, _, o)| *o >= self.base_ordinal) {
            so.violations.push("C10 a chunk allocated during the case outlives every object".into());
        }
        so
    }
}

// ------------------------------------------------------------------ generator

struct Gen<'a> {
    rng: &'a mut Rng,
    ops: Vec<String>,
    n_iov: usize,
    iov_alive: Vec<bool>,
    n_arena: usize,
    arena_alive: Vec<bool>,
    n_slice: usize,
    slice_alive: Vec<bool>,
    n_bref: usize,
    bref_state: Vec<(usize, usize, bool)>, // (owner iov, len, pending)
    /// (track sraw) slices pushed raw: still live, but only read from now on
    slice_pinned: Vec<usize>,
}

impl<'a> Gen<'a> {
    fn pick_alive(rng: &mut Rng, alive: &[bool]) -> Option<usize> {
        let idx: Vec<usize> = alive.iter().enumerate().filter(|(_, a)| **a).map(|(i, _)| i).collect();
        if idx.is_empty() {
            None
        } else {
            Some(*rng.pick(&idx))
        }
    }

    fn payload_len(&mut self) -> usize {
        match self.rng.below(12) {
            0 => 0,
            1 => 1,
            2 => self.rng.range(63, 65) as usize,
            3 => self.rng.range(255, 257) as usize,
            4 => self.rng.range(4090, 4100) as usize,
            5 => self.rng.range(65, 254) as usize,
            6 => self.rng.range(258, 1200) as usize,
            _ => self.rng.range(2, 40) as usize,
        }
    }

    fn payload(&mut self) -> String {
        let n = self.payload_len();
        let tag = self.rng.next() as u8;
        let v: Vec<u8> = (0..n).map(|k| tag.wrapping_add(k as u8)).collect();
        to_hex(&v)
    }

    fn new_iov(&mut self) {
        self.n_iov += 1;
        self.iov_alive.push(true);
    }
}

impl IovecFamily {
    /// Histories in which one iovec holds NON-adjacent anchors for the same chunk (chunk order
    /// X..Y..X): an arena handed away and back (`take_arena` / `swap_arena`), or an anchored slice
    /// held across a chunk rollover and pushed later.  Then a snapshot (clone / take) is consumed
    /// up to, but not including, the second X run after every other holder of X is gone.
    fn handoff_cases(&self) -> Vec<Vec<String>> {
        let mut cases: Vec<Vec<String>> = Vec::new();
        let pay = |tag: u8, n: usize| to_hex(&(0..n).map(|k| tag.wrapping_add(k as u8)).collect::<Vec<u8>>());
        for n in [30usize, 100, 300] {
            for snap in ["clone", "take"] {
                for k in 1..=3usize {
                    // (a) arena hand-off
                    let mut c: Vec<String> = vec![
                        "new".into(),
                        format!("push_copy v0 {}", pay(0x10, n)),
                        "take_arena v0".into(),
                        format!("push_copy v0 {}", pay(0x40, n)),
                        "swap_arena v0 a0".into(),
                        format!("push_copy v0 {}", pay(0x70, n)),
                        format!("{} v0", snap),
                        "drop v0".into(),
                        "drop_arena a0".into(),
                        format!("consume v1 {}", k),
                        "read v1 2000".into(),
                    ];
                    cases.push(c.clone());
                    // the same, dropping the arena before the original
                    c.swap(7, 8);
                    cases.push(c);
                    // (b) anchored slice held across a rollover of the iovec's own arena
                    cases.push(vec![
                        "new".into(),
                        format!("push_copy v0 {}", pay(0x10, n)),
                        format!("read_n v0 300 4 {} d300", pay(0x90, 304)),
                        "flush v0".into(),
                        format!("push_copy v0 {}", pay(0x40, n)),
                        "push_aslice v0 s0".into(),
                        format!("{} v0", snap),
                        "drop v0".into(),
                        format!("consume v1 {}", k),
                        "read v1 2000".into(),
                    ]);
                }
            }
        }
        cases
    }

    /// Scripted ownership scenarios for anchored slices (C05/C10): every way of deriving an
    /// `AnchoredSlice` from another one (split halves, clone, take, skip, drop-suffix, push into an
    /// iovec as a copied / borrowed slice), followed by dropping every OTHER holder of the chunk in
    /// every order, so that the derived piece is the only thing keeping the chunk alive when the live
    /// set is compared and the containment oracle runs.
    fn ownership_cases(&self) -> Vec<Vec<String>> {
        let mut cases: Vec<Vec<String>> = Vec::new();
        for count in [40usize, 200, 300] {
            let src: Vec<u8> = (0..count + 4).map(|k| (k as u8).wrapping_mul(7).wrapping_add(3)).collect();
            let read = format!("read_n a0 {} 4 {} d{}", count, to_hex(&src), count);
            // derive: (ops on s0, handles of the pieces alive afterwards)
            let derivations: Vec<(Vec<String>, Vec<usize>)> = vec![
                (vec![format!("s_split s0 {}", count / 2)], vec![1, 2]),
                (vec![format!("s_split s0 {}", 1)], vec![1, 2]),
                (vec![format!("s_split s0 {}", count - 1)], vec![1, 2]),
                (vec!["s_clone s0".to_string()], vec![0, 1]),
                (vec!["s_take s0".to_string()], vec![0, 1]),
                (vec![format!("s_skip s0 {}", count / 3)], vec![0]),
                (vec![format!("s_dropsuf s0 {}", count / 3)], vec![0]),
                (vec![format!("s_split s0 {}", count / 2), "s_clone s2".to_string(), format!("s_skip s3 {}", 3)], vec![1, 2, 3]),
            ];
            for (ops, pieces) in &derivations {
                for keep in pieces {
                    for arena_first in [true, false] {
                        for sink in ["keep", "push", "push_then_consume", "push_clone_drop", "push_take_drop"] {
                            let mut c: Vec<String> = vec!["new".into(), "new_arena".into(), read.clone()];
                            c.extend(ops.iter().cloned());
                            if arena_first {
                                c.push("drop_arena a0".into());
                            }
                            for p in pieces {
                                if p != keep {
                                    c.push(format!("s_drop s{}", p));
                                }
                            }
                            if !arena_first {
                                c.push("drop_arena a0".into());
                            }
                            match sink {
                                "keep" => {}
                                "push" => c.push(format!("push_aslice v0 s{}", keep)),
                                // the anchored slice is the LAST push before the snapshot: its keep-alive
                                // anchor still has count 0 when the iovec is cloned / taken, and the copy
                                // must stay readable after the original is gone
                                "push_clone_drop" => {
                                    c.push(format!("push_aslice v0 s{}", keep));
                                    c.push("clone v0".into());
                                    c.push("drop v0".into());
                                    c.push("read v1 1000".into());
                                }
                                "push_take_drop" => {
                                    c.push(format!("push_aslice v0 s{}", keep));
                                    c.push("take v0".into());
                                    c.push("drop v0".into());
                                    c.push("clone v1".into());
                                    c.push("drop v1".into());
                                    c.push("read v2 1000".into());
                                }
                                _ => {
                                    c.push("push_copy v0 aabb".into());
                                    c.push(format!("push_aslice v0 s{}", keep));
                                    c.push("consume v0 1".into());
                                    c.push("clone v0".into());
                                    c.push("drop v0".into());
                                }
                            }
                            cases.push(c);
                        }
                    }
                }
            }
        }
        cases
    }

    /// n placeholders in flight (each in its own slice, or merged into one arena slice), filled in
    /// EVERY order, with a read-out after each fill: all n! orders for n = 3, 4 (5 in thorough).
    fn fill_order_cases(&self, thorough: bool) -> Vec<Vec<String>> {
        fn perms(n: usize) -> Vec<Vec<usize>> {
            if n == 0 {
                return vec![vec![]];
            }
            let mut out = Vec::new();
            for p in perms(n - 1) {
                for i in 0..=p.len() {
                    let mut q = p.clone();
                    q.insert(i, n - 1);
                    out.push(q);
                }
            }
            out
        }
        let mut cases = Vec::new();
        for n in 3..=(if thorough { 5 } else { 4 }) {
            for separate in [true, false] {
                for order in perms(n) {
                    let mut ops = vec!["new".to_string()];
                    for k in 0..n {
                        if separate {
                            // a large borrowed slice keeps every placeholder in its own slice
                            let big: Vec<u8> = (0..70).map(|j| (k * 16 + j) as u8).collect();
                            ops.push(format!("push_borrowed v0 {}", to_hex(&big)));
                        } else {
                            ops.push(format!("push_copy v0 {:02x}", 0x10 + k));
                        }
                        ops.push(format!("register v0 {}", to_hex(&vec![0u8; 1 + k % 2])));
                    }
                    ops.push("push_copy v0 ee".to_string());
                    for (step, b) in order.iter().enumerate() {
                        let fill: Vec<u8> = (0..(1 + b % 2)).map(|j| (0xA0 + b * 2 + j) as u8).collect();
                        ops.push(format!("backfill v0 b{} {}", b, to_hex(&fill)));
                        if step % 2 == 1 {
                            ops.push("advance v0 3".to_string());
                        }
                    }
                    ops.push("read v0 1000".to_string());
                    cases.push(ops);
                }
            }
        }
        cases
    }
}

impl Family for IovecFamily {
    fn name(&self) -> &'static str {
        "iovec"
    }

    fn new_exec(&self) -> Box<dyn Exec> {
        crate::unwind::UnwindExec::boxed(IovecExec::new)
    }

    /// Hand-picked histories around the token checks of `backfill_or_panic` (C03 `no_panic_valid`,
    /// `bad_token_panics`): sources shorter / longer than the placeholder, a stale token from
    /// before a `clear` whose key coincides with a newer placeholder of different geometry, and the
    /// same shapes used correctly.  The random generator reaches these only rarely.
    fn enumerated(&self, thorough: bool) -> Vec<Vec<String>> {
        let c = |ops: &[&str]| ops.iter().map(|s| s.to_string()).collect::<Vec<String>>();
        let mut cases = self.fill_order_cases(thorough);
        cases.extend(self.ownership_cases());
        cases.extend(self.handoff_cases());
        cases.extend(api::enumerated_cases());
        cases.extend(api2::enumerated_cases());
        cases.extend(traits::enumerated_cases());
        cases.extend(sraw::enumerated_cases(thorough, &self.handoff_cases()));
        cases.extend(vec![
            c(&["new", "register v0 0000", "backfill v0 b0 aa"]),
            c(&["new", "register v0 0000", "backfill v0 b0 aabbcc"]),
            c(&["new", "register v0 00", "backfill v0 b0 -"]),
            c(&["new", "push_copy v0 0102", "register v0 000000", "push_copy v0 03", "backfill v0 b0 aabb"]),
            c(&["new", "push_copy v0 01", "register v0 00", "clear v0", "register v0 0000", "backfill v0 b0 ff"]),
            c(&["new", "push_copy v0 01", "register v0 00", "clear v0", "register v0 0000", "backfill v0 b1 eeff", "read v0 9"]),
            c(&["new", "register v0 0000", "clear v0", "backfill v0 b0 aabb"]),
            c(&["new", "register v0 0000", "pop v0"]),
            c(&["new", "register v0 0000", "backfill v0 b0 aabb", "pop v0", "pop v0"]),
            c(&["new", "push_borrowed v0 0708", "push_copy v0 010203", "register v0 0000", "push_copy v0 04",
                "advance v0 1", "advance v0 5", "backfill v0 b0 0506", "read v0 3", "consume v0 9"]),
            c(&["new", "register v0 0000", "push_borrowed v0 09", "register v0 0000", "register v0 00", "register v0 000000",
                "backfill v0 b0 0101", "backfill v0 b1 0202", "backfill v0 b3 040404", "consume v0 9", "backfill v0 b2 03",
                "read v0 100"]),
        ]);
        cases
    }

    fn gen_case(&self, rng: &mut Rng, idx: u64, thorough: bool) -> Vec<String> {
        // track traits: some calls made while the thread is unwinding; now and then a whole second
        // history whose objects are owned by a scope that panics
        let mut ops = self.gen_plain(rng, idx, thorough);
        if rng.chance(1, 5) {
            ops = traits::sprinkle_iovec(rng, ops, 1, 4);
        }
        if rng.chance(1, 10) {
            let mut inner = self.gen_plain(rng, idx, false);
            inner.truncate(12);
            ops.push(format!("scoped_panic {}", inner.join(" ; ")));
        }
        ops
    }
}

impl IovecFamily {
    fn gen_plain(&self, rng: &mut Rng, _idx: u64, thorough: bool) -> Vec<String> {
        let maxops = if thorough { 60 } else { 28 };
        let nops = rng.range(3, maxops) as usize;
        // bias profile per case: 0 = general, 1 = backref heavy, 2 = clone/take heavy, 3 = arena/slice heavy
        let profile = rng.below(4);
        let mut g = Gen {
            rng,
            ops: vec![],
            n_iov: 0,
            iov_alive: vec![],
            n_arena: 0,
            arena_alive: vec![],
            n_slice: 0,
            slice_alive: vec![],
            n_bref: 0,
            bref_state: vec![],
            slice_pinned: vec![],
        };
        g.ops.push("new".into());
        g.new_iov();
        for _ in 0..nops {
            let Some(v) = Gen::pick_alive(g.rng, &g.iov_alive) else {
                g.ops.push("new".into());
                g.new_iov();
                continue;
            };
            if g.rng.chance(1, 100) {
                g.ops.push("dbg".into());
                continue;
            }
            // Clone::clone_from between two live iovecs (fam_iovec/traits.rs)
            if g.rng.chance(3, 100) {
                let others: Vec<usize> = (0..g.iov_alive.len()).filter(|i| g.iov_alive[*i] && *i != v).collect();
                if !others.is_empty() {
                    let d = *g.rng.pick(&others);
                    g.ops.push(format!("clone_from v{} v{}", d, v));
                    g.iov_alive[d] = false;
                    for s in g.bref_state.iter_mut() {
                        if s.0 == d {
                            s.2 = false;
                        }
                    }
                    g.new_iov();
                    continue;
                }
            }
            // the public-API completion vocabulary (fam_iovec/api.rs)
            if g.rng.chance(14, 100) && api::gen_op(&mut g, v) {
                continue;
            }
            if g.rng.chance(4, 100) && api2::gen_op(&mut g, v) {
                continue;
            }
            // raw pushes of detached slices, empty `extend` items, the arena hand-off composite (fam_iovec/sraw.rs)
            if g.rng.chance(5, 100) && sraw::gen_op(&mut g, v) {
                continue;
            }
            let roll = g.rng.below(100);
            let (w_reg, w_clone, w_arena) = match profile {
                1 => (30, 3, 4),
                2 => (8, 22, 6),
                3 => (6, 4, 30),
                _ => (12, 6, 10),
            };
            if roll < 28 {
                let kind = *g.rng.pick(&["push", "push", "push_copy", "push_copy", "push_borrowed"]);
                let p = g.payload();
                g.ops.push(format!("{} v{} {}", kind, v, p));
            } else if roll < 28 + w_reg {
                // register or backfill
                let pending: Vec<usize> = g.bref_state.iter().enumerate().filter(|(_, s)| s.2).map(|(i, _)| i).collect();
                if !pending.is_empty() && g.rng.chance(55, 100) {
                    let b = *g.rng.pick(&pending);
                    let (owner, len, _) = g.bref_state[b];
                    g.bref_state[b].2 = false;
                    let target = if g.rng.chance(1, 40) { v } else { owner };
                    if !g.iov_alive.get(target).copied().unwrap_or(false) {
                        continue;
                    }
                    let blen = if g.rng.chance(1, 40) { if (len + b) % 2 == 0 && len >= 1 { len - 1 } else { len + 1 } } else { len };
                    let tag = g.rng.next() as u8;
                    let bytes: Vec<u8> = (0..blen).map(|k| tag ^ (k as u8)).collect();
                    g.ops.push(format!("backfill v{} b{} {}", target, b, to_hex(&bytes)));
                } else {
                    let len = *g.rng.pick(&[0usize, 1, 1, 2, 2, 2, 3, 8]);
                    g.ops.push(format!("register v{} {}", v, to_hex(&vec![0u8; len])));
                    g.bref_state.push((v, len, len > 0));
                    g.n_bref += 1;
                }
            } else if roll < 28 + w_reg + 18 {
                let k = match g.rng.below(7) {
                    0 => 0,
                    1 => 1,
                    2 => g.rng.range(1, 5),
                    3 => g.rng.range(1, 70),
                    4 => g.rng.range(60, 300),
                    5 => 100000,
                    // the "drain everything" idiom, after arbitrary history
                    _ => *g.rng.pick(&[u64::MAX, u64::MAX - 1, u64::MAX - 70, 1u64 << 63, (1u64 << 32) + 5]),
                };
                let kind = *g.rng.pick(&["consume", "advance", "advance", "read"]);
                let k = if kind == "read" { k.min(5000) } else { k };
                let k = if kind == "advance" || kind == "consume" { k } else { k.min(1 << 40) };
                g.ops.push(format!("{} v{} {}", kind, v, k));
            } else if roll < 28 + w_reg + 18 + w_clone {
                match g.rng.below(6) {
                    0 | 1 => {
                        g.ops.push(format!("clone v{}", v));
                        g.new_iov();
                    }
                    2 => {
                        g.ops.push(format!("take v{}", v));
                        let newi = g.n_iov;
                        g.new_iov();
                        for s in g.bref_state.iter_mut() {
                            if s.0 == v {
                                s.0 = newi;
                            }
                        }
                    }
                    3 => {
                        g.ops.push(format!("clear v{}", v));
                        // outstanding tokens of v are now stale (backfilling them must panic): keep a few
                        for s in g.bref_state.iter_mut() {
                            if s.0 == v && g.rng.chance(9, 10) {
                                s.2 = false;
                            }
                        }
                    }
                    4 => {
                        if g.iov_alive.iter().filter(|a| **a).count() > 1 {
                            g.ops.push(format!("drop v{}", v));
                            g.iov_alive[v] = false;
                            for s in g.bref_state.iter_mut() {
                                if s.0 == v {
                                    s.2 = false;
                                }
                            }
                        }
                    }
                    _ => {
                        g.ops.push("new".into());
                        g.new_iov();
                    }
                }
            } else if roll < 28 + w_reg + 18 + w_clone + w_arena {
                match g.rng.below(12) {
                    0 => g.ops.push(format!("flush v{}", v)),
                    1 => {
                        let n = *g.rng.pick(&[0u64, 1, 100, 4095, 4096, 4097, 9000]);
                        g.ops.push(format!("reserve v{} {}", v, n));
                    }
                    2 => {
                        g.ops.push(format!("take_arena v{}", v));
                        g.n_arena += 1;
                        g.arena_alive.push(true);
                    }
                    3 => {
                        if let Some(a) = Gen::pick_alive(g.rng, &g.arena_alive) {
                            g.ops.push(format!("swap_arena v{} a{}", v, a));
                        }
                    }
                    4 => {
                        if let Some(a) = Gen::pick_alive(g.rng, &g.arena_alive) {
                            if g.rng.chance(1, 2) {
                                g.ops.push(format!("drop_arena a{}", a));
                                g.arena_alive[a] = false;
                            } else {
                                g.ops.push(format!("new_from_arena a{}", a));
                                g.arena_alive[a] = false;
                                g.new_iov();
                            }
                        }
                    }
                    5 | 6 | 7 => {
                        // read_n into the iovec's arena (or a detached one)
                        let count = match g.rng.below(4) {
                            0 => g.rng.range(1, 8),
                            1 => g.rng.range(60, 300),
                            _ => g.rng.range(1, 1500),
                        } as usize;
                        let src: Vec<u8> = (0..count + 4).map(|_| g.rng.next() as u8).collect();
                        let script = match g.rng.below(5) {
                            0 => format!("d{}", count),
                            1 => format!("d{},e", (count / 2).max(1)),
                            2 => "x0,x0,x3".to_string(),
                            3 => format!("x0,d{},d{}", 1, count),
                            _ => format!("d{},x2", (count / 3).max(1)),
                        };
                        let target = if g.rng.chance(1, 5) {
                            Gen::pick_alive(g.rng, &g.arena_alive).map(|a| format!("a{}", a)).unwrap_or(format!("v{}", v))
                        } else {
                            format!("v{}", v)
                        };
                        let ok = !script.starts_with("x0,x0");
                        g.ops.push(format!("read_n {} {} {} {} {}", target, count, 4, to_hex(&src), script));
                        if ok {
                            g.n_slice += 1;
                            g.slice_alive.push(true);
                        }
                    }
                    _ => {
                        if let Some(s) = Gen::pick_alive(g.rng, &g.slice_alive) {
                            match g.rng.below(8) {
                                0 | 1 | 2 => {
                                    g.ops.push(format!("push_aslice v{} s{}", v, s));
                                    g.slice_alive[s] = false;
                                }
                                3 => {
                                    let mid = g.rng.range(0, 300);
                                    g.ops.push(format!("s_split s{} {}", s, mid));
                                    g.slice_alive[s] = false;
                                    g.n_slice += 2;
                                    g.slice_alive.push(true);
                                    g.slice_alive.push(true);
                                }
                                4 => g.ops.push(format!("s_skip s{} {}", s, g.rng.range(0, 100))),
                                5 => g.ops.push(format!("s_dropsuf s{} {}", s, g.rng.range(0, 100))),
                                6 => {
                                    g.ops.push(format!("s_clone s{}", s));
                                    g.n_slice += 1;
                                    g.slice_alive.push(true);
                                }
                                _ => {
                                    g.ops.push(format!("s_drop s{}", s));
                                    g.slice_alive[s] = false;
                                }
                            }
                        }
                    }
                }
            } else {
                match g.rng.below(5) {
                    0 => {
                        if g.rng.chance(1, 6) {
                            g.ops.push(format!("pop v{}", v))
                        } else {
                            g.ops.push(format!("consume v{} 1", v))
                        }
                    }
                    1 => {
                        let n = g.rng.range(0, 4) as usize;
                        let parts: Vec<String> = (0..n).map(|_| g.payload()).collect();
                        let arg = if parts.is_empty() { "-".to_string() } else { parts.join("|") };
                        g.ops.push(format!("extend v{} {}", v, arg));
                    }
                    2 => {
                        let n = g.rng.range(0, 3) as usize;
                        let parts: Vec<String> = (0..n).map(|_| g.payload()).collect();
                        let arg = if parts.is_empty() { "-".to_string() } else { parts.join("|") };
                        g.ops.push(format!("new_from_slices {}", arg));
                        g.new_iov();
                    }
                    3 => {
                        g.ops.push("new_arena".into());
                        g.n_arena += 1;
                        g.arena_alive.push(true);
                    }
                    _ => {
                        let p = g.payload();
                        g.ops.push(format!("push_copy v{} {}", v, p));
                    }
                }
            }
        }
        g.ops
    }
}

//! Behaviour DURING UNWINDING, for every family (track traits).
//!
//! Nothing in the properties depends on whether the calling thread is panicking: an operation
//! called from a destructor that runs while the thread unwinds from an unrelated (caught) panic
//! must do what it always does, and objects dropped by the unwinder must be released like any
//! other.  Code that asks `std::thread::panicking()` (commit guards that "do not publish an
//! abandoned write", destructors that "keep the memory for the post-mortem") breaks that, and no
//! ordinary call sequence can see it.  Two generic op forms, understood by the wrapper
//! [`UnwindExec`] around a family's executor (the Lean side is `Woodpile/Driver/Unwind.lean`):
//!
//!   unwinding <op …>
//!       runs `<op …>` of the wrapped vocabulary from inside a `Drop` impl while the thread is
//!       unwinding from a deliberate panic (`catch_unwind(|| { let _g = RunOnDrop(op); panic!() })`),
//!       `std::thread::panicking()` is true for the whole op.  Observations, oracles and the
//!       model are those of the plain op (the model ignores the prefix).  The wrapper refuses
//!       (`bad-op`, on both sides) ops the family does not declare safe on the current state
//!       (`Probe::unwind_safe`): an op that is *specified* to panic would panic while panicking.
//!       As a safety net the op runs under its own `catch_unwind` inside the destructor (a panic
//!       that does not leave the destructor does not abort, Rust >= 1.73); such a panic is
//!       re-raised once the probe panic has been caught, i.e. reported like a panic of the plain op.
//!
//!   scoped_panic <op …> ; <op …> ; …
//!       builds a FRESH executor of the family inside a closure, runs the ops on it (observations
//!       are printed with their usual text, violations are kept) and then panics, so that every
//!       object the ops created is dropped BY THE UNWINDER.  The panic is caught; the wrapper then
//!       compares the process-wide live chunk / byte counters of `ByteArena` with their values
//!       before the op (C10: no leak) and answers `scoped caught`.  An inner op that panics by
//!       itself ends the scope early (observation `panic`).  The model runs the ops on a fresh
//!       state and throws it away.
use crate::util::*;
use owning_iovec::ByteArena;
use std::panic::{catch_unwind, resume_unwind, AssertUnwindSafe};

/// Runs the closure when dropped.
pub struct RunOnDrop<F: FnMut()>(pub F);

impl<F: FnMut()> Drop for RunOnDrop<F> {
    fn drop(&mut self) {
        (self.0)()
    }
}

/// Runs `f` from inside a destructor while the calling thread is unwinding from a deliberate,
/// caught panic.  `Err(payload)` = `f` itself panicked (caught inside the destructor).
pub fn while_unwinding<R>(f: impl FnOnce() -> R) -> std::thread::Result<R> {
    let mut f = Some(f);
    let mut out: Option<std::thread::Result<R>> = None;
    let probe = catch_unwind(AssertUnwindSafe(|| {
        let _g = RunOnDrop(|| {
            assert!(std::thread::panicking(), "unwinding probe: the thread is not panicking");
            if let Some(f) = f.take() {
                out = Some(catch_unwind(AssertUnwindSafe(f)));
            }
        });
        std::panic::panic_any(UnwindingProbe);
    }));
    assert!(probe.is_err());
    assert!(!std::thread::panicking());
    out.expect("the destructor of the unwinding probe ran")
}

/// Payload of the deliberate panics.
pub struct UnwindingProbe;

/// What a family tells the wrapper.
pub trait Probe: Exec {
    /// May `unwinding <words>` run on the current state?  Only ops that are specified NOT to
    /// panic there (the Lean driver evaluates the same predicate on the model state).
    fn unwind_safe(&self, _words: &[&str]) -> bool {
        false
    }
}

pub struct UnwindExec<E: Probe> {
    inner: E,
    fresh: fn() -> E,
    /// C10 tag of the family's leak findings
    leak_tag: &'static str,
}

impl<E: Probe> UnwindExec<E> {
    pub fn new(fresh: fn() -> E) -> Self {
        UnwindExec { inner: fresh(), fresh, leak_tag: "C10" }
    }
    pub fn boxed(fresh: fn() -> E) -> Box<dyn Exec>
    where
        E: 'static,
    {
        Box::new(Self::new(fresh))
    }
}

fn is_prefix_word(w: &str) -> bool {
    w == "unwinding" || w == "scoped_panic"
}

/// splits the words of a `scoped_panic` body at the `;` separators
pub fn split_ops<'a>(ws: &'a [&'a str]) -> Vec<&'a [&'a str]> {
    ws.split(|w| *w == ";").filter(|o| !o.is_empty()).collect()
}

impl<E: Probe> Exec for UnwindExec<E> {
    fn step(&mut self, w: &[&str]) -> StepOut {
        match w {
            ["unwinding", rest @ ..] => {
                if rest.is_empty() || is_prefix_word(rest[0]) || !self.inner.unwind_safe(rest) {
                    return StepOut::bad();
                }
                let inner = &mut self.inner;
                match while_unwinding(|| inner.step(rest)) {
                    Ok(mut so) => {
                        so.tags.push("unwinding".into());
                        so.tags.push(format!("unwinding_{}", rest[0]));
                        so
                    }
                    // reported by the caller exactly like a panic of the plain op
                    Err(p) => resume_unwind(p),
                }
            }
            ["scoped_panic", rest @ ..] => {
                let ops = split_ops(rest);
                if ops.is_empty() || ops.iter().any(|o| is_prefix_word(o[0])) {
                    return StepOut::bad();
                }
                let before = (ByteArena::num_live_chunks(), ByteArena::num_live_bytes());
                let mut so = StepOut::default();
                let fresh = self.fresh;
                let caught = catch_unwind(AssertUnwindSafe(|| {
                    // a local of the panicking scope: dropped by the unwinder, with everything it owns
                    let mut e = fresh();
                    for op in &ops {
                        match catch_unwind(AssertUnwindSafe(|| e.step(op))) {
                            Ok(mut r) => {
                                let stop = r.obs.iter().any(|o| o == "panic");
                                so.obs.append(&mut r.obs);
                                so.violations.append(&mut r.violations);
                                so.tags.append(&mut r.tags);
                                if stop {
                                    break;
                                }
                            }
                            Err(_) => {
                                so.obs.push("panic".into());
                                if let Some(v) = e.panic_violation(op) {
                                    so.violations.push(v);
                                }
                                break;
                            }
                        }
                    }
                    std::panic::panic_any(UnwindingProbe);
                }))
                .is_err();
                so.obs.push(if caught { "scoped caught".to_string() } else { "scoped returned".to_string() });
                so.tags.push("scoped_panic".into());
                let after = (ByteArena::num_live_chunks(), ByteArena::num_live_bytes());
                if after != before {
                    so.tags.push("scoped_panic_leak".into());
                    so.violations.push(format!(
                        "{} after a caught panic unwound through the owner of the objects built by `{}`: {} chunks / {} bytes are live (before: {} / {})",
                        self.leak_tag,
                        rest.join(" "),
                        after.0,
                        after.1,
                        before.0,
                        before.1
                    ));
                }
                so
            }
            _ => self.inner.step(w),
        }
    }

    fn finish(&mut self) -> StepOut {
        self.inner.finish()
    }

    fn panic_violation(&self, w: &[&str]) -> Option<String> {
        match w {
            ["unwinding", rest @ ..] => self.inner.panic_violation(rest).map(|v| format!("{} (called while the thread was unwinding)", v)),
            _ => self.inner.panic_violation(w),
        }
    }

    /// the wrappers of track `scale` look at the real objects of the wrapped executor
    fn as_any_mut(&mut self) -> Option<&mut dyn std::any::Any> {
        self.inner.as_any_mut()
    }

    fn flush_before(&self, w: &[&str]) -> bool {
        match w {
            ["unwinding", rest @ ..] => self.inner.flush_before(rest),
            ["scoped_panic", rest @ ..] => split_ops(rest).iter().any(|o| self.inner.flush_before(o)),
            _ => self.inner.flush_before(w),
        }
    }
}

/// Wraps a generated case: each op the predicate accepts becomes `unwinding <op>` with
/// probability `num/den`.
pub fn sprinkle(rng: &mut Rng, ops: Vec<String>, num: u64, den: u64, ok: impl Fn(&str) -> bool) -> Vec<String> {
    ops.into_iter().map(|o| if ok(&o) && rng.chance(num, den) { format!("unwinding {}", o) } else { o }).collect()
}

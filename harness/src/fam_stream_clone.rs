//! `Clone` / `Default` of `StreamChunker` and `StreamReader` (track `apileft`).
//!
//! Both types derive `Clone`: a clone of the chunker shares the arena chunk behind its carry-over
//! buffer (`AnchoredSlice::clone` = one more `Arc<Chunk>` holder) and copies the stream offset; a clone
//! of the reader additionally clones its `OwningIovec` (slices copied, default arena).  The Lean models
//! are state-passing functions of the chunker / reader VALUE, so in the model a clone is the identity;
//! what has to be established on the real code is that a clone IS such a value:
//!
//!   clone_swap keep|drop   replace the object by its clone; the original is dropped at once (`drop`: the
//!                          clone alone must keep the carry-over memory alive) or only at the end of the case
//!   fork                   clone the object AND the scripted reader: from now on every pump / next is also
//!                          run on the clone (own reader copy, own arena) and must give the same answer -
//!                          whatever the original did in between (they share the carry-over chunk)
//!   check_default          `T::default()` and `T::new()` behave like the object of a fresh case: on an
//!                          empty reader they report end of stream and offset 0
//!
//! Oracle lines: `C08 …` / `C06 …` (a clone diverges from / is disturbed by the original: the clone's own chunk /
//! record sequence no longer is what the property demands of a chunker / reader on that stream); `C05` is left to the
//! debug-build poisoning of freed chunks (a dangling carry-over shows up as a content difference) and the
//! end-of-case leak check of `main.rs` (`C10`).
use super::*;

fn reader_copy(r: &ScriptedReader) -> ScriptedReader {
    ScriptedReader { src: r.src.clone(), pos: r.pos, script: r.script.clone(), next: r.next, calls: vec![] }
}

pub(super) struct ChunkerFork {
    chunker: StreamChunker,
    arena: ByteArena,
    reader: ScriptedReader,
}

fn chunk_head(res: &std::io::Result<Chunk>) -> String {
    match res {
        Ok(Chunk::Sentinel(off)) => format!("sentinel {}", off),
        Ok(Chunk::Eof) => "eof".to_string(),
        Ok(Chunk::Data((off, slice))) => format!("data {} {}", off, to_hex(slice.slice())),
        Err(e) => format!("ioerr {}", kind_index(e.kind())),
    }
}

impl ChunkerExec {
    pub(super) fn clone_step(&mut self, w: &[&str]) -> Option<StepOut> {
        match w {
            ["clone_swap", mode @ ("keep" | "drop")] => {
                let c = self.chunker.clone();
                let old = std::mem::replace(&mut self.chunker, c);
                if *mode == "keep" {
                    self.graveyard.push(old);
                } else {
                    drop(old);
                }
                let mut so = StepOut::obs("ok");
                so.tags.push(format!("chunker_clone_swap_{}", mode));
                Some(so)
            }
            ["fork"] => {
                self.fork = Some(ChunkerFork {
                    chunker: self.chunker.clone(),
                    // `&mut ByteArena` is the caller's: the clone reads through an arena of its own
                    arena: self.arena.clone(),
                    reader: reader_copy(&self.reader),
                });
                let mut so = StepOut::obs("ok");
                so.tags.push("chunker_fork".into());
                Some(so)
            }
            ["check_default"] => {
                let mut so = StepOut::obs("ok");
                for (what, mut c) in [("default()", StreamChunker::default())] {
                    let mut arena = ByteArena::default();
                    let mut empty: &[u8] = &[];
                    match c.pump(&mut arena, &mut empty, self.block) {
                        Ok(Chunk::Eof) => {}
                        other => so.violations.push(format!("C08 StreamChunker::{} on an empty stream: {}", what, chunk_head(&other))),
                    }
                }
                Some(so)
            }
            _ => None,
        }
    }

    /// after the primary's pump (its observation is the last `obs` line): the fork pumps too
    pub(super) fn lockstep(&mut self, so: &mut StepOut) {
        let block = self.block;
        let Some(f) = self.fork.as_mut() else { return };
        f.reader.calls.clear();
        let res = f.chunker.pump(&mut f.arena, &mut f.reader, block);
        let line = format!("{}{}", chunk_head(&res), reader_tail(&f.reader));
        so.tags.push("chunker_fork_pump".into());
        if so.obs.last() != Some(&line) {
            so.violations.push(format!(
                "C08 a cloned StreamChunker does not continue the stream like the original on the same input (C20-style independence): clone `{}`, original `{}`",
                line,
                so.obs.last().cloned().unwrap_or_default()
            ));
            self.fork = None;
        }
    }
}

pub(super) struct ReaderFork {
    rd: StreamReader,
    reader: ScriptedReader,
    judge: JudgeSpec,
}

pub(super) fn run_next(rd: &mut StreamReader, reader: &mut ScriptedReader, judge: &mut JudgeSpec, block: Option<usize>) -> String {
    reader.calls.clear();
    let res = rd.next_record_bytes(
        &mut *reader,
        |range: std::ops::Range<u64>, iov: owning_iovec::ConsumingIovec<'_>| match judge {
            JudgeSpec::KeepGoing => StreamAction::KeepGoing,
            JudgeSpec::Std(max, limit) => (StreamReader::chunk_judge(*max, *limit))(range, iov),
            JudgeSpec::List(vs, i) => {
                let v = vs.get(*i).copied().unwrap_or(StreamAction::KeepGoing);
                *i += 1;
                v
            }
        },
        block,
    );
    let head = match res {
        Ok(Some((iov, range))) => {
            let bytes = match iov.flatten() {
                Ok(b) | Err(b) => b,
            };
            format!("some {} {}..{}", to_hex(&bytes), range.start, range.end)
        }
        Ok(None) => "none".to_string(),
        Err(e) => format!("ioerr {}", kind_index(e.kind())),
    };
    format!("{} last_sentinel={}{}", head, rd.last_sentinel_offset(), reader_tail_noreqs(reader))
}

impl ReaderExec {
    pub(super) fn clone_step(&mut self, w: &[&str]) -> Option<StepOut> {
        match w {
            ["clone_swap", mode @ ("keep" | "drop")] => {
                let c = self.rd.clone();
                let old = std::mem::replace(&mut self.rd, c);
                if *mode == "keep" {
                    self.graveyard.push(old);
                } else {
                    drop(old);
                }
                let mut so = StepOut::obs("ok");
                so.tags.push(format!("reader_clone_swap_{}", mode));
                Some(so)
            }
            ["fork"] => {
                self.fork = Some(ReaderFork { rd: self.rd.clone(), reader: reader_copy(&self.reader), judge: self.judge.clone() });
                let mut so = StepOut::obs("ok");
                so.tags.push("reader_fork".into());
                Some(so)
            }
            ["check_default"] => {
                let mut so = StepOut::obs("ok");
                for (what, mut r) in [("default()", StreamReader::default()), ("new()", StreamReader::new())] {
                    let mut empty: &[u8] = &[];
                    let got = match r.next_record_bytes(&mut empty, |_, _| StreamAction::KeepGoing, self.block) {
                        Ok(None) => None,
                        Ok(Some(_)) => Some("a record".to_string()),
                        Err(e) => Some(format!("ioerr {}", kind_index(e.kind()))),
                    };
                    if got.is_some() || r.last_sentinel_offset() != 0 {
                        so.violations.push(format!("C06 StreamReader::{} on an empty stream: {:?}, last_sentinel_offset {}", what, got, r.last_sentinel_offset()));
                    }
                }
                Some(so)
            }
            _ => None,
        }
    }

    pub(super) fn lockstep(&mut self, so: &mut StepOut) {
        let block = self.block;
        let Some(f) = self.fork.as_mut() else { return };
        let line = run_next(&mut f.rd, &mut f.reader, &mut f.judge, block);
        so.tags.push("reader_fork_next".into());
        if so.obs.last() != Some(&line) {
            so.violations.push(format!(
                "C06 a cloned StreamReader does not continue the stream like the original on the same input (C20-style independence): clone `{}`, original `{}`",
                line,
                so.obs.last().cloned().unwrap_or_default()
            ));
            self.fork = None;
        }
    }
}

/// Splice clone operations into a generated case: some single calls, then the clone op, in front of the
/// first bulk call (`drain` / `nextall`).  Draws from `rng` only AFTER the case was generated.
pub(super) fn splice(rng: &mut Rng, ops: &mut Vec<String>, single: &str, bulk_prefix: &str) {
    if !rng.chance(3, 10) {
        return;
    }
    let Some(at) = ops.iter().position(|o| o.starts_with(bulk_prefix)) else { return };
    let mut ins: Vec<String> = Vec::new();
    for _ in 0..rng.range(0, 5) {
        ins.push(single.to_string());
    }
    ins.push(match rng.below(6) {
        0 => "clone_swap keep".to_string(),
        1 | 2 => "clone_swap drop".to_string(),
        _ => "fork".to_string(),
    });
    if rng.chance(1, 3) {
        for _ in 0..rng.range(1, 3) {
            ins.push(single.to_string());
        }
        ins.push((*rng.pick(&["clone_swap drop", "clone_swap keep", "check_default"])).to_string());
    }
    for (k, o) in ins.into_iter().enumerate() {
        ops.insert(at + k, o);
    }
}

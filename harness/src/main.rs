//! `wp_harness <family> [--seed S] [--cases N] [--thorough] [--replay FILE]`
//!
//! Drives the real woodpile crates (path dependencies on /repo) through
//! generated or replayed operation sequences and prints a transcript in the
//! line protocol the Lean model driver (`wpmodel <family>`) also speaks:
//!
//!   C <n>          start of case n (state reset)
//!   I <op> ...     one operation, all inputs spelled out
//!   O ...          what the implementation did / returned (canonicalised)
//!   V <prop> ...   the direct oracle saw the *property* fail on the real code
//!   # ...          statistics
mod fam_codecw;
mod fam_iovec;
mod fam_hcobs;
mod fam_readn;
mod fam_tlv;
mod fam_sdeque;
mod fam_sorted;
mod fam_abt;
mod fam_vtime;
mod fam_nfs;
mod fam_stream;
mod iterscript;
mod fam_streamw;
mod scale_common;
mod scale_iovec;
mod scale_codec;
mod scale_stream;
mod scale_readn;
mod scale_tlv;
mod util;
mod unwind;

use std::io::Write;
use std::panic::{catch_unwind, AssertUnwindSafe};
use util::{Exec, Family, Rng, StepOut};

fn families() -> Vec<Box<dyn Family>> {
    // one line per family, so that parallel branches merge cleanly
    let mut v: Vec<Box<dyn Family>> = Vec::new();
    v.push(Box::new(fam_readn::ReadNFamily));
    v.push(Box::new(fam_iovec::IovecFamily));
    v.push(Box::new(fam_codecw::CodecWFamily));
    v.push(Box::new(fam_tlv::TlvFamily));
    v.push(Box::new(fam_tlv::TlvViewFamily));
    v.push(Box::new(fam_hcobs::HcobsEncFamily));
    v.push(Box::new(fam_hcobs::HcobsDecFamily));
    v.push(Box::new(fam_sdeque::SDequeFamily));
    v.push(Box::new(fam_sorted::SortedFamily));
    v.push(Box::new(fam_abt::AbtFamily));
    v.push(Box::new(fam_vtime::VTimeFamily));
    v.push(Box::new(fam_nfs::NfsFamily));
    v.push(Box::new(fam_stream::ChunkerFamily));
    v.push(Box::new(fam_stream::ReaderFamily));
    v.push(Box::new(fam_streamw::ChunkerWFamily));
    v.push(Box::new(fam_streamw::ReaderWFamily));
    v.push(Box::new(scale_iovec::ScaleIovecFamily));
    v.push(Box::new(scale_codec::ScaleCodecFamily));
    v.push(Box::new(scale_stream::ScaleChunkerFamily));
    v.push(Box::new(scale_stream::ScaleReaderFamily));
    v.push(Box::new(scale_readn::ScaleReadNFamily));
    v.push(Box::new(scale_tlv::ScaleTlvFamily));
    v.push(Box::new(scale_tlv::ScaleTlvViewFamily));
    v
}

struct Stats {
    leak_reported_this_case: bool,
    tags: std::collections::BTreeMap<String, u64>,
    cases: u64,
    ops: u64,
    panics: u64,
    violations: u64,
}

fn run_case(
    out: &mut impl Write,
    fam: &dyn Family,
    idx: u64,
    ops: &[String],
    stats: &mut Stats,
) {
    writeln!(out, "C {}", idx).unwrap();
    stats.cases += 1;
    // C10, for every family: whatever the case does with arenas, once its objects are gone the
    // process-wide live-chunk counters are back where they were (the process is single-threaded).
    let live_before = (owning_iovec::ByteArena::num_live_chunks(), owning_iovec::ByteArena::num_live_bytes());
    let mut exec: Box<dyn Exec> = fam.new_exec();
    let mut dead = false;
    for op in ops {
        writeln!(out, "I {}", op).unwrap();
        stats.ops += 1;
        let words: Vec<&str> = op.split_whitespace().collect();
        if exec.flush_before(&words) {
            out.flush().unwrap();
        }
        let res = catch_unwind(AssertUnwindSafe(|| exec.step(&words)));
        match res {
            Ok(so) => emit(out, so, stats),
            Err(_) => {
                writeln!(out, "O panic").unwrap();
                stats.panics += 1;
                if let Ok(Some(v)) = catch_unwind(AssertUnwindSafe(|| exec.panic_violation(&words))) {
                    writeln!(out, "V {}", v).unwrap();
                    stats.violations += 1;
                }
                dead = true;
                break;
            }
        }
    }
    if !dead {
        match catch_unwind(AssertUnwindSafe(|| exec.finish())) {
            Ok(so) => emit(out, so, stats),
            Err(_) => {
                writeln!(out, "O panic-at-finish").unwrap();
                stats.panics += 1;
            }
        }
    }
    // A poisoned executor may not be droppable without a second panic.
    let dropped = catch_unwind(AssertUnwindSafe(move || drop(exec))).is_ok();
    let live_after = (owning_iovec::ByteArena::num_live_chunks(), owning_iovec::ByteArena::num_live_bytes());
    if !dead && dropped && live_after != live_before && !stats.leak_reported_this_case {
        writeln!(
            out,
            "V C10 after the case's objects were dropped {} chunks / {} bytes are live (before the case: {} / {})",
            live_after.0, live_after.1, live_before.0, live_before.1
        )
        .unwrap();
        stats.violations += 1;
    }
    stats.leak_reported_this_case = false;
}

fn emit(out: &mut impl Write, so: StepOut, stats: &mut Stats) {
    for o in so.obs {
        writeln!(out, "O {}", o).unwrap();
    }
    for v in so.violations {
        if v.starts_with("C10 ") {
            stats.leak_reported_this_case = true;
        }
        writeln!(out, "V {}", v).unwrap();
        stats.violations += 1;
    }
    for t in so.tags {
        *stats.tags.entry(t).or_insert(0) += 1;
    }
}

fn main() {
    std::panic::set_hook(Box::new(|_| {}));
    let args: Vec<String> = std::env::args().collect();
    if args.len() < 2 {
        eprintln!("usage: wp_harness <family> [--seed S] [--cases N] [--thorough] [--replay FILE]");
        std::process::exit(2);
    }
    let fams = families();
    let Some(fam) = fams.iter().find(|f| f.name() == args[1]) else {
        eprintln!("unknown family {}", args[1]);
        std::process::exit(2);
    };
    let mut seed = 0u64;
    let mut cases = 100u64;
    let mut thorough = false;
    let mut replay: Option<String> = None;
    let mut skip_enum = false;
    let mut shard: (u64, u64) = (0, 1);
    let mut i = 2;
    while i < args.len() {
        match args[i].as_str() {
            "--seed" => {
                seed = args[i + 1].parse().expect("seed");
                i += 1
            }
            "--cases" => {
                cases = args[i + 1].parse().expect("cases");
                i += 1
            }
            "--thorough" => thorough = true,
            "--no-enum" => skip_enum = true,
            "--shard" => {
                // `--shard i n`: run only every n-th enumerated case (offset i); random cases are
                // sharded by the caller through --seed / --cases
                shard = (args[i + 1].parse().expect("shard index"), args[i + 2].parse().expect("shard count"));
                i += 2
            }
            "--replay" => {
                replay = Some(args[i + 1].clone());
                i += 1
            }
            other => {
                eprintln!("unknown argument {}", other);
                std::process::exit(2);
            }
        }
        i += 1;
    }

    let stdout = std::io::stdout();
    let mut out = std::io::BufWriter::with_capacity(1 << 20, stdout.lock());
    let mut stats = Stats { leak_reported_this_case: false, tags: Default::default(), cases: 0, ops: 0, panics: 0, violations: 0 };

    let mut enumerated = 0u64;
    if let Some(path) = replay {
        // Replay: `C`/`I` lines from a file; every other line is ignored.
        let text = std::fs::read_to_string(&path).expect("replay file");
        let mut cur: Option<(u64, Vec<String>)> = None;
        let mut all = Vec::new();
        for line in text.lines() {
            let line = line.trim();
            if let Some(rest) = line.strip_prefix("C ") {
                if let Some(c) = cur.take() {
                    all.push(c);
                }
                cur = Some((rest.trim().parse().unwrap_or(0), Vec::new()));
            } else if let Some(rest) = line.strip_prefix("I ") {
                if cur.is_none() {
                    cur = Some((0, Vec::new()));
                }
                cur.as_mut().unwrap().1.push(rest.to_string());
            }
        }
        if let Some(c) = cur.take() {
            all.push(c);
        }
        for (idx, ops) in all {
            run_case(&mut out, fam.as_ref(), idx, &ops, &mut stats);
        }
    } else {
        let mut idx = 0u64;
        if !skip_enum {
            for (k, ops) in fam.enumerated(thorough).into_iter().enumerate() {
                if (k as u64) % shard.1 == shard.0 {
                    run_case(&mut out, fam.as_ref(), idx, &ops, &mut stats);
                    idx += 1;
                }
            }
        }
        enumerated = idx;
        let base = Rng::new(seed);
        for k in 0..cases {
            let mut rng = base.fork(k);
            let ops = fam.gen_case(&mut rng, k, thorough);
            run_case(&mut out, fam.as_ref(), idx, &ops, &mut stats);
            idx += 1;
        }
    }
    writeln!(out, "# enumerated {}", enumerated).unwrap();
    writeln!(out, "# cases {}", stats.cases).unwrap();
    writeln!(out, "# ops {}", stats.ops).unwrap();
    writeln!(out, "# panics {}", stats.panics).unwrap();
    writeln!(out, "# violations {}", stats.violations).unwrap();
    for (k, v) in &stats.tags {
        writeln!(out, "# stat {} {}", k, v).unwrap();
    }
    out.flush().unwrap();
}

//! Track `scale`: a WRAPPING executor for the large-magnitude / long-history generator
//! profiles (`scale_iovec.rs`, `scale_codec.rs`, `scale_stream.rs`).
//!
//! The wrapped executor (iovec / codecw / chunker / reader) runs every ordinary op word
//! unchanged, so the existing Lean drivers replay the cases; the wrapper adds (the Lean side is
//! `lean/Woodpile/Driver/Scale.lean`, which documents the words):
//!   terse | quiet | rep <k> <op> [; <op>…] | extendrun <v> <k> <~TTxN> | newrun <k> <~TTxN> |
//!   scoped_panic <owner> <how> <n> | `+`-concatenated payload words
//! and direct oracles of its own that read the wrapped executor's observation lines (or, for the
//! codec, its real objects) BEFORE they are digested / silenced:
//!   C03  nothing pending => readable bytes = total_size and stable_prefix exposes every slice
//!   C05  one iovec exposes two arena slices that overlap; the bytes under a live anchored slice change
//!   C09  drained ++ consumable is always a prefix of what it is later, and of the final output;
//!        drained ++ finish() equals a one-call encoding / decoding
//!   C10  after a CAUGHT panic whose unwinding dropped an owner of arena memory the process-wide
//!        live chunk / byte counters are back where they were
//!   C17  (chunker) no single request exceeds the block size
use crate::fam_codecw::CodecWExec;
use crate::fam_iovec::IovecExec;
use crate::fam_iovec::fnv64;
use crate::util::*;
use hcobs::{Decoder, Encoder, StreamAction, StreamChunker, StreamReader};
use owning_iovec::{AnchoredSlice, ByteArena, OwningIovec};
use std::any::Any;
use std::collections::HashMap;
use std::io::Read;
use std::num::NonZeroUsize;
use std::panic::{catch_unwind, AssertUnwindSafe};

#[derive(Clone, Copy, PartialEq, Debug)]
pub enum Kind {
    Iovec,
    Codec,
    Chunker,
    Reader,
}

// ------------------------------------------------------------------ word macros (same as Driver/Scale.lean)

pub fn parse_nat(s: &str) -> Option<usize> {
    if !s.is_empty() && s.bytes().all(|b| b.is_ascii_digit()) {
        s.parse().ok()
    } else {
        None
    }
}

/// The digest form of an over-long observation line.
pub fn terse_line(l: &str) -> String {
    if l.len() <= 160 {
        return l.to_string();
    }
    let mut it = l.split(' ');
    let a = it.next().unwrap_or("");
    let head = match it.next() {
        Some(b) => {
            if b.len() <= 24 {
                format!("{} {}", a, b)
            } else {
                a.to_string()
            }
        }
        None => {
            if a.len() <= 24 {
                a.to_string()
            } else {
                String::new()
            }
        }
    };
    format!("{} ~{}:{:016x}", head, l.len(), fnv64(l.as_bytes()))
}

/// `~TTxN` with the tag advanced by `i` (anything else is returned unchanged).
pub fn shift_tag(w: &str, i: usize) -> String {
    if let Some(rest) = w.strip_prefix('~') {
        let parts: Vec<&str> = rest.split('x').collect();
        if parts.len() == 2 && parts[0].len() == 2 && parts[0].bytes().all(|b| b.is_ascii_hexdigit()) {
            if let (Ok(t), Some(n)) = (u8::from_str_radix(parts[0], 16), parse_nat(parts[1])) {
                return format!("~{:02x}x{}", (t as usize + i) % 256, n);
            }
        }
    }
    w.to_string()
}

fn eval_pat(p: &str, i: usize, k: usize) -> Option<usize> {
    let parts: Vec<&str> = p.split('+').collect();
    let (lhs, b) = match parts.as_slice() {
        [l] => (*l, 0usize),
        [l, r] => (*l, parse_nat(r)?),
        _ => return None,
    };
    let mut cs: Vec<char> = lhs.chars().collect();
    let v = cs.pop()?;
    let x = match v {
        'i' => i,
        'r' => k.saturating_sub(1).saturating_sub(i),
        _ => return None,
    };
    let a = if cs.is_empty() { 1 } else { parse_nat(&cs.iter().collect::<String>())? };
    a.checked_mul(x)?.checked_add(b)
}

/// Replaces every `{…}` pattern of `w` (unparsable patterns stay as they are).
pub fn subst_pats(w: &str, i: usize, k: usize) -> String {
    if !w.contains('{') {
        return w.to_string();
    }
    let cs: Vec<char> = w.chars().collect();
    let mut out = String::new();
    let mut p = 0;
    while p < cs.len() {
        if cs[p] == '{' {
            if let Some(q) = cs[p + 1..].iter().position(|c| *c == '}') {
                let inner: String = cs[p + 1..p + 1 + q].iter().collect();
                match eval_pat(&inner, i, k) {
                    Some(v) => out.push_str(&v.to_string()),
                    None => {
                        out.push('{');
                        out.push_str(&inner);
                        out.push('}');
                    }
                }
                p += q + 2;
                continue;
            } else {
                out.extend(cs[p..].iter());
                break;
            }
        }
        out.push(cs[p]);
        p += 1;
    }
    out
}

pub fn subst_word(w: &str, i: usize, k: usize) -> String {
    subst_pats(&shift_tag(w, i), i, k)
}

fn part_bytes(p: &str) -> Option<Vec<u8>> {
    let parts: Vec<&str> = p.split('*').collect();
    match parts.as_slice() {
        [t] => from_hex(t),
        [t, k] => {
            let b = from_hex(t)?;
            let k = parse_nat(k)?;
            let mut out = Vec::with_capacity(b.len() * k);
            for _ in 0..k {
                out.extend_from_slice(&b);
            }
            Some(out)
        }
        _ => None,
    }
}

/// A word containing `+` is a concatenation of payload tokens; it is handed on as plain hex.
pub fn expand_word(w: &str) -> String {
    if !w.contains('+') {
        return w.to_string();
    }
    let mut all = Vec::new();
    for p in w.split('+') {
        match part_bytes(p) {
            Some(b) => all.extend(b),
            None => return w.to_string(),
        }
    }
    to_hex(&all)
}

pub fn run_tokens(k: usize, tok: &str) -> String {
    if k == 0 {
        return "-".to_string();
    }
    (0..k).map(|j| shift_tag(tok, j)).collect::<Vec<_>>().join("|")
}

fn parse_step(s: &str) -> Option<(usize, bool)> {
    match s.strip_suffix('r') {
        Some(n) => parse_nat(n).map(|n| (n, true)),
        None => parse_nat(s).map(|n| (n, false)),
    }
}

/// item j of a run of k pairs: its tag and the byte its value repeats
fn run_pair(k: usize, tag0: usize, step: usize, rev: bool, j: usize) -> (usize, u8) {
    let idx = if rev { k - 1 - j } else { j };
    (tag0 + idx * step, (0x41 + idx % 26) as u8)
}

fn msg_items(k: usize, tag0: usize, step: usize, rev: bool, kind: &str, len: usize) -> String {
    if k == 0 {
        return "-".to_string();
    }
    let mut out = String::new();
    for j in 0..k {
        let (tag, b) = run_pair(k, tag0, step, rev, j);
        if j > 0 {
            out.push(',');
        }
        out.push_str(&format!("{}:{}:{}", tag, kind, to_hex(&vec![b; len])));
    }
    out
}

fn view_wire(k: usize, tag0: usize, step: usize, rev: bool, len: usize) -> Vec<u8> {
    let mut out = Vec::new();
    out.extend_from_slice(&(k as u32).to_le_bytes());
    for i in 0..k.saturating_sub(1) {
        out.extend_from_slice(&(((i + 1) * len) as u32).to_le_bytes());
    }
    for j in 0..k {
        out.extend_from_slice(&(run_pair(k, tag0, step, rev, j).0 as u32).to_le_bytes());
    }
    for j in 0..k {
        out.extend(std::iter::repeat(run_pair(k, tag0, step, rev, j).1).take(len));
    }
    out
}

fn macro_op(ws: &[String]) -> Vec<String> {
    let w: Vec<&str> = ws.iter().map(|s| s.as_str()).collect();
    match w.as_slice() {
        ["msgrun", ctor, vt, k, tag0, step, kind, len] => {
            if let (Some(k), Some(t0), Some((st, rev)), Some(len)) = (parse_nat(k), parse_nat(tag0), parse_step(step), parse_nat(len)) {
                return vec!["msg".to_string(), ctor.to_string(), vt.to_string(), msg_items(k, t0, st, rev, kind, len)];
            }
            ws.to_vec()
        }
        ["viewrun", k, tag0, step, len, lookups] => {
            if let (Some(k), Some(t0), Some((st, rev)), Some(len)) = (parse_nat(k), parse_nat(tag0), parse_step(step), parse_nat(len)) {
                return vec!["view".to_string(), to_hex(&view_wire(k, t0, st, rev, len)), lookups.to_string()];
            }
            ws.to_vec()
        }
        ["extendrun", v, k, tok] => {
            if let Some(k) = parse_nat(k) {
                return vec!["extend".to_string(), v.to_string(), run_tokens(k, tok)];
            }
            ws.to_vec()
        }
        ["newrun", k, tok] => {
            if let Some(k) = parse_nat(k) {
                return vec!["new_from_slices".to_string(), run_tokens(k, tok)];
            }
            ws.to_vec()
        }
        _ => ws.iter().map(|x| expand_word(x)).collect(),
    }
}

const SCOPED_OWNERS: [&str; 8] = ["iov", "iovclone", "arena", "aslice", "enc", "dec", "reader", "chunker"];

fn scoped_ok(owner: &str, how: &str) -> bool {
    SCOPED_OWNERS.contains(&owner)
        && (matches!(how, "backfill" | "pop" | "plain" | "keep_plain" | "thread")
            || (matches!(how, "read" | "keep_read") && owner != "iovclone" && owner != "aslice")
            || (how == "judge" && owner == "reader"))
}

fn rep_factor(p: &str) -> Option<(&str, usize)> {
    let parts: Vec<&str> = p.split('*').collect();
    match parts.as_slice() {
        [t, k] => parse_nat(k).map(|k| (*t, k)),
        _ => None,
    }
}

/// Ops of magnitudes the list-based models cannot replay switch the case to `quiet` by rule
/// (`autoQuiet` in Driver/Scale.lean is the same rule).
pub fn auto_quiet(ws: &[&str]) -> bool {
    let big_run = |w: &str| -> bool {
        if let Some(rest) = w.strip_prefix('~') {
            let parts: Vec<&str> = rest.split('x').collect();
            if parts.len() == 2 {
                return parse_nat(parts[1]).map(|n| n >= 8388608).unwrap_or(false);
            }
        }
        false
    };
    let big_part = |w: &str| -> bool {
        w.contains('+') && w.split('+').any(|p| matches!(rep_factor(p), Some((t, k)) if t.chars().count() > 2 && k >= 30000))
    };
    let head = match ws {
        ["script", sc] => sc.split(',').any(|e| matches!(rep_factor(e), Some((t, k)) if t.starts_with('x') && k >= 30000)),
        ["extendrun", _, k, _] => parse_nat(k).map(|k| k >= 20000).unwrap_or(false),
        ["newrun", k, _] => parse_nat(k).map(|k| k >= 20000).unwrap_or(false),
        ["rep", k, ..] => parse_nat(k).map(|k| k >= 20000).unwrap_or(false),
        ["msgrun", _, _, k, ..] => parse_nat(k).map(|k| k >= 400).unwrap_or(false),
        ["viewrun", k, ..] => parse_nat(k).map(|k| k >= 400).unwrap_or(false),
        _ => false,
    };
    head || ws.iter().any(|w| big_run(w)) || ws.iter().any(|w| big_part(w))
}

fn split_ops(ws: &[&str]) -> Vec<Vec<String>> {
    let mut out = Vec::new();
    let mut cur: Vec<String> = Vec::new();
    for w in ws {
        if *w == ";" {
            if !cur.is_empty() {
                out.push(std::mem::take(&mut cur));
            }
        } else {
            cur.push(w.to_string());
        }
    }
    if !cur.is_empty() {
        out.push(cur);
    }
    out
}

// ------------------------------------------------------------------ scoped panics (C10)

/// Delivers a few bytes, then panics inside `Read::read`.
struct PanicReader {
    pre: Vec<u8>,
    pos: usize,
    calls: usize,
    panic_at: usize,
}

impl Read for PanicReader {
    fn read(&mut self, buf: &mut [u8]) -> std::io::Result<usize> {
        self.calls += 1;
        if self.calls >= self.panic_at {
            panic!("scripted reader panic");
        }
        let n = buf.len().min(self.pre.len() - self.pos);
        buf[..n].copy_from_slice(&self.pre[self.pos..self.pos + n]);
        self.pos += n;
        Ok(n)
    }
}

fn run_bytes(tag: u8, n: usize) -> Vec<u8> {
    (0..n).map(|k| tag.wrapping_add(k as u8)).collect()
}

fn encode_record(payload: &[u8]) -> Vec<u8> {
    let mut e = Encoder::new();
    e.encode_copy(payload);
    e.finish().flatten().unwrap_or_default()
}

enum Owner {
    Iov(OwningIovec<'static>),
    IovClone(OwningIovec<'static>, OwningIovec<'static>),
    Arena(ByteArena),
    ASlice(AnchoredSlice),
    Enc(Encoder<'static>),
    Dec(Decoder<'static>),
    Reader(StreamReader),
    Chunker(StreamChunker, ByteArena),
}

struct SendOwner(Owner);
// moved into exactly one other thread, which is joined before anything else happens
unsafe impl Send for SendOwner {}

fn make_owner(owner: &str, n: usize) -> Option<Owner> {
    let n = n.max(2);
    let payload = run_bytes(0x21, n);
    let att = NonZeroUsize::new(4).unwrap();
    Some(match owner {
        "iov" => {
            let mut v = OwningIovec::new();
            v.push_copy(&payload);
            Owner::Iov(v)
        }
        "iovclone" => {
            let mut v = OwningIovec::new();
            v.push_copy(&payload);
            let c = v.clone();
            Owner::IovClone(v, c)
        }
        "arena" => {
            let mut a = ByteArena::new();
            a.ensure_capacity(n);
            Owner::Arena(a)
        }
        "aslice" => {
            let mut a = ByteArena::new();
            let s = a.read_n(&payload[..], n, att).ok()?;
            drop(a);
            Owner::ASlice(s)
        }
        "enc" => {
            let mut e = Encoder::new();
            e.encode_copy(&payload);
            Owner::Enc(e)
        }
        "dec" => {
            let wire = encode_record(&payload);
            let mut d = Decoder::new();
            d.decode_copy(&wire).ok()?;
            Owner::Dec(d)
        }
        "reader" => {
            let mut stream = encode_record(&payload);
            stream.extend_from_slice(&[0xFE, 0xFD, 0x01, 0x61]);
            let mut r = StreamReader::new();
            let _ = r.next_record_bytes(&stream[..], |_, _| StreamAction::KeepGoing, Some(4096));
            Owner::Reader(r)
        }
        "chunker" => {
            let stream = encode_record(&payload);
            let mut c = StreamChunker::default();
            let mut a = ByteArena::new();
            let _ = c.pump(&mut a, &stream[..], 4096);
            Owner::Chunker(c, a)
        }
        _ => return None,
    })
}

/// Something that needs the owner alive and then panics.
fn do_panic(how: &str, o: &mut Owner, n: usize) {
    let cnt = n.max(2);
    let att = NonZeroUsize::new(4).unwrap();
    let pr = || PanicReader { pre: run_bytes(0x61, (cnt / 2).max(1)), pos: 0, calls: 0, panic_at: 2 };
    match how {
        "backfill" => {
            let mut t = OwningIovec::new();
            t.push_copy(b"abc");
            let b = t.register_patch(&[0, 0]);
            t.backfill_or_panic(b, &[1, 2, 3]);
        }
        "pop" => {
            let mut t = OwningIovec::new();
            t.push_copy(b"abc");
            let _b = t.register_patch(&[0, 0]);
            t.consumer().pop_front();
            t.consumer().pop_front();
        }
        "read" | "keep_read" => match o {
            Owner::Iov(v) => {
                let _ = v.arena().read_n(pr(), cnt, att);
            }
            Owner::Arena(a) => {
                let _ = a.read_n(pr(), cnt, att);
            }
            Owner::Enc(e) => {
                let _ = e.encode_read(pr(), cnt, att);
            }
            Owner::Dec(d) => {
                let _ = d.decode_read(pr(), cnt, att);
            }
            Owner::Reader(r) => {
                let mut rd = pr();
                for _ in 0..3 {
                    let _ = r.next_record_bytes(&mut rd, |_, _| StreamAction::KeepGoing, Some(64));
                }
            }
            Owner::Chunker(c, a) => {
                // the first pump may be served from the buffered tail of the block read before
                let mut rd = pr();
                for _ in 0..6 {
                    let _ = c.pump(a, &mut rd, 64);
                }
            }
            _ => {}
        },
        "judge" => {
            if let Owner::Reader(r) = o {
                let more = [0xFEu8, 0xFD, 0x02, 0x61, 0x62, 0xFE, 0xFD, 0x01, 0x63];
                let _ = r.next_record_bytes(&more[..], |_, _| panic!("judge panic"), Some(64));
            }
        }
        "keep_plain" => {
            match o {
                Owner::Iov(v) | Owner::IovClone(v, _) => v.push_copy(b"more"),
                Owner::Arena(a) => a.ensure_capacity(10),
                Owner::Enc(e) => e.encode_copy(b"more"),
                _ => {}
            }
            panic!("scoped panic");
        }
        _ => panic!("scoped panic"),
    }
}

// ------------------------------------------------------------------ the wrapper

pub struct ScaleExec {
    kind: Kind,
    inner: Box<dyn Exec>,
    terse: bool,
    quiet: bool,
    /// the wrapped op being executed (for `panic_violation`)
    current: Vec<String>,
    /// owners that survived a caught panic (`keep_*`): dropped before the wrapped `finish`
    kept: Vec<Box<dyn Any>>,
    // ---- iovec-observation oracles
    pend: HashMap<usize, bool>,
    tdig: HashMap<usize, (String, String)>,
    sclone_seen: bool,
    // ---- codec C09 oracle
    last_snap: Vec<u8>,
    codecs: usize,
    // ---- chunker
    block: usize,
    nviol: usize,
    /// the op being executed was announced as valid (`must`)
    must: bool,
}

impl ScaleExec {
    pub fn new(kind: Kind, inner: Box<dyn Exec>) -> Self {
        ScaleExec {
            kind,
            inner,
            terse: false,
            quiet: false,
            current: vec![],
            kept: vec![],
            pend: HashMap::new(),
            tdig: HashMap::new(),
            sclone_seen: false,
            last_snap: vec![],
            codecs: 0,
            block: 0,
            nviol: 0,
            must: false,
        }
    }

    fn viol(&mut self, so: &mut StepOut, v: String) {
        // long `rep` runs would repeat the same finding thousands of times
        self.nviol += 1;
        if self.nviol <= 12 {
            so.violations.push(v);
        }
    }

    fn scoped_panic(&mut self, owner: &str, how: &str, n: usize) -> StepOut {
        let mut so = StepOut::default();
        let before = (ByteArena::num_live_chunks(), ByteArena::num_live_bytes());
        let keep = how.starts_with("keep_");
        let caught;
        if keep {
            let Some(mut o) = make_owner(owner, n) else { return StepOut::bad() };
            caught = catch_unwind(AssertUnwindSafe(|| do_panic(how, &mut o, n))).is_err();
            // the survivor must still work ...
            if let Owner::Iov(v) | Owner::IovClone(v, _) = &mut o {
                let size = v.total_size();
                v.push_copy(b"zz");
                let fl = v.flatten().unwrap_or_default();
                if fl.len() != size + 2 || !fl.ends_with(b"zz") {
                    so.violations.push(format!(
                        "C03 an iovec that survived a caught panic ({} {}) reads back {} bytes for total_size {}",
                        owner,
                        how,
                        fl.len(),
                        size + 2
                    ));
                }
            }
            // ... and is dropped in the ordinary way: the counters must come back as well
            drop(o);
        } else if how == "thread" {
            let Some(o) = make_owner(owner, n) else { return StepOut::bad() };
            let so_ = SendOwner(o);
            let h = std::thread::spawn(move || {
                let _owned = so_;
                panic!("scoped panic in a worker thread");
            });
            caught = h.join().is_err();
        } else {
            caught = catch_unwind(AssertUnwindSafe(|| {
                // locals of the panicking scope: dropped by the unwinder
                let Some(mut o) = make_owner(owner, n) else { return };
                do_panic(how, &mut o, n);
            }))
            .is_err();
        }
        so.obs.push(if caught { "P caught".to_string() } else { "P returned".to_string() });
        so.tags.push(format!("scoped_{}_{}", owner, how));
        let after = (ByteArena::num_live_chunks(), ByteArena::num_live_bytes());
        if after != before {
            so.violations.push(if keep {
                format!(
                    "C10 a {} ({} bytes) that survived a caught panic ({}) was used again and dropped: {} chunks / {} bytes are live (before: {} / {})",
                    owner, n, how, after.0, after.1, before.0, before.1
                )
            } else {
                format!(
                    "C10 after a caught panic ({}) unwound through the owner of a {} ({} bytes) {} chunks / {} bytes are live (before: {} / {})",
                    how, owner, n, after.0, after.1, before.0, before.1
                )
            });
        }
        so
    }

    // ---- oracles over the wrapped executor's observation lines ------------------------------

    fn watch_iovec_lines(&mut self, so: &mut StepOut) {
        let lines: Vec<String> = so.obs.iter().filter(|l| l.starts_with("A v") || l.starts_with("S v") || l.starts_with("T s")).cloned().collect();
        for l in lines {
            let ws: Vec<&str> = l.split(' ').collect();
            match ws.as_slice() {
                ["A", v, size, pend, stable] => {
                    let (Some(i), Some(size), Some(pend), Some(st)) = (
                        v.strip_prefix('v').and_then(parse_nat),
                        size.strip_prefix("size=").and_then(parse_nat),
                        pend.strip_prefix("pend="),
                        stable.strip_prefix("stable="),
                    ) else {
                        continue;
                    };
                    let len = if st == "-" {
                        0
                    } else if let Some(d) = st.strip_prefix('#') {
                        d.split(':').next().and_then(parse_nat).unwrap_or(0)
                    } else {
                        st.len() / 2
                    };
                    let pending = pend != "0";
                    self.pend.insert(i, pending);
                    if !pending && len != size {
                        self.viol(so, format!(
                            "C03 v{} has nothing pending but its readable bytes ({}) are not the {} bytes appended and not yet consumed (total_size)",
                            i, len, size
                        ));
                    }
                    if len > size {
                        self.viol(so, format!("C03 v{} exposes {} readable bytes with total_size {}", i, len, size));
                    }
                }
                ["S", v, n, stable, _rem] if v.starts_with('v') => {
                    let (Some(i), Some(n), Some(st)) = (
                        v.strip_prefix('v').and_then(parse_nat),
                        n.strip_prefix("n=").and_then(parse_nat),
                        stable.strip_prefix("stable="),
                    ) else {
                        continue;
                    };
                    let items: Vec<&str> = if st == "-" { vec![] } else { st.split(',').collect() };
                    if self.pend.get(&i) == Some(&false) && items.len() != n {
                        self.viol(so, format!(
                            "C03 v{} has nothing pending but stable_prefix exposes {} of its {} slices",
                            i,
                            items.len(),
                            n
                        ));
                    }
                    if !self.sclone_seen {
                        // (chunk, offset, len) of every arena slice of this iovec
                        let mut owned: Vec<(usize, usize, usize)> = Vec::new();
                        for it in &items {
                            let Some(rest) = it.strip_prefix('c') else { continue };
                            let Some((k, ol)) = rest.split_once(':') else { continue };
                            let Some((o, l)) = ol.split_once('+') else { continue };
                            if let (Some(k), Some(o), Some(l)) = (parse_nat(k), parse_nat(o), parse_nat(l)) {
                                owned.push((k, o, l));
                            }
                        }
                        owned.sort();
                        let mut hit: Option<String> = None;
                        for w in owned.windows(2) {
                            if w[0].0 == w[1].0 && w[0].1 + w[0].2 > w[1].1 {
                                hit = Some(format!(
                                    "C05 v{} exposes two arena slices that overlap: c{}:{}+{} and c{}:{}+{} (distinct owned allocations must never overlap)",
                                    i, w[0].0, w[0].1, w[0].2, w[1].0, w[1].1, w[1].2
                                ));
                                break;
                            }
                        }
                        if let Some(h) = hit {
                            self.viol(so, h);
                        }
                    }
                }
                ["T", s, at, bytes] => {
                    let (Some(i), Some(at), Some(b)) =
                        (s.strip_prefix('s').and_then(parse_nat), at.strip_prefix("at="), bytes.strip_prefix("bytes="))
                    else {
                        continue;
                    };
                    if at == "-" || at == "DEAD" {
                        continue;
                    }
                    let changed = matches!(self.tdig.get(&i), Some((a0, b0)) if a0 == at && b0 != b);
                    if changed {
                        self.viol(so, format!(
                            "C05 the bytes under the live anchored slice s{} ({}) changed: arena memory was reused while a slice still reaches it",
                            i, at
                        ));
                    }
                    self.tdig.insert(i, (at.to_string(), b.to_string()));
                }
                _ => {}
            }
        }
    }

    /// C03 on the real objects: every consumer-side view (stable_prefix, front, iovs, flatten,
    /// flatten_into, iteration, the consumer and the StableIovec wrappers) exposes the same slices,
    /// and - with nothing pending - exactly `len()` slices / `total_size()` bytes.
    fn watch_iovec_views(&mut self, so: &mut StepOut) {
        let mut found: Vec<String> = Vec::new();
        {
            let Some(x) = self.inner.as_any_mut().and_then(|a| a.downcast_mut::<IovecExec>()) else { return };
            if x.dead_memory {
                return;
            }
            for (i, v) in x.iovs.iter_mut().enumerate() {
                let Some(v) = v.as_mut() else { continue };
                let mut bad = |what: String| {
                    if found.len() < 4 {
                        found.push(format!("C03 v{} {}", i, what));
                    }
                };
                let pend = v.has_pending_backrefs();
                let (n, size) = (v.len(), v.total_size());
                let sp: Vec<(usize, usize)> = v.stable_prefix().iter().map(|s| (s.as_ptr() as usize, s.len())).collect();
                let sp_bytes: usize = sp.iter().map(|s| s.1).sum();
                if !pend && (sp.len() != n || sp_bytes != size) {
                    bad(format!("nothing pending, but stable_prefix exposes {} slices / {} bytes of {} / {}", sp.len(), sp_bytes, n, size));
                }
                let same = |other: &[std::io::IoSlice<'_>]| -> bool {
                    other.len() == sp.len() && other.iter().zip(sp.iter()).all(|(a, b)| (a.as_ptr() as usize, a.len()) == *b)
                };
                match v.iovs() {
                    Ok(s) => {
                        if pend || !same(s) {
                            bad(format!("iovs() = Ok({} slices) with pending={} and a stable prefix of {} slices", s.len(), pend, sp.len()));
                        }
                    }
                    Err(s) => {
                        if !pend || !same(s) {
                            bad(format!("iovs() = Err({} slices) with pending={} and a stable prefix of {} slices", s.len(), pend, sp.len()));
                        }
                    }
                }
                let it: Vec<std::io::IoSlice<'_>> = (&*v).into_iter().copied().collect();
                if !same(&it) {
                    bad(format!("iteration yields {} slices, stable_prefix {}", it.len(), sp.len()));
                }
                match (v.front(), sp.first()) {
                    (None, None) => {}
                    (Some(f), Some(b)) if (f.as_ptr() as usize, f.len()) == *b => {}
                    _ => bad("front() is not the first slice of stable_prefix".into()),
                }
                let fl = match v.flatten() {
                    Ok(b) | Err(b) => b,
                };
                if fl.len() != sp_bytes {
                    bad(format!("flatten() gives {} bytes, the stable prefix holds {}", fl.len(), sp_bytes));
                }
                let fi = match v.flatten_into(vec![0xEE, 0xEE, 0xEE]) {
                    Ok(b) | Err(b) => b,
                };
                if fi.len() != sp_bytes + 3 || fi[..3] != [0xEE, 0xEE, 0xEE] || fi[3..] != fl[..] {
                    bad(format!("flatten_into() gives {} bytes after a 3-byte prefix, flatten() {}", fi.len().saturating_sub(3), fl.len()));
                }
                {
                    let c = v.consumer();
                    let cs: Vec<(usize, usize)> = c.stable_prefix().iter().map(|s| (s.as_ptr() as usize, s.len())).collect();
                    if cs != sp || c.total_size() != size || c.len() != n {
                        bad(format!("consumer() sees {} stable slices / size {} / len {}", cs.len(), c.total_size(), c.len()));
                    }
                }
                match v.stable_consumer() {
                    Ok(st) => {
                        let sl = st.iovs();
                        let sb: usize = sl.iter().map(|s| s.len()).sum();
                        let f2 = st.flatten();
                        if pend || sl.len() != n || sb != size || f2.len() != size || f2 != fl {
                            bad(format!(
                                "stable_consumer(): {} slices / {} bytes, flatten {} bytes; the iovec holds {} / {} (pending={})",
                                sl.len(), sb, f2.len(), n, size, pend
                            ));
                        }
                    }
                    Err(_) => {
                        if !pend {
                            bad("stable_consumer() refused although nothing is pending".into());
                        }
                    }
                }
            }
        }
        for f in found {
            self.viol(so, f);
        }
    }

    fn watch_codec(&mut self, so: &mut StepOut, words: &[&str]) {
        if matches!(words.first().copied(), Some("enc_new") | Some("dec_new")) {
            self.codecs += 1;
            self.last_snap.clear();
        }
        if self.codecs != 1 {
            return;
        }
        let Some(c) = self.inner.as_any_mut().and_then(|a| a.downcast_mut::<CodecWExec>()) else { return };
        let stable = c.with_consumer(|cons| {
            let mut b = Vec::new();
            for s in cons.stable_prefix() {
                b.extend_from_slice(s);
            }
            b
        });
        let Some(stable) = stable else { return };
        let mut snap = c.drained.clone();
        snap.extend_from_slice(&stable);
        let (is_enc, failed, limits) = (c.is_enc, c.failed, c.limits);
        // (a codec built over a pre-filled iovec has more output than its input explains)
        let finishing = words == ["finish"] && !failed && c.prefill.is_empty();
        let input: Vec<u8> = if finishing { c.logical_input.clone() } else { Vec::new() };
        let reference: Option<Vec<u8>> = if finishing && c.logical_input.len() <= (64 << 20) {
            if is_enc {
                if limits == (252, 64008) {
                    let mut e = Encoder::new();
                    e.encode_copy(&c.logical_input);
                    e.finish().flatten().ok()
                } else {
                    hcobs::verif::VerifEncoder::new_from_iovec(OwningIovec::new(), limits.0, limits.1).and_then(|mut e| {
                        e.encode_copy(&c.logical_input);
                        e.finish().flatten().ok()
                    })
                }
            } else if limits == (252, 64008) {
                let mut d = Decoder::new();
                match d.decode_copy(&c.logical_input) {
                    Ok(()) => d.finish().ok().and_then(|v| v.flatten().ok()),
                    Err(_) => None,
                }
            } else {
                None
            }
        } else {
            None
        };
        if !snap.starts_with(&self.last_snap) {
            let at = snap.iter().zip(self.last_snap.iter()).position(|(a, b)| a != b).unwrap_or(snap.len().min(self.last_snap.len()));
            let msg = format!(
                "C09 the bytes obtainable through the consumer (drained ++ consumable, {} bytes) no longer start with what was obtainable before ({} bytes): first difference at byte {} after `{}`",
                snap.len(),
                self.last_snap.len(),
                at,
                words.join(" ").chars().take(60).collect::<String>()
            );
            self.viol(so, msg);
        }
        if finishing && is_enc && snap.len() <= (64 << 20) {
            // C01: the real decoder, in one call, must give the input back
            let mut d = Decoder::new();
            let back = match d.decode_copy(&snap) {
                Ok(()) => d.finish().ok().and_then(|v| v.flatten().ok()),
                Err(_) => None,
            };
            if limits == (252, 64008) && back.as_deref() != Some(&input[..]) {
                let msg = format!(
                    "C01 decoding the encoder's output (drained ++ finish(), {} bytes) does not give the {} input bytes back ({})",
                    snap.len(),
                    input.len(),
                    match &back {
                        Some(b) => format!("{} bytes", b.len()),
                        None => "decoding error".to_string(),
                    }
                );
                self.viol(so, msg);
            }
        }
        if let Some(r) = reference {
            if snap != r && !is_enc {
                let msg = format!(
                    "C01 decoding in pieces (drained ++ finish(), {} bytes) differs from decoding the same bytes in one call ({} bytes)",
                    snap.len(),
                    r.len()
                );
                self.viol(so, msg);
            }
            if snap != r {
                let at = snap.iter().zip(r.iter()).position(|(a, b)| a != b).unwrap_or(snap.len().min(r.len()));
                let msg = format!(
                    "C09 drained ++ finish() ({} bytes) is not the complete output: a one-call {} of the same input gives {} bytes, first difference at byte {}",
                    snap.len(),
                    if is_enc { "encoding" } else { "decoding" },
                    r.len(),
                    at
                );
                self.viol(so, msg);
            }
        }
        self.last_snap = snap;
    }

    fn watch_chunker_lines(&mut self, so: &mut StepOut) {
        let count = self.block.max(2);
        let mut worst: Option<usize> = None;
        for l in &so.obs {
            let Some(p) = l.find(" reqs=") else { continue };
            let rest = &l[p + 6..];
            let list = rest.split(' ').next().unwrap_or("-");
            if list == "-" {
                continue;
            }
            for r in list.split(',') {
                if let Some(r) = parse_nat(r) {
                    if r > count && worst.map(|w| r > w).unwrap_or(true) {
                        worst = Some(r);
                    }
                }
            }
        }
        if let Some(r) = worst {
            self.viol(so, format!("C17 read_n asked the reader for {} bytes in one call although count is {}", r, count));
        }
    }

    /// one op of the wrapped vocabulary (after macro expansion), or `scoped_panic`
    fn step1(&mut self, ws0: &[String]) -> StepOut {
        // `must <op …>`: a panic of this op is a violation (reported through `panic_violation`)
        let ws: &[String] = if ws0.first().map(|s| s.as_str()) == Some("must") { &ws0[1..] } else { ws0 };
        self.must = ws.len() != ws0.len();
        let so = self.step1_inner(ws);
        self.must = false;
        so
    }

    fn step1_inner(&mut self, ws: &[String]) -> StepOut {
        let w: Vec<&str> = ws.iter().map(|s| s.as_str()).collect();
        if w.first().copied() == Some("scoped_panic") {
            return match w.as_slice() {
                [_, owner, how, n] if scoped_ok(owner, how) && parse_nat(n).is_some() => {
                    self.scoped_panic(owner, how, parse_nat(n).unwrap())
                }
                _ => StepOut::bad(),
            };
        }
        let expanded = macro_op(ws);
        let ew: Vec<&str> = expanded.iter().map(|s| s.as_str()).collect();
        self.current = expanded.iter().map(|s| s.chars().take(80).collect()).collect();
        if let ["block", n] = ew.as_slice() {
            self.block = parse_nat(n).unwrap_or(0);
        }
        if ew.first().copied() == Some("s_clone") {
            self.sclone_seen = true;
        }
        let mut so = self.inner.step(&ew);
        if so.obs.iter().any(|o| o == "bad-op") {
            return so;
        }
        match self.kind {
            Kind::Iovec => {
                self.watch_iovec_lines(&mut so);
                self.watch_iovec_views(&mut so);
            }
            Kind::Codec => {
                self.watch_iovec_lines(&mut so);
                self.watch_codec(&mut so, &ew);
            }
            Kind::Chunker => self.watch_chunker_lines(&mut so),
            Kind::Reader => {}
        }
        so
    }

    fn finalize(&self, mut so: StepOut) -> StepOut {
        // an executor that reports one finding per element would print a million lines for a 65536-pair message
        if so.violations.len() > 16 {
            let more = so.violations.len() - 16;
            so.violations.truncate(16);
            if let Some(first) = so.violations.first().cloned() {
                let tag = first.split(' ').next().unwrap_or("").to_string();
                so.violations.push(format!("{} ... and {} more findings of this op", tag, more));
            }
        }
        if self.quiet {
            so.obs.clear();
        } else if self.terse {
            for o in so.obs.iter_mut() {
                if o.len() > 160 {
                    *o = terse_line(o);
                }
            }
        }
        so
    }
}

impl Exec for ScaleExec {
    fn step(&mut self, w: &[&str]) -> StepOut {
        self.current = w.iter().map(|s| s.chars().take(80).collect()).collect();
        if !self.quiet && auto_quiet(w) {
            // the real code and the oracles still run; the model stops replaying here
            self.quiet = true;
            let mut so = self.step_inner(w);
            so.obs = vec!["quiet".to_string()];
            return so;
        }
        self.step_inner(w)
    }

    fn finish(&mut self) -> StepOut {
        // survivors of caught panics go first: the wrapped executor's leak oracle (and main.rs's)
        // compare the counters with the start of the case
        let kept = std::mem::take(&mut self.kept);
        drop(kept);
        let so = self.inner.finish();
        self.finalize(so)
    }

    fn panic_violation(&self, _w: &[&str]) -> Option<String> {
        let cur: Vec<&str> = self.current.iter().map(|s| s.as_str()).collect();
        if self.must {
            return Some(format!(
                "C03 `{}` panicked although it is valid here (own pending placeholder, source of its size: no panic is specified)",
                cur.join(" ")
            ));
        }
        self.inner.panic_violation(&cur)
    }

    fn flush_before(&self, w: &[&str]) -> bool {
        self.inner.flush_before(w)
    }
}

impl ScaleExec {
    fn step_inner(&mut self, w: &[&str]) -> StepOut {
        match w {
            ["terse"] if !self.quiet => {
                self.terse = true;
                StepOut::obs("ok")
            }
            ["quiet"] if !self.quiet => {
                self.quiet = true;
                StepOut::obs("quiet")
            }
            ["rep", k, body @ ..] => {
                let ops = split_ops(body);
                let Some(k) = parse_nat(k) else { return self.finalize(StepOut::bad()) };
                if k == 0 || ops.is_empty() {
                    return self.finalize(StepOut::bad());
                }
                let mut out = StepOut::default();
                for i in 0..k {
                    let mut obs = Vec::new();
                    for op in &ops {
                        let words: Vec<String> = op.iter().map(|x| subst_word(x, i, k)).collect();
                        let so = self.step1(&words);
                        out.violations.extend(so.violations);
                        if i == 0 || i + 1 == k {
                            out.tags.extend(so.tags);
                        }
                        if so.obs.iter().any(|o| o == "bad-op") {
                            out.obs = vec!["bad-op".to_string()];
                            return self.finalize(out);
                        }
                        obs.extend(so.obs);
                    }
                    out.obs = obs;
                }
                out.tags.push("rep".into());
                self.finalize(out)
            }
            _ => {
                let ws: Vec<String> = w.iter().map(|s| s.to_string()).collect();
                let so = self.step1(&ws);
                self.finalize(so)
            }
        }
    }

}

// ------------------------------------------------------------------ small helpers for the generators

/// Run-notation payload of `n` bytes with a random tag.
pub fn rnd_run(rng: &mut Rng, n: usize) -> String {
    run_token(rng.next() as u8, n)
}

/// `x` or a neighbour of it (never below `lo`).
pub fn near(rng: &mut Rng, x: usize, lo: usize) -> usize {
    let d = rng.below(5) as i64 - 2;
    ((x as i64 + d).max(lo as i64)) as usize
}

/// one of `xs`, or a neighbour of it (never below `lo`)
pub fn near_of(rng: &mut Rng, xs: &[usize], lo: usize) -> usize {
    let x = *rng.pick(xs);
    near(rng, x, lo)
}

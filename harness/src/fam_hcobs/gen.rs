//! Case generators for `hcobs_enc` / `hcobs_dec`.
use super::refcodec::*;
use crate::util::*;

const METHODS: [&str; 4] = ["b", "c", "a", "r"];
const DRAINS: [&str; 3] = ["drain_slices", "drain_bytes", "drain_read"];

// ---------------------------------------------------------------------------
// limits

fn custom_limits(rng: &mut Rng) -> Limits {
    let mi = match rng.below(10) {
        0 => 1,
        1 => 2,
        2 | 3 => 3,
        4 => 252,
        5 => rng.range(4, 7) as usize,
        _ => rng.range(1, 12) as usize,
    };
    let ms = match rng.below(12) {
        0 => 1,
        1 => 2,
        2 => 3,
        3 | 4 => 5,
        // two-digit headers: sizes across the radix
        5 => *rng.pick(&[252usize, 253, 254, 300, 506, 507]),
        _ => rng.range(1, 16) as usize,
    };
    Limits::custom(mi, ms).unwrap()
}

// ---------------------------------------------------------------------------
// payloads

fn benign(rng: &mut Rng) -> u8 {
    match rng.below(6) {
        0 => 0x00,
        1 => 0x31,
        2 => 0xFC,
        3 => 0xFF,
        _ => {
            let b = rng.next() as u8;
            if b == 0xFE || b == 0xFD {
                0x41
            } else {
                b
            }
        }
    }
}

/// `n` bytes, each FE or FD with probability `pct`%.
fn payload_iid(rng: &mut Rng, n: usize, pct: u64) -> Vec<u8> {
    let constant = if rng.chance(1, 3) { Some(benign(rng)) } else { None };
    (0..n)
        .map(|_| {
            if rng.below(100) < pct {
                if rng.chance(1, 2) {
                    0xFE
                } else {
                    0xFD
                }
            } else {
                constant.unwrap_or_else(|| benign(rng))
            }
        })
        .collect()
}

/// `n` stuff-free bytes (may contain lone FE / FD).
fn filler(rng: &mut Rng, n: usize) -> Vec<u8> {
    let pct = *rng.pick(&[0u64, 0, 0, 5, 30]);
    let mut v = payload_iid(rng, n, pct);
    for i in 1..v.len() {
        if v[i - 1] == 0xFE && v[i] == 0xFD {
            v[i] = 0xFC;
        }
    }
    v
}

/// A length close to one of the thresholds of `l`.
fn near_threshold(rng: &mut Rng, l: Limits, max_chunks: usize) -> usize {
    let k = rng.below(max_chunks as u64 + 1) as usize;
    let base = match rng.below(4) {
        0 => k * l.ms,
        _ => l.mi + k * l.ms,
    };
    (base + 2).saturating_sub(rng.below(5) as usize)
}

/// Structured payload: a sequence of segments, each a body whose length is
/// swept around the chunk limit (so every header value and every position of
/// the hold-back logic is reached), optionally starting with FD / ending with
/// FE, followed by a separator.
fn payload_structured(rng: &mut Rng, l: Limits, max_len: usize, max_segments: usize) -> Vec<u8> {
    let mut out = Vec::new();
    let nseg = rng.range(1, max_segments as u64) as usize;
    for s in 0..nseg {
        let limit = if s == 0 { l.mi } else { l.ms };
        let n = match rng.below(8) {
            0 => 0,
            1 => 1,
            2 => limit.saturating_sub(2),
            3 => limit - 1,
            4 => limit,
            5 => limit + 1,
            6 => rng.range(0, limit as u64) as usize,
            // sizes whose low radix-253 digit is near 0 / 252 / 253
            _ => (253 * rng.below(3) as usize + *rng.pick(&[0usize, 1, 251, 252])).min(limit + 1),
        };
        if out.len() + n + 3 > max_len {
            break;
        }
        let mut body = filler(rng, n);
        if n > 0 && rng.chance(1, 3) {
            body[0] = 0xFD;
        }
        if n > 0 && rng.chance(1, 3) {
            body[n - 1] = 0xFE;
        }
        if n > 1 && body[n - 2] == 0xFE && body[n - 1] == 0xFD {
            body[n - 2] = 0x00;
        }
        out.extend_from_slice(&body);
        match rng.below(8) {
            0 => {}
            1 => out.push(0xFE),
            2 => out.push(0xFD),
            3 => out.extend_from_slice(&[0xFE, 0xFE, 0xFD]),
            4 => out.extend_from_slice(&[0xFE, 0xFD, 0xFD]),
            _ => out.extend_from_slice(&[0xFE, 0xFD]),
        }
    }
    out
}

/// FE as the last byte of the (full) first chunk, then a chunk of `s` bytes
/// (optionally starting with FD), then a terminator.
fn payload_fe_ends_full_chunk(rng: &mut Rng, l: Limits, s: usize) -> Vec<u8> {
    let mut out = filler(rng, l.mi - 1);
    out.push(0xFE);
    let mut body = filler(rng, s);
    if s > 0 && rng.chance(1, 2) {
        body[0] = 0xFD;
    }
    out.extend_from_slice(&body);
    match rng.below(3) {
        0 => {}
        1 => out.extend_from_slice(&[0xFE, 0xFD]),
        _ => {
            out.extend_from_slice(&[0xFE, 0xFD]);
            let n = rng.range(0, 3) as usize;
            out.extend_from_slice(&filler(rng, n));
        }
    }
    out
}

fn small_density(rng: &mut Rng) -> u64 {
    *rng.pick(&[0u64, 1, 5, 20, 50, 80, 100])
}

fn custom_payload(rng: &mut Rng, l: Limits, thorough: bool) -> Vec<u8> {
    let cap = if thorough { 3000 } else { 1200 };
    match rng.below(10) {
        0 | 1 | 2 => {
            let n = match rng.below(4) {
                0 => rng.range(0, 3) as usize,
                1 => near_threshold(rng, l, 3),
                _ => rng.range(0, (l.mi + 4 * l.ms + 3).min(cap) as u64) as usize,
            }
            .min(cap);
            let d = small_density(rng);
            payload_iid(rng, n, d)
        }
        3 => {
            let s = rng.range(0, (l.ms + 1).min(cap) as u64) as usize;
            payload_fe_ends_full_chunk(rng, l, s)
        }
        _ => payload_structured(rng, l, cap, 6),
    }
}

fn prod_payload(rng: &mut Rng, thorough: bool) -> Vec<u8> {
    let l = Limits::prod();
    let class = rng.below(100);
    if class < 35 {
        // small: 0-3, 250-256, anything up to 600
        let n = match rng.below(3) {
            0 => rng.range(0, 3),
            1 => rng.range(250, 256),
            _ => rng.range(0, 600),
        } as usize;
        let d = small_density(rng);
        payload_iid(rng, n, d)
    } else if class < 55 {
        payload_structured(rng, l, 3000, 5)
    } else if class < 65 {
        // FE ends the full first chunk; sweep the size of the next chunk
        let s = match rng.below(4) {
            0 => rng.range(0, 3) as usize,
            1 => 253 * rng.range(1, 3) as usize - 1 + rng.below(3) as usize,
            2 => rng.range(0, 1200) as usize,
            _ => *rng.pick(&[252usize, 253, 254, 505, 506, 507, 64006, 64007, 64008, 64009]),
        };
        payload_fe_ends_full_chunk(rng, l, s)
    } else {
        // long: around the 64008-byte limit and its multiples
        let big = class >= 92;
        let n = if big {
            let top = if thorough && rng.chance(1, 4) { 1_000_000 } else { 200_000 };
            match rng.below(3) {
                0 => (rng.range(2, 3) as usize * 64008 + 2).saturating_sub(rng.below(5) as usize),
                1 => (252 + rng.range(2, 3) as usize * 64008 + 2).saturating_sub(rng.below(5) as usize),
                _ => rng.range(130_000, top) as usize,
            }
        } else {
            match rng.below(4) {
                0 => rng.range(64000, 64016) as usize,
                1 => rng.range(64258, 64262) as usize,
                2 => (64008 + 2usize).saturating_sub(rng.below(5) as usize),
                _ => rng.range(4000, 70000) as usize,
            }
        };
        let mut v = match rng.below(6) {
            0 => vec![0xFEu8; n],
            1 => vec![0xFDu8; n],
            2 => payload_iid(rng, n, 0),
            3 => payload_iid(rng, n, 1),
            4 => payload_iid(rng, n, 5),
            _ => (0..n).map(|_| rng.next() as u8).collect(),
        };
        // a few stuff sequences / lone bytes right at the chunk boundaries
        for _ in 0..rng.below(6) {
            let at = match rng.below(4) {
                0 => rng.range(249, 254) as usize,
                1 => rng.range(64257, 64262) as usize,
                2 => rng.range(64005, 64010) as usize,
                _ => rng.below(n as u64 + 1) as usize,
            };
            if at + 2 <= n {
                match rng.below(3) {
                    0 => v[at] = 0xFE,
                    1 => v[at] = 0xFD,
                    _ => {
                        v[at] = 0xFE;
                        v[at + 1] = 0xFD;
                    }
                }
            }
        }
        v
    }
}

// ---------------------------------------------------------------------------
// segmentation

/// Sorted cut positions in `1..data.len()`.
fn cut_points(rng: &mut Rng, data: &[u8], l: Limits) -> Vec<usize> {
    let n = data.len();
    if n < 2 {
        return vec![];
    }
    let mut cuts: Vec<usize> = Vec::new();
    match rng.below(6) {
        0 => {}
        1 if n <= 96 => cuts.extend(1..n),
        2 => {
            // exactly between FE and what follows
            for i in 1..n {
                if data[i - 1] == 0xFE && cuts.len() < 24 && rng.chance(3, 4) {
                    cuts.push(i);
                }
            }
        }
        3 => {
            // around the chunk limits
            let mut b = l.mi;
            while b < n + 2 && cuts.len() < 24 {
                for c in [b.saturating_sub(1), b, b + 1] {
                    if c >= 1 && c < n && rng.chance(2, 3) {
                        cuts.push(c);
                    }
                }
                b += l.ms;
            }
        }
        _ => {}
    }
    let extra = match rng.below(4) {
        0 => 0,
        1 => 1,
        _ => rng.range(1, 8),
    };
    for _ in 0..extra {
        cuts.push(rng.range(1, n as u64 - 1) as usize);
    }
    cuts.sort_unstable();
    cuts.dedup();
    cuts
}

fn drain_op(rng: &mut Rng) -> String {
    let k = match rng.below(6) {
        0 => 0,
        1 => 1,
        2 => 2,
        3 => rng.range(3, 10),
        4 => rng.range(10, 70000),
        _ => 1 << 30,
    };
    format!("{} {}", rng.pick(&DRAINS), k)
}

/// One run: `params`, the pieces, optional drains, `finish`.
fn run_ops(rng: &mut Rng, l: Limits, verb: &str, data: &[u8], drains: bool, out: &mut Vec<String>) {
    out.push(l.op());
    piece_ops(rng, l, verb, data, drains, out);
    out.push("finish".into());
}

/// The pieces of `data` (random cuts, random methods), optional drains; no `params`, no `finish`.
fn piece_ops(rng: &mut Rng, l: Limits, verb: &str, data: &[u8], drains: bool, out: &mut Vec<String>) {
    let cuts = cut_points(rng, data, l);
    let mut prev = 0;
    // the production encoder is also fed through its `ZeroCopySink` impl (S = append_borrow, T = append_copy)
    let methods: &[&str] = if verb == "enc" && l.prod { &["b", "c", "a", "r", "S", "T", "S", "T"] } else { &METHODS };
    let fixed_method = if rng.chance(1, 4) { Some(*rng.pick(methods)) } else { None };
    for c in cuts.iter().copied().chain(std::iter::once(data.len())) {
        let m = fixed_method.unwrap_or_else(|| *rng.pick(methods));
        out.push(format!("{} {} {}", verb, m, to_hex(&data[prev..c])));
        prev = c;
        if rng.chance(1, 40) {
            out.push(format!("{} {} -", verb, rng.pick(&METHODS)));
        }
        if drains && rng.chance(1, 3) {
            out.push(drain_op(rng));
        }
    }
}

/// A wire image that makes the decoder return `Err` from a `decode` call (not merely from
/// `finish`): garbage / a valid prefix, then an out-of-radix or over-long header.
fn failing_wire(rng: &mut Rng, l: Limits) -> Vec<u8> {
    let mut w = Vec::new();
    match rng.below(5) {
        // bad first header
        0 => w.push(((l.mi + 1 + rng.below(3) as usize).min(255)) as u8),
        // a short first chunk (so a stuff sequence is owed), then a bad first digit
        1 => {
            let n = rng.below(l.mi as u64) as usize;
            w.push(n as u8);
            w.extend_from_slice(&filler(rng, n));
            w.push(*rng.pick(&[0xFDu8, 0xFE, 0xFF]));
        }
        // … a bad second digit
        2 => {
            let n = rng.below(l.mi as u64 + 1) as usize;
            w.push(n as u8);
            w.extend_from_slice(&filler(rng, n));
            w.push(rng.below(253) as u8);
            w.push(*rng.pick(&[0xFDu8, 0xFE, 0xFF]));
        }
        // … an over-long size
        3 => {
            let n = rng.below(l.mi as u64 + 1) as usize;
            w.push(n as u8);
            w.extend_from_slice(&filler(rng, n));
            let big = (l.ms + 1 + rng.below(3) as usize).min(253 * 253 - 1);
            w.push((big % 253) as u8);
            w.push((big / 253) as u8);
        }
        // a valid message with a bad byte glued on
        _ => {
            let payload = custom_payload(rng, l, false);
            w = ref_encode(l, &payload).bytes;
            w.push(*rng.pick(&[0xFDu8, 0xFE, 0xFF]));
        }
    }
    // bytes after the error point, in the same call: they are dropped with the call
    for _ in 0..rng.below(4) {
        w.push(rng.next() as u8);
    }
    w
}

/// One decoder object through `rounds` failed messages, then (mostly) a valid one, then
/// `finish`: the object must behave like a fresh decoder after every `Err`.
fn dec_after_error_case(rng: &mut Rng, l: Limits, thorough: bool, out: &mut Vec<String>) {
    out.push(l.op());
    let rounds = rng.range(1, 3);
    let drains = rng.chance(1, 2);
    for _ in 0..rounds {
        let bad = failing_wire(rng, l);
        if rng.chance(1, 2) {
            // the whole failing message in one call
            out.push(format!("dec {} {}", rng.pick(&METHODS), to_hex(&bad)));
        } else {
            piece_ops(rng, l, "dec", &bad, drains, out);
        }
        if drains && rng.chance(1, 3) {
            out.push(drain_op(rng));
        }
    }
    let last = match rng.below(6) {
        0 => failing_wire(rng, l),
        1 => dec_wire(rng, l, thorough),
        _ => {
            let payload = if l.prod { prod_payload(rng, thorough) } else { custom_payload(rng, l, thorough) };
            ref_encode(l, &payload).bytes
        }
    };
    piece_ops(rng, l, "dec", &last, drains, out);
    out.push("finish".into());
}

// ---------------------------------------------------------------------------
// encoder cases

pub fn enc_case(rng: &mut Rng, _idx: u64, thorough: bool) -> Vec<String> {
    let mut ops = Vec::new();
    if rng.below(1000) < (if thorough { 6 } else { 4 }) {
        return enc_boundary_random(rng, thorough);
    }
    if rng.chance(1, 6) {
        // `find_stuff_sequence` on its own: FE / FD runs, pairs at every position incl. the last two bytes
        let n = match rng.below(4) {
            0 => rng.range(0, 3),
            1 => rng.range(3, 40),
            2 => rng.range(60, 70),
            _ => rng.range(0, 300),
        } as usize;
        let mut v: Vec<u8> = (0..n).map(|_| *rng.pick(&[0xFEu8, 0xFE, 0xFD, 0x00, 0xFF, 0x41])).collect();
        if n >= 2 && rng.chance(1, 2) {
            for b in v.iter_mut() {
                if *b == 0xFD {
                    *b = 0x42;
                }
            }
            if rng.chance(2, 3) {
                let r = rng.below(n as u64 - 1) as usize;
                let at = (*rng.pick(&[0usize, n - 2, n / 2, r])).min(n - 2);
                v[at] = 0xFE;
                v[at + 1] = 0xFD;
            }
        }
        ops.push(format!("find {}", to_hex(&v)));
    }
    if rng.below(100) < 6 {
        let data = prod_payload(rng, thorough);
        let drains = rng.chance(2, 3);
        run_ops(rng, Limits::prod(), "enc", &data, drains, &mut ops);
    } else {
        // a few short runs per case
        for _ in 0..rng.range(1, 3) {
            let l = custom_limits(rng);
            let data = custom_payload(rng, l, thorough);
            let drains = rng.chance(2, 3);
            run_ops(rng, l, "enc", &data, drains, &mut ops);
        }
    }
    ops
}

fn all_strings(alphabet: &[u8], maxlen: usize) -> Vec<Vec<u8>> {
    let mut all: Vec<Vec<u8>> = vec![vec![]];
    let mut frontier: Vec<Vec<u8>> = vec![vec![]];
    for _ in 0..maxlen {
        let mut next = Vec::new();
        for s in &frontier {
            for a in alphabet {
                let mut t = s.clone();
                t.push(*a);
                next.push(t);
            }
        }
        all.extend(next.iter().cloned());
        frontier = next;
    }
    all
}

/// The huge zero pieces (thorough tier) first, then the exhaustive small cases, then the small /
/// medium zero pieces.
pub fn enc_enumerated(thorough: bool) -> Vec<Vec<String>> {
    let (mut cases, back) = zero_cases("zenc", thorough);
    cases.extend(enc_enumerated_pieces(thorough));
    cases.extend(back);
    cases.extend(enc_boundary_cases(thorough));
    cases.extend(chunk_len_sweep("zenc", thorough));
    cases
}

// ---------------------------------------------------------------------------
// piece-boundary sweep (track gen3): what sits at the END of one piece and at the START of the
// next one, for every size class of the second piece, where the BODY of every piece is constant
// filler without any FE / FD - so a pre-filter of the form "no 0xFE anywhere in this piece" (or
// "piece longer than N") passes, and what remains is the hand-over of the held-back FE between calls.

/// `(end of piece A, start of piece B)`, as hex parts.
const BOUNDARIES: [(&str, &str); 8] = [
    ("fe", "fd"),         // the held-back FE is completed into a stuff sequence by the next piece
    ("fe", "fefd"),       // held FE, then FE (flushes the first) FD
    ("fe", "42"),         // held FE, then something harmless
    ("41", "fd"),         // nothing held, piece starts with FD
    ("fefdfe", "fd"),     // a complete stuff sequence, then FE | FD again
    ("fefe", "fd"),       // two FE: the second one is held
    ("fd", "fe"),         // FD | FE: not a stuff sequence
    ("fe", "-"),          // held FE, then an EMPTY piece (the next op line brings FD)
];

/// Size classes of the second piece (bytes, including its boundary bytes).
fn boundary_sizes(thorough: bool) -> Vec<usize> {
    let mut v = vec![1usize, 2, 64, 256, 4096, 64008, 65535, 65536, 65537];
    if thorough {
        v.extend([63, 65, 255, 257, 64007, 64009, 131072, 131073, 262144, 1 << 20, (1 << 20) + 1]);
    }
    v.sort_unstable();
    v
}

/// The second piece: `start` bytes, then constant filler up to `size` bytes in all, the filler
/// interrupted (body kinds 1, 2) by a lone FD / a stuff sequence in the middle, ending (tail kinds
/// 1, 2) in FE / FD.  Returned as a token for the op line.
fn boundary_piece(start: &str, size: usize, body_kind: usize, tail_kind: usize) -> String {
    let start_len = if start == "-" { 0 } else { start.len() / 2 };
    if start_len == 0 {
        return "-".to_string();
    }
    let mut parts: Vec<String> = vec![start.to_string()];
    let tail = match tail_kind {
        1 => "fe",
        2 => "fd",
        _ => "",
    };
    let mid = match body_kind {
        1 => "fd",
        2 => "fefd",
        _ => "",
    };
    let fixed = start_len + tail.len() / 2 + mid.len() / 2;
    if size > fixed {
        let fill = size - fixed;
        if mid.is_empty() {
            parts.push(const_token(0x41, fill));
        } else {
            let a = fill / 2;
            if a > 0 {
                parts.push(const_token(0x41, a));
            }
            parts.push(mid.to_string());
            if fill - a > 0 {
                parts.push(const_token(0x43, fill - a));
            }
        }
        if !tail.is_empty() {
            parts.push(tail.to_string());
        }
    }
    parts.join("+")
}

/// One run: piece A (filler of `a_fill` bytes + the boundary's end bytes) by method `ma`, piece B
/// by method `mb`, optionally a third piece, `finish`.
fn boundary_run(ops: &mut Vec<String>, bnd: (&str, &str), a_fill: usize, size: usize, ma: &str, mb: &str, body_kind: usize, tail_kind: usize, third: usize, drain: usize) {
    let l = Limits::prod();
    ops.push(l.op());
    let a = if a_fill == 0 { bnd.0.to_string() } else { format!("{}+{}", const_token(0x61, a_fill), bnd.0) };
    ops.push(format!("enc {} {}", ma, a));
    match drain {
        1 => ops.push("drain_slices 1".into()),
        2 => ops.push("drain_bytes 3".into()),
        _ => {}
    }
    if bnd.1 == "-" {
        // empty piece in between, then the piece that starts with FD
        ops.push(format!("enc {} -", mb));
        ops.push(format!("enc {} {}", mb, boundary_piece("fd", size, body_kind, tail_kind)));
    } else {
        ops.push(format!("enc {} {}", mb, boundary_piece(bnd.1, size, body_kind, tail_kind)));
    }
    match third {
        1 => ops.push(format!("enc {} fd", ma)),
        2 => ops.push(format!("enc {} fefd41", mb)),
        3 => ops.push(format!("enc {} fd+{}", mb, const_token(0x44, 65536))),
        _ => {}
    }
    ops.push("finish".into());
}

/// The grid boundary x size class x (method of A, method of B) x where the boundary falls in the
/// current chunk x body / tail / third-piece kinds.  Quick tier: every boundary x 9 size classes with
/// two method pairs each (B by `encode` and one rotating pair); thorough tier: 20 size classes up to
/// 1 MiB + 1 with 18 of the 36 method pairs per cell, alternating halves (4 for the sizes above 131073).  The remaining dimensions
/// rotate so that every value meets every boundary and every size class.
pub fn enc_boundary_cases(thorough: bool) -> Vec<Vec<String>> {
    let mut cases = Vec::new();
    let mut rot = 0usize;
    // filler in front of the boundary bytes of piece A: none; so that the boundary straddles the
    // end of the full first chunk (252 bytes) in its three alignments; a little
    let a_fills = [0usize, 251, 250, 3, 249];
    for (bi, bnd) in BOUNDARIES.iter().enumerate() {
        for (si, size) in boundary_sizes(thorough).into_iter().enumerate() {
            // production encoder: six input methods (S / T = through `dyn ZeroCopySink`)
            const EM: [&str; 6] = ["b", "c", "a", "r", "S", "T"];
            let npairs = if !thorough { 2 } else if size > 131073 { 4 } else { 18 };
            let mut ops = Vec::new();
            for k in 0..npairs {
                rot += 1;
                // thorough: half of the 36 pairs per cell, the other half in the neighbouring cell
                let pair = if thorough && npairs == 18 { (2 * k + (bi + si) % 2) % 36 } else if k == 0 { 6 * (rot % 6) } else { (rot * 5 + bi + si) % 36 };
                let (ma, mb) = (EM[pair / 6], EM[pair % 6]);
                let a_fill = a_fills[(rot + bi) % a_fills.len()];
                let body_kind = if (rot / 3) % 4 == 3 { 1 + (rot / 12) % 2 } else { 0 };
                let tail_kind = if (rot / 2) % 3 == 2 { 1 + (rot / 6) % 2 } else { 0 };
                let third = if size <= 131073 || !thorough { (rot / 5) % 4 } else { (rot / 5) % 3 };
                let drain = (rot / 7) % 3;
                boundary_run(&mut ops, *bnd, a_fill, size, ma, mb, body_kind, tail_kind, third, drain);
                if size >= 64007 && ops.len() >= 12 {
                    cases.push(std::mem::take(&mut ops));
                }
            }
            if !ops.is_empty() {
                cases.push(ops);
            }
        }
    }
    cases
}

/// Random point of the same space (sizes jittered around the classes; quick tier: up to 131073).
fn enc_boundary_random(rng: &mut Rng, thorough: bool) -> Vec<String> {
    let mut ops = Vec::new();
    let bnd = *rng.pick(&BOUNDARIES);
    // (the list model costs about 2 us per byte on MiB-sized pieces: the big classes are rare)
    let classes: &[usize] = if thorough && rng.chance(1, 12) {
        &[262144, 1 << 20]
    } else if thorough {
        &[1, 2, 64, 256, 4096, 64008, 65535, 65536, 65537, 131072]
    } else {
        &[1, 2, 64, 256, 4096, 64008, 65535, 65536, 65537, 131072]
    };
    let base = *rng.pick(classes);
    let size = match rng.below(4) {
        0 => base,
        1 => base + rng.below(3) as usize,
        2 => base.saturating_sub(rng.below(3) as usize).max(1),
        _ => base + rng.below(base as u64 / 8 + 2) as usize,
    };
    let a_fill = match rng.below(5) {
        0 => 0,
        1 => rng.range(248, 253) as usize,
        2 => rng.range(0, 6) as usize,
        3 => 64008 + 252 - rng.below(4) as usize,
        _ => rng.range(0, 600) as usize,
    };
    let em = ["b", "c", "a", "r", "S", "T"];
    let (ma, mb) = (*rng.pick(&em), *rng.pick(&em));
    let body_kind = if rng.chance(1, 4) { rng.range(1, 2) as usize } else { 0 };
    let tail_kind = if rng.chance(1, 3) { rng.range(1, 2) as usize } else { 0 };
    let third = rng.below(if size > 131073 { 3 } else { 4 }) as usize;
    boundary_run(&mut ops, bnd, a_fill, size, ma, mb, body_kind, tail_kind, third, rng.below(3) as usize);
    ops
}

// ---------------------------------------------------------------------------
// every chunk length / every header value (track gen3)

/// `zenc` / `zdec` on `252 + k` zero bytes: the first chunk is full, the second one has exactly `k`
/// bytes, so its two-byte header spells `k` - for EVERY `k` in 0..=64008 in the thorough tier (the
/// model side is the closed form `Zeros.zeroSummary`, so this is cheap), and in the quick tier for
/// every `k` within 1 of a multiple of 253 (every value of the high digit next to a low digit 252 /
/// 0 / 1) plus the powers of two and their neighbours.  `zdec` alternates between delivering the
/// header in one call and split between its two bytes (the optional third word is where the wire
/// is cut: 253 = before the header, 254 = between its bytes, 255 = after it).
pub fn chunk_len_sweep(verb: &str, thorough: bool) -> Vec<Vec<String>> {
    let prod = Limits::prod();
    let mut ks: Vec<usize> = Vec::new();
    if thorough {
        ks.extend(0..=64008usize);
    } else {
        for q in 0..=253usize {
            for d in [-1i64, 0, 1] {
                let k = 253 * q as i64 + d;
                if (0..=64008).contains(&k) {
                    ks.push(k as usize);
                }
            }
        }
        for sh in 1..16 {
            for d in [-1i64, 0, 1] {
                let k = (1i64 << sh) + d;
                if (0..=64008).contains(&k) {
                    ks.push(k as usize);
                }
            }
        }
        ks.sort_unstable();
        ks.dedup();
    }
    let mut cases = Vec::new();
    let mut ops = Vec::new();
    for (i, k) in ks.iter().enumerate() {
        ops.push(prod.op());
        let m = if i % 5 == 4 { "c" } else { "b" };
        if verb == "zdec" {
            let cut = [254usize, 253, 254, 255][i % 4];
            ops.push(format!("zdec {} {} {}", m, 252 + k, cut));
        } else if thorough {
            // with FE as the last byte of the first chunk (same chunking; the header under test follows an
            // FE) for every k; all zeros for every fourth k and around the multiples of 253
            ops.push(format!("zenc {} {} fe", m, 252 + k));
            if k % 4 == 0 || k % 253 <= 1 || k % 253 == 252 {
                ops.push(prod.op());
                ops.push(format!("zenc {} {}", m, 252 + k));
            }
        } else {
            ops.push(format!("zenc {} {}", m, 252 + k));
            if i % 2 == 0 {
                ops.push(prod.op());
                ops.push(format!("zenc {} {} fe", m, 252 + k));
            }
        }
        if ops.len() >= 128 {
            cases.push(std::mem::take(&mut ops));
        }
    }
    if !ops.is_empty() {
        cases.push(ops);
    }
    cases
}

// ---------------------------------------------------------------------------
// zero pieces (`zenc` / `zdec`, see `zeros.rs`)

/// Smallest `n` whose canonical encoding (limits `l`) has at least `target` bytes; the sizes
/// `n + 1 + 2*full(n)` skip two values at every chunk boundary.
fn zeros_for_wire_size(l: Limits, target: usize) -> usize {
    let mut n = target.saturating_sub(1 + 2 * (target / l.ms + 2));
    while super::zeros::expect(l, n).size < target {
        n += 1;
    }
    n
}

/// `(front, back)`: the cases that go before / after the other enumerated cases.
///
/// front (thorough tier only, one case each so that shards share them): ONE call on a piece of
/// `2^32 + k` bytes, `k` in {0, 1, 100} - for `zdec` the slice of the second call (everything
/// after the first header byte `fc`) has that length.
/// back (both tiers): every `n` up to past the third chunk for small limits, the chunk
/// boundaries of the production limits, and one 3 MiB piece (the same code path as the huge
/// pieces, at a size the quick tier can afford).
fn zero_cases(verb: &str, thorough: bool) -> (Vec<Vec<String>>, Vec<Vec<String>>) {
    let prod = Limits::prod();
    let mut front = Vec::new();
    if thorough {
        for k in [0usize, 1, 100] {
            let n = if verb == "zenc" { (1usize << 32) + k } else { zeros_for_wire_size(prod, (1usize << 32) + k + 1) };
            front.push(vec![prod.op(), format!("{} b {}", verb, n)]);
        }
    }
    let mut back = Vec::new();
    let mut rot = 0usize;
    for (mi, ms) in [(3usize, 5usize), (1, 1), (2, 3), (1, 2), (4, 2), (252, 300), (7, 507)] {
        let l = Limits::custom(mi, ms).unwrap();
        let mut ops = Vec::new();
        for n in 0..=mi + 3 * ms + 2 {
            rot += 1;
            ops.push(l.op());
            ops.push(format!("{} {} {}", verb, if rot % 3 == 0 { "c" } else { "b" }, n));
        }
        back.push(ops);
    }
    let mut ops = Vec::new();
    for n in [0usize, 1, 2, 251, 252, 253, 254, 64259, 64260, 64261, 128267, 128268, 128269, 200_000] {
        rot += 1;
        ops.push(prod.op());
        ops.push(format!("{} {} {}", verb, if rot % 3 == 0 { "c" } else { "b" }, n));
    }
    back.push(ops);
    back.push(vec![prod.op(), format!("{} b {}", verb, 3usize << 20)]);
    back.push(vec![prod.op(), format!("{} c {}", verb, 1usize << 20)]);
    (front, back)
}

/// All payloads over {'1', FE, FD} up to length 5 (7 thorough) x five limit
/// pairs; each payload: one borrow call, one-byte copy pieces, and every
/// two-way split with rotating method pairs and a drain in between.
fn enc_enumerated_pieces(thorough: bool) -> Vec<Vec<String>> {
    let limits = [(3usize, 5usize), (1, 1), (2, 3), (1, 2), (4, 2)];
    let payloads = all_strings(&[0x31, 0xFE, 0xFD], if thorough { 7 } else { 5 });
    let pairs = [("b", "c"), ("c", "b"), ("a", "c"), ("b", "r"), ("c", "c"), ("b", "b")];
    let mut cases = Vec::new();
    let mut rot = 0usize;
    for (mi, ms) in limits {
        let l = Limits::custom(mi, ms).unwrap();
        for p in &payloads {
            let mut ops = Vec::new();
            ops.push(l.op());
            ops.push(format!("enc b {}", to_hex(p)));
            ops.push("finish".into());
            if p.len() >= 2 {
                ops.push(l.op());
                for b in p {
                    ops.push(format!("enc c {}", to_hex(&[*b])));
                }
                ops.push("drain_slices 1".into());
                ops.push("finish".into());
                for cut in 1..p.len() {
                    let (m1, m2) = pairs[rot % pairs.len()];
                    rot += 1;
                    ops.push(l.op());
                    ops.push(format!("enc {} {}", m1, to_hex(&p[..cut])));
                    if rot % 2 == 0 {
                        ops.push(format!("{} {}", DRAINS[rot % 3], 1 + rot % 4));
                    }
                    ops.push(format!("enc {} {}", m2, to_hex(&p[cut..])));
                    ops.push("finish".into());
                }
            }
            cases.push(ops);
        }
    }
    // FE as the last byte of the full first chunk, then every size 0..=maxSub+1 for
    // the next chunk (every header value), with and without FD as its first byte,
    // three ways to end; fed as `..FE` | rest so the boundary is also a call boundary.
    for (mi, ms) in [(3usize, 5usize), (2, 3), (1, 2), (1, 1), (2, 507)] {
        let l = Limits::custom(mi, ms).unwrap();
        let mut ops = Vec::new();
        for s in 0..=ms + 1 {
            for fd_first in [false, true] {
                if fd_first && s == 0 {
                    continue;
                }
                for ending in 0..3 {
                    if ms > 16 && (ending != s % 3 || !fd_first) {
                        continue;
                    }
                    let mut head = vec![0x61u8; mi - 1];
                    head.push(0xFE);
                    let mut tail: Vec<u8> = (0..s).map(|i| 0x30 + (i % 10) as u8).collect();
                    if fd_first {
                        tail[0] = 0xFD;
                    }
                    match ending {
                        0 => {}
                        1 => tail.extend_from_slice(&[0xFE, 0xFD]),
                        _ => tail.extend_from_slice(&[0xFE, 0xFD, 0x7A]),
                    }
                    let (m1, m2) = pairs[rot % pairs.len()];
                    rot += 1;
                    ops.push(l.op());
                    ops.push(format!("enc {} {}", m1, to_hex(&head)));
                    ops.push(format!("enc {} {}", m2, to_hex(&tail)));
                    ops.push("finish".into());
                    let mut whole = head.clone();
                    whole.extend_from_slice(&tail);
                    ops.push(l.op());
                    ops.push(format!("enc {} {}", m2, to_hex(&whole)));
                    ops.push("finish".into());
                }
            }
            if ops.len() > 400 {
                cases.push(std::mem::take(&mut ops));
            }
        }
        if !ops.is_empty() {
            cases.push(ops);
        }
    }
    cases
}

// ---------------------------------------------------------------------------
// decoder cases

fn header_bytes(l: Limits, first: bool, n: usize) -> Vec<u8> {
    let _ = l;
    if first {
        vec![n as u8]
    } else {
        vec![(n % 253) as u8, (n / 253) as u8]
    }
}

/// A chunk sequence written directly: sizes around the limits, arbitrary
/// bodies (the decoder does not care about FE FD inside a body), ending
/// properly, on a full chunk, or truncated.
fn wire_chunks(rng: &mut Rng, l: Limits, max_len: usize) -> Vec<u8> {
    let mut out = Vec::new();
    let nchunks = rng.range(1, 6) as usize;
    for c in 0..nchunks {
        let first = c == 0;
        let limit = if first { l.mi } else { l.ms };
        let last = c + 1 == nchunks;
        let n = match rng.below(8) {
            0 => 0,
            1 => limit,
            2 => limit - 1,
            // over-long (only a fault if it still fits the header)
            3 if rng.chance(1, 3) => limit + 1,
            4 => 1,
            // sizes 253*q + r, r <= 2: they have an alias spelling with an out-of-radix low digit
            5 if !first && limit >= 253 => (253 * rng.range(1, (limit / 253).min(3) as u64) as usize + rng.below(3) as usize).min(limit),
            _ => rng.range(0, limit as u64) as usize,
        };
        if out.len() + n + 2 > max_len {
            break;
        }
        let n = if first { n.min(255) } else { n.min(253 * 253 - 1) };
        if !first && n >= 253 && n % 253 <= 2 && rng.chance(1, 2) {
            // ill-formed, but self-consistent if a decoder forgot the digit check:
            // low digit 253..255, high digit one less
            out.push((n % 253 + 253) as u8);
            out.push((n / 253 - 1) as u8);
        } else {
            out.extend_from_slice(&header_bytes(l, first, n));
        }
        let d = small_density(rng);
        let mut body = payload_iid(rng, n, d);
        if last && rng.chance(1, 6) && !body.is_empty() {
            let keep = rng.below(body.len() as u64) as usize;
            body.truncate(keep);
        }
        out.extend_from_slice(&body);
    }
    out
}

fn mutate_wire(rng: &mut Rng, l: Limits, wire: &mut Vec<u8>, headers: &[(usize, usize)]) -> &'static str {
    match rng.below(12) {
        0..=3 => "valid",
        4 | 5 => {
            let at = rng.below(wire.len() as u64 + 1) as usize;
            wire.truncate(at);
            "truncated"
        }
        6 | 7 => {
            // out-of-radix byte in a header position
            let (off, len) = *rng.pick(headers);
            let pos = off + rng.below(len as u64) as usize;
            wire[pos] = *rng.pick(&[0xFDu8, 0xFE, 0xFF]);
            "bad_radix"
        }
        8 => {
            // over-long / changed length
            let (off, len) = *rng.pick(headers);
            if len == 1 {
                wire[off] = (l.mi + 1 + rng.below(2) as usize).min(255) as u8;
            } else {
                let n = (l.ms + 1 + rng.below(2) as usize).min(253 * 253 - 1);
                wire[off] = (n % 253) as u8;
                wire[off + 1] = (n / 253) as u8;
            }
            "over_long"
        }
        9 => {
            if !wire.is_empty() {
                let pos = rng.below(wire.len() as u64) as usize;
                wire[pos] = match rng.below(3) {
                    0 => wire[pos].wrapping_add(1),
                    1 => wire[pos].wrapping_sub(1),
                    _ => rng.next() as u8,
                };
            }
            "byte_changed"
        }
        10 => {
            for _ in 0..rng.range(1, 4) {
                wire.push(*rng.pick(&[0u8, 1, 2, 0xFC, 0xFD, 0xFF]));
            }
            "appended"
        }
        _ => {
            // a second message glued on
            let extra = wire.clone();
            wire.extend_from_slice(&extra);
            "doubled"
        }
    }
}

fn dec_wire(rng: &mut Rng, l: Limits, thorough: bool) -> Vec<u8> {
    match rng.below(20) {
        0..=8 => {
            // a valid encoding produced by the real encoder, then mutated
            let payload = if l.prod { prod_payload(rng, thorough) } else { custom_payload(rng, l, thorough) };
            let reference = ref_encode(l, &payload);
            let mut wire = super::real_encode_oneshot(l, &payload).unwrap_or_else(|_| reference.bytes.clone());
            let headers = if wire == reference.bytes { reference.headers } else { vec![(0, 1)] };
            mutate_wire(rng, l, &mut wire, &headers);
            wire
        }
        9..=15 => wire_chunks(rng, l, if l.prod { 140000 } else { 1500 }),
        _ => {
            let n = rng.range(0, 12) as usize;
            (0..n)
                .map(|_| match rng.below(4) {
                    0 => rng.below(8) as u8,
                    1 => *rng.pick(&[0xFCu8, 0xFD, 0xFE, 0xFF]),
                    2 => (l.mi as u8).wrapping_add(rng.below(3) as u8).wrapping_sub(1),
                    _ => rng.next() as u8,
                })
                .collect()
        }
    }
}

pub fn dec_case(rng: &mut Rng, _idx: u64, thorough: bool) -> Vec<String> {
    let mut ops = Vec::new();
    if rng.below(100) < 6 {
        let l = Limits::prod();
        let wire = dec_wire(rng, l, thorough);
        let drains = rng.chance(2, 3);
        run_ops(rng, l, "dec", &wire, drains, &mut ops);
        return ops;
    }
    let l = custom_limits(rng);
    if rng.chance(1, 6) {
        let l = if rng.chance(1, 8) { Limits::prod() } else { l };
        dec_after_error_case(rng, l, thorough, &mut ops);
        return ops;
    }
    let wire = dec_wire(rng, l, thorough);
    match rng.below(8) {
        0 if wire.len() <= 48 => {
            // truncation at every position
            for cut in 0..=wire.len() {
                run_ops(rng, l, "dec", &wire[..cut], false, &mut ops);
            }
        }
        1 if wire.len() <= 48 && !wire.is_empty() => {
            // an out-of-radix byte at every position (header positions included)
            for pos in 0..wire.len() {
                let mut w = wire.clone();
                w[pos] = *rng.pick(&[0xFDu8, 0xFE, 0xFF]);
                run_ops(rng, l, "dec", &w, false, &mut ops);
            }
        }
        _ => {
            let drains = rng.chance(2, 3);
            run_ops(rng, l, "dec", &wire, drains, &mut ops);
        }
    }
    ops
}

/// The huge zero pieces (thorough tier) first, then the exhaustive small strings, then the small /
/// medium zero pieces.
pub fn dec_enumerated(thorough: bool) -> Vec<Vec<String>> {
    let (mut cases, back) = zero_cases("zdec", thorough);
    cases.extend(dec_enumerated_strings(thorough));
    cases.extend(back);
    cases.extend(dec_header_sweep(thorough));
    cases.extend(chunk_len_sweep("zdec", thorough));
    cases
}

/// Header parsing of the decoder, value by value (track gen3; the valid two-byte values with their
/// full body are `chunk_len_sweep("zdec")`):
/// * the first-chunk header: every byte 0..=255, production limits and limits (3, 5), followed by
///   that many filler bytes (and an empty chunk after a full one); header and body in one call, and
///   split right after the header byte;
/// * the two-byte header after an empty first chunk, production limits, header only (accepted /
///   rejected, error variant and payload; `finish` then says CutShort unless the size is 0): all
///   65536 values in the thorough tier, in the quick tier every value with one digit in
///   {0, 1, 2, 251..255} or on the diagonal; one call `00 h0 h1`, and split between the two bytes;
/// * production limits, low digit 253..255 (out of radix) x high digit (quick: 10 values; thorough:
///   all) WITH the body of the size `h0 + 253 * h1` the header would alias;
/// * limits (2, 507): every header with high digit 0..=3 (sizes 0..=1011: all valid ones and the
///   over-long ones next to them) WITH a filler body of that size, unsplit and split inside the header.
fn dec_header_sweep(thorough: bool) -> Vec<Vec<String>> {
    let mut cases = Vec::new();
    let mut ops: Vec<String> = Vec::new();
    let mut runs = 0usize;
    let mut flush = |ops: &mut Vec<String>, runs: &mut usize, cases: &mut Vec<Vec<String>>, force: bool| {
        if (*runs >= 64 || force) && !ops.is_empty() {
            cases.push(std::mem::take(ops));
            *runs = 0;
        }
    };
    let mut rot = 0usize;
    // first-chunk header
    for l in [Limits::prod(), Limits::custom(3, 5).unwrap()] {
        for h in 0..=255usize {
            rot += 1;
            // the body an over-long header announces is supplied too (and the empty chunk that must
            // follow a full one): a decoder that let the header pass would accept the whole message
            let body = h;
            let mut wire = format!("{:02x}", h);
            if body > 0 {
                wire.push('+');
                wire.push_str(&const_token(0x41, body));
            }
            if h >= l.mi {
                wire.push_str("+0000");
            }
            let m = METHODS[rot % 4];
            ops.push(l.op());
            ops.push(format!("dec {} {}", m, wire));
            ops.push("finish".into());
            ops.push(l.op());
            ops.push(format!("dec {} {:02x}", METHODS[(rot / 4) % 4], h));
            let rest = wire.split_once('+').map(|x| x.1.to_string()).unwrap_or_else(|| "-".to_string());
            ops.push(format!("dec {} {}", m, rest));
            ops.push("finish".into());
            runs += 2;
            flush(&mut ops, &mut runs, &mut cases, false);
        }
    }
    flush(&mut ops, &mut runs, &mut cases, true);
    // two-byte header, production limits, header only
    let edge = |d: usize| d <= 2 || d >= 251;
    let prod = Limits::prod();
    for h1 in 0..=255usize {
        for h0 in 0..=255usize {
            if !thorough && !(edge(h0) || edge(h1) || h0 == h1 || h0 + h1 == 255) {
                continue;
            }
            rot += 1;
            ops.push(prod.op());
            if rot % 2 == 0 {
                ops.push(format!("dec {} 00{:02x}{:02x}", METHODS[(rot / 2) % 4], h0, h1));
            } else {
                ops.push(format!("dec {} 00{:02x}", METHODS[(rot / 2) % 4], h0));
                ops.push(format!("dec {} {:02x}", METHODS[(rot / 8) % 4], h1));
            }
            ops.push("finish".into());
            runs += 1;
            if thorough {
                // and the other delivery
                ops.push(prod.op());
                if rot % 2 == 1 {
                    ops.push(format!("dec {} 00{:02x}{:02x}", METHODS[(rot / 2) % 4], h0, h1));
                } else {
                    ops.push(format!("dec {} 00", METHODS[(rot / 2) % 4]));
                    ops.push(format!("dec {} {:02x}", METHODS[(rot / 2) % 4], h0));
                    ops.push(format!("dec {} {:02x}", METHODS[(rot / 8) % 4], h1));
                }
                ops.push("finish".into());
                runs += 1;
            }
            flush(&mut ops, &mut runs, &mut cases, false);
        }
    }
    flush(&mut ops, &mut runs, &mut cases, true);
    // production limits, out-of-radix LOW digit (253..255) with the body of the size it would alias
    // (h0 + 253 * h1 <= 64008) and the ending that size calls for
    for h0 in 253..=255usize {
        for h1 in 0..=252usize {
            if !thorough && !matches!(h1, 0 | 1 | 2 | 85 | 86 | 170 | 171 | 250 | 251 | 252) {
                continue;
            }
            let size = h0 + 253 * h1;
            if size > prod.ms {
                continue;
            }
            rot += 1;
            let mut tail = format!("{:02x}+{}", h1, const_token(0x42, size));
            if size == prod.ms {
                tail.push_str("+0000");
            }
            ops.push(prod.op());
            if rot % 2 == 0 {
                ops.push(format!("dec {} 00{:02x}+{}", METHODS[(rot / 2) % 4], h0, tail));
            } else {
                ops.push(format!("dec {} 00{:02x}", METHODS[(rot / 2) % 4], h0));
                ops.push(format!("dec {} {}", METHODS[(rot / 8) % 4], tail));
            }
            ops.push("finish".into());
            runs += 1;
            flush(&mut ops, &mut runs, &mut cases, false);
        }
    }
    flush(&mut ops, &mut runs, &mut cases, true);
    // limits (2, 507): header + body
    let l = Limits::custom(2, 507).unwrap();
    for h1 in 0..=3usize {
        for h0 in 0..=255usize {
            rot += 1;
            let size = h0 + 253 * h1;
            // out-of-radix low digit: the body of the size it would alias is supplied all the same
            let body = if size <= l.ms { size } else { 3 };
            // first chunk: one byte (short, so a stuff sequence is implied), then the header under test
            let mut tail = format!("{:02x}", h1);
            if body > 0 {
                tail.push('+');
                tail.push_str(&const_token(0x42, body));
            }
            if size >= l.ms {
                tail.push_str("+0000");
            }
            ops.push(l.op());
            if rot % 2 == 0 {
                ops.push(format!("dec {} 0141{:02x}+{}", METHODS[(rot / 2) % 4], h0, tail));
            } else {
                ops.push(format!("dec {} 0141{:02x}", METHODS[(rot / 2) % 4], h0));
                ops.push(format!("dec {} {}", METHODS[(rot / 8) % 4], tail));
            }
            ops.push("finish".into());
            runs += 1;
            flush(&mut ops, &mut runs, &mut cases, false);
        }
    }
    flush(&mut ops, &mut runs, &mut cases, true);
    cases
}

/// All byte strings over {00,01,02,03,04,FD,FF} up to length 5 (6 thorough)
/// with limits (2,3): every header value 0..limit+1, out-of-radix bytes in
/// every header position, every truncation.  One `decode` call each; strings of
/// length 2..4 also byte by byte through `decode_copy`.
fn dec_enumerated_strings(thorough: bool) -> Vec<Vec<String>> {
    let l = Limits::custom(2, 3).unwrap();
    let strings = all_strings(&[0x00, 0x01, 0x02, 0x03, 0x04, 0xFD, 0xFF], if thorough { 6 } else { 5 });
    let mut cases = Vec::new();
    let mut ops: Vec<String> = Vec::new();
    let mut runs = 0;
    for s in &strings {
        ops.push(l.op());
        ops.push(format!("dec b {}", to_hex(s)));
        ops.push("finish".into());
        runs += 1;
        if (2..=4).contains(&s.len()) {
            ops.push(l.op());
            for b in s {
                ops.push(format!("dec c {}", to_hex(&[*b])));
            }
            ops.push("finish".into());
            runs += 1;
        }
        if runs >= 64 {
            cases.push(std::mem::take(&mut ops));
            runs = 0;
        }
    }
    if !ops.is_empty() {
        cases.push(std::mem::take(&mut ops));
    }
    // the decoder object after an error: every string up to length 3 (4 thorough) in ONE failing or
    // succeeding call, then a complete valid message in a second call, `finish`; and the same with
    // the first string fed byte by byte
    let firsts = all_strings(&[0x00, 0x01, 0x02, 0x03, 0x04, 0xFD, 0xFF], if thorough { 4 } else { 3 });
    let mut runs = 0;
    let mut rot = 0usize;
    for s in &firsts {
        if s.is_empty() {
            continue;
        }
        let tails: [&[u8]; 3] = [&[0x01, 0x41], &[0x02, 0x41, 0x42, 0x00, 0x00], &[0x00]];
        let tail = tails[rot % 3];
        rot += 1;
        ops.push(l.op());
        ops.push(format!("dec {} {}", if rot % 2 == 0 { "b" } else { "c" }, to_hex(s)));
        ops.push(format!("dec {} {}", if rot % 4 < 2 { "c" } else { "a" }, to_hex(tail)));
        ops.push("finish".into());
        runs += 1;
        if s.len() >= 2 {
            ops.push(l.op());
            for b in s {
                ops.push(format!("dec b {}", to_hex(&[*b])));
            }
            ops.push(format!("dec b {}", to_hex(tail)));
            ops.push("finish".into());
            runs += 1;
        }
        if runs >= 64 {
            cases.push(std::mem::take(&mut ops));
            runs = 0;
        }
    }
    if !ops.is_empty() {
        cases.push(ops);
    }
    cases
}

//! Reference HCOBS codec for the direct oracle (C01 / C02 / C07).
//!
//! Written from the description of the format
//! (<https://pvk.ca/Blog/2021/01/11/stuff-your-logs/> and the property text),
//! NOT from the crate: byte-at-a-time chunking for the encoder, a plain
//! length-prefixed walk for the decoder.  The production constants are
//! LITERALS here on purpose: a change of a limit or of the radix on both sides
//! of the crate keeps every round trip green, but not the comparison with
//! these numbers.

/// First chunk: at most 252 bytes.
pub const PROD_MAX_INIT: usize = 252;
/// Later chunks: at most 64008 (= 253*253 - 1) bytes.
pub const PROD_MAX_SUB: usize = 64008;
/// Size headers are little-endian radix-253 digits.
#[allow(dead_code)]
pub const REF_RADIX: usize = 253;

#[derive(Clone, Copy, PartialEq, Eq, Debug)]
pub struct Limits {
    /// production limits through the public `Encoder` / `Decoder`
    pub prod: bool,
    pub mi: usize,
    pub ms: usize,
}

impl Limits {
    pub fn prod() -> Limits {
        Limits { prod: true, mi: PROD_MAX_INIT, ms: PROD_MAX_SUB }
    }

    pub fn custom(mi: usize, ms: usize) -> Option<Limits> {
        if (1..253).contains(&mi) && (1..253 * 253).contains(&ms) {
            Some(Limits { prod: false, mi, ms })
        } else {
            None
        }
    }

    /// `params` op words (after the op name).
    pub fn parse(words: &[&str]) -> Option<Limits> {
        match words {
            ["prod"] => Some(Limits::prod()),
            [a, b] => Limits::custom(a.parse().ok()?, b.parse().ok()?),
            _ => None,
        }
    }

    pub fn op(&self) -> String {
        if self.prod {
            "params prod".to_string()
        } else {
            format!("params {} {}", self.mi, self.ms)
        }
    }
}

pub struct RefEncoded {
    pub bytes: Vec<u8>,
    /// (offset, length) of every size header in `bytes`
    pub headers: Vec<(usize, usize)>,
    /// number of chunks that hit their size limit
    pub full_chunks: usize,
}

struct RefEnc {
    l: Limits,
    out: Vec<u8>,
    headers: Vec<(usize, usize)>,
    first: bool,
    full_chunks: usize,
}

impl RefEnc {
    fn limit(&self) -> usize {
        if self.first {
            self.l.mi
        } else {
            self.l.ms
        }
    }

    fn emit(&mut self, chunk: &[u8]) {
        let n = chunk.len();
        if n == self.limit() {
            self.full_chunks += 1;
        }
        if self.first {
            self.headers.push((self.out.len(), 1));
            self.out.push(n as u8);
        } else {
            self.headers.push((self.out.len(), 2));
            self.out.push((n % 253) as u8);
            self.out.push((n / 253) as u8);
        }
        self.out.extend_from_slice(chunk);
        self.first = false;
    }
}

/// Canonical encoding: a chunk ends at the first `FE FD` (which is dropped) or
/// when it reaches its size limit; the message ends with a short chunk.
pub fn ref_encode(l: Limits, data: &[u8]) -> RefEncoded {
    let mut e = RefEnc {
        l,
        out: Vec::with_capacity(data.len() + data.len() / 32 + 8),
        headers: Vec::new(),
        first: true,
        full_chunks: 0,
    };
    let mut chunk: Vec<u8> = Vec::new();
    for &b in data {
        chunk.push(b);
        let n = chunk.len();
        if n >= 2 && chunk[n - 2] == 0xFE && chunk[n - 1] == 0xFD {
            chunk.truncate(n - 2);
            e.emit(&chunk);
            chunk.clear();
        } else if n == e.limit() {
            e.emit(&chunk);
            chunk.clear();
        }
    }
    e.emit(&chunk);
    RefEncoded { bytes: e.out, headers: e.headers, full_chunks: e.full_chunks }
}

/// `None` = not a well-formed chunk sequence ending on a short chunk.
pub fn ref_decode(l: Limits, wire: &[u8]) -> Option<Vec<u8>> {
    let mut out = Vec::with_capacity(wire.len());
    let mut pos = 0usize;
    let mut first = true;
    let mut prev_short = false;
    loop {
        if pos == wire.len() {
            return if !first && prev_short { Some(out) } else { None };
        }
        let (n, limit) = if first {
            let n = wire[pos] as usize;
            pos += 1;
            if n > 252 || n > l.mi {
                return None;
            }
            (n, l.mi)
        } else {
            if pos + 2 > wire.len() {
                return None;
            }
            let (d0, d1) = (wire[pos] as usize, wire[pos + 1] as usize);
            pos += 2;
            if d0 >= 253 || d1 >= 253 {
                return None;
            }
            let n = d0 + 253 * d1;
            if n > l.ms {
                return None;
            }
            (n, l.ms)
        };
        if !first && prev_short {
            out.extend_from_slice(&[0xFE, 0xFD]);
        }
        if wire.len() - pos < n {
            return None;
        }
        out.extend_from_slice(&wire[pos..pos + n]);
        pos += n;
        prev_short = n < limit;
        first = false;
    }
}

pub fn find_stuff(bytes: &[u8]) -> Option<usize> {
    (1..bytes.len()).find(|&i| bytes[i - 1] == 0xFE && bytes[i] == 0xFD).map(|i| i - 1)
}

#[cfg(test)]
mod tests {
    use super::*;
    #[test]
    fn vectors() {
        let l = Limits::custom(3, 5).unwrap();
        assert_eq!(ref_encode(l, b"").bytes, b"\x00");
        assert_eq!(ref_encode(l, b"123").bytes, b"\x03123\x00\x00");
        assert_eq!(ref_encode(l, b"12\xFE\xFD").bytes, b"\x0312\xFE\x01\x00\xFD");
        assert_eq!(ref_encode(l, b"1234\xFE\xFE\xFD").bytes, b"\x03123\x02\x004\xFE\x00\x00");
        assert_eq!(ref_decode(l, b"\x03123\x02\x004\xFE\x00\x00").unwrap(), b"1234\xFE\xFE\xFD");
        assert!(ref_decode(l, b"\x03123").is_none());
        assert!(ref_decode(l, b"").is_none());
    }
}

//! "Zero piece" ops of `hcobs_enc` / `hcobs_dec`: ONE codec call on a piece of `n` zero bytes,
//! for `n` from 0 up to more than 2^32 (machine-integer hazards: a length narrowed to 32 bits
//! before it is clamped only shows on a single piece / slice of >= 4 GiB).
//!
//!   zenc b|c <n>   (hcobs_enc, right after `params`)  one `encode` / `encode_copy` call on `n`
//!                  zero bytes, then `finish`; ends the run.
//!   zdec b|c <n>   (hcobs_dec, right after `params`)  the canonical encoding of `n` zero bytes,
//!                  built analytically (header bytes written at their offsets in a zero buffer):
//!                  its first byte in one `decode` call, ALL the rest in one more call, then
//!                  `finish`; ends the run.  `zdec b|c <n> <cut>`: the first `cut` bytes in the
//!                  first call instead (call boundary before / inside / after a chosen header).
//!
//! Nothing here flattens or copies a piece: the input is a calloc-backed `vec![0u8; n]` (virtual
//! memory until touched; the encoder only reads it, the decoder borrows it) and the outputs are
//! inspected by walking the iovec's slices.  What is printed (and replayed by the model through
//! its closed form for all-zero inputs, `Woodpile.Hcobs.Zeros.zeroSummary`, proved equal to the
//! summary of `Spec.encode p (List.replicate n 0)`) is a summary of the encoding: total size,
//! number of chunks, size of the last chunk, FNV-1a hash of the header bytes only.
//!
//! The direct oracle (independent of the model; literal radix 253, limits from `Limits`, which
//! are literals for the production parameters): total size = n + 1 + 2 * full chunks, every
//! header sits at its expected offset and holds the expected radix-253 digits, everything between
//! headers is zero, and the decoder returns exactly `n` zero bytes.
//!
//! Every codec call of these ops runs under a watchdog thread: one failure mode of a narrowed
//! length is a call that never returns.  On expiry the watchdog writes the `V` lines straight to
//! file descriptor 1 (the main thread owns the locked, buffered stdout and is stuck; `main.rs`
//! flushed it before the op, see `Exec::flush_before`) and ends the process.
use super::real::*;
use super::refcodec::Limits;
use crate::util::StepOut;
use std::panic::{catch_unwind, AssertUnwindSafe};
use std::sync::atomic::{AtomicU64, Ordering};
use std::sync::{Mutex, Once, OnceLock};
use std::time::{Duration, Instant};

/// Largest `n` of `zenc <m> <n> fe` (the model replays these on the actual bytes).
pub const FE_MAX: usize = 300_000;

/// Pieces above this size are "huge": no second encoding, no flattening, no byte-wise comparison.
pub const SMALL_MAX: usize = 8 << 20;

/// Budget of one watched codec call.
const WATCHDOG_SECS: u64 = 120;

const FNV_OFFSET: u64 = 0xcbf2_9ce4_8422_2325;
const FNV_PRIME: u64 = 0x0000_0100_0000_01b3;

fn fnv_step(h: u64, b: u8) -> u64 {
    (h ^ b as u64).wrapping_mul(FNV_PRIME)
}

// ---------------------------------------------------------------------------
// watchdog

fn raw_stdout(text: &str) {
    let bytes = text.as_bytes();
    let mut off = 0;
    while off < bytes.len() {
        // SAFETY: plain write(2) on fd 1 from a valid buffer.
        let n = unsafe { libc::write(1, bytes[off..].as_ptr() as *const libc::c_void, bytes.len() - off) };
        if n <= 0 {
            break;
        }
        off += n as usize;
    }
}

/// The armed deadline (milliseconds since `EPOCH`; 0 = nothing is being watched) and what to
/// print when it passes.  One polling thread per process, started on first use: arming and
/// disarming are two stores, no thread is created or joined per op.
static DEADLINE_MS: AtomicU64 = AtomicU64::new(0);
static ON_EXPIRY: Mutex<Vec<String>> = Mutex::new(Vec::new());
static WATCHER: Once = Once::new();
static EPOCH: OnceLock<Instant> = OnceLock::new();

fn now_ms() -> u64 {
    EPOCH.get_or_init(Instant::now).elapsed().as_millis() as u64 + 1
}

fn start_watcher() {
    WATCHER.call_once(|| {
        now_ms();
        std::thread::spawn(|| loop {
            std::thread::sleep(Duration::from_millis(200));
            let d = DEADLINE_MS.load(Ordering::SeqCst);
            if d != 0 && now_ms() > d {
                let mut text = String::from("O did-not-return\n");
                for v in ON_EXPIRY.lock().unwrap().iter() {
                    text.push_str("V ");
                    text.push_str(v);
                    text.push('\n');
                }
                text.push_str("# aborted by the watchdog\n");
                // still armed?  (the call may have returned in the meantime)
                if DEADLINE_MS.load(Ordering::SeqCst) == d {
                    raw_stdout(&text);
                    std::process::exit(0);
                }
            }
        });
    });
}

struct Disarm;
impl Drop for Disarm {
    fn drop(&mut self) {
        DEADLINE_MS.store(0, Ordering::SeqCst);
    }
}

/// Runs `f`; if it has not returned (or panicked) after the budget, the watcher thread prints
/// `O did-not-return`, one `V` line per entry of `on_expiry`, and exits the process (status 0: the
/// transcript up to here is valid and carries the verdict).
fn watched<T>(on_expiry: Vec<String>, f: impl FnOnce() -> T) -> T {
    let budget = std::env::var("WP_ZERO_WATCHDOG_SECS").ok().and_then(|s| s.parse().ok()).unwrap_or(WATCHDOG_SECS);
    start_watcher();
    *ON_EXPIRY.lock().unwrap() = on_expiry;
    DEADLINE_MS.store(now_ms() + budget * 1000, Ordering::SeqCst);
    let _disarm = Disarm;
    f()
}

// ---------------------------------------------------------------------------
// walking an encoding slice by slice

fn all_zero(s: &[u8]) -> bool {
    // SAFETY: u128 has no invalid bit patterns.
    let (a, mid, c) = unsafe { s.align_to::<u128>() };
    a.iter().all(|&b| b == 0) && mid.iter().all(|&w| w == 0) && c.iter().all(|&b| b == 0)
}

/// A byte stream over a list of slices.
struct Cursor<'a, S: std::ops::Deref<Target = [u8]>> {
    slices: &'a [S],
    idx: usize,
    off: usize,
    pos: usize,
}

impl<'a, S: std::ops::Deref<Target = [u8]>> Cursor<'a, S> {
    fn new(slices: &'a [S]) -> Self {
        Cursor { slices, idx: 0, off: 0, pos: 0 }
    }
    fn settle(&mut self) {
        while self.idx < self.slices.len() && self.off == self.slices[self.idx].len() {
            self.idx += 1;
            self.off = 0;
        }
    }
    fn at_end(&mut self) -> bool {
        self.settle();
        self.idx == self.slices.len()
    }
    fn byte(&mut self) -> Option<u8> {
        if self.at_end() {
            return None;
        }
        let b = self.slices[self.idx][self.off];
        self.off += 1;
        self.pos += 1;
        Some(b)
    }
    /// Skips `n` bytes; `Err(offset)` = the stream ended early or holds a non-zero byte there
    /// (`fe_at`: the one stream offset where the byte must be FE instead of zero).
    fn skip_zeros(&mut self, mut n: usize, fe_at: Option<usize>) -> Result<(), usize> {
        while n > 0 {
            if self.at_end() {
                return Err(self.pos);
            }
            let s = &self.slices[self.idx][self.off..];
            let take = n.min(s.len());
            let ok = match fe_at {
                Some(e) if self.pos <= e && e < self.pos + take => {
                    let k = e - self.pos;
                    all_zero(&s[..k]) && s[k] == 0xFE && all_zero(&s[k + 1..take])
                }
                _ => all_zero(&s[..take]),
            };
            if !ok {
                return Err(self.pos + s[..take].iter().enumerate().position(|(k, &b)| b != 0 && Some(self.pos + k) != fe_at).unwrap_or(0));
            }
            self.off += take;
            self.pos += take;
            n -= take;
        }
        Ok(())
    }
}

/// One chunk as found in the stream: offset of its header, the header bytes, the announced size.
pub struct Chunk {
    pub off: usize,
    pub hdr: [u8; 2],
    pub size: usize,
}

pub struct Walked {
    pub size: usize,
    pub chunks: Vec<Chunk>,
    pub hhash: u64,
    /// structural trouble (a header cut short, payload not zero / missing), if any
    pub trouble: Option<String>,
}

impl Walked {
    pub fn summary(&self) -> String {
        format!(
            "size={} chunks={} last={} hhash={}",
            self.size,
            self.chunks.len(),
            self.chunks.last().map(|c| c.size).unwrap_or(0),
            self.hhash
        )
    }
}

/// Reads the stream as `header, size bytes, header, ...` (one header byte first, two after; the
/// value of a two-byte header is `d0 + 253 * d1`, literal radix) and checks that every payload
/// byte is zero.
pub fn walk_encoding<S: std::ops::Deref<Target = [u8]>>(slices: &[S]) -> Walked {
    walk_encoding_fe(slices, None)
}

/// The same for a payload that is zero except for one FE at stream offset `fe_at`.
pub fn walk_encoding_fe<S: std::ops::Deref<Target = [u8]>>(slices: &[S], fe_at: Option<usize>) -> Walked {
    let size: usize = slices.iter().map(|s| s.len()).sum();
    let mut w = Walked { size, chunks: Vec::new(), hhash: FNV_OFFSET, trouble: None };
    let mut cur = Cursor::new(slices);
    let mut first = true;
    while !cur.at_end() {
        let off = cur.pos;
        let d0 = cur.byte().unwrap();
        w.hhash = fnv_step(w.hhash, d0);
        let (hdr, n) = if first {
            ([d0, 0], d0 as usize)
        } else {
            match cur.byte() {
                Some(d1) => {
                    w.hhash = fnv_step(w.hhash, d1);
                    ([d0, d1], d0 as usize + 253 * d1 as usize)
                }
                None => {
                    w.trouble = Some(format!("a two-byte size header is cut short at offset {}", off));
                    break;
                }
            }
        };
        w.chunks.push(Chunk { off, hdr, size: n });
        if let Err(at) = cur.skip_zeros(n, fe_at) {
            w.trouble = Some(format!(
                "the chunk announced at offset {} ({} bytes) is cut short or holds a non-zero byte at offset {}",
                off, n, at
            ));
            break;
        }
        first = false;
    }
    w
}

// ---------------------------------------------------------------------------
// what the format says about `n` zero bytes

/// The canonical chunking of `n` stuff-free bytes: the first chunk takes `min(n, mi)`; if it is
/// full, chunks of `ms` follow while at least `ms` bytes are left, then a short (maybe empty) one.
pub struct Expect {
    pub full: usize,
    pub size: usize,
    pub nchunks: usize,
    pub last: usize,
}

pub fn expect(l: Limits, n: usize) -> Expect {
    if n < l.mi {
        Expect { full: 0, size: n + 1, nchunks: 1, last: n }
    } else {
        let m = n - l.mi;
        let (q, r) = (m / l.ms, m % l.ms);
        Expect { full: 1 + q, size: n + 1 + 2 * (1 + q), nchunks: q + 2, last: r }
    }
}

/// `(offset, header bytes, size)` of chunk `i` of the canonical encoding of `n` zeros.
fn expect_chunk(l: Limits, n: usize, i: usize) -> (usize, [u8; 2], usize) {
    if i == 0 {
        let c = n.min(l.mi);
        return (0, [c as u8, 0], c);
    }
    let e = expect(l, n);
    let off = 1 + l.mi + (i - 1) * (l.ms + 2);
    let c = if i + 1 < e.nchunks { l.ms } else { e.last };
    (off, [(c % 253) as u8, (c / 253) as u8], c)
}

/// C02 / C07 on a walked encoding of `n` zeros (`who` = whose bytes these are).
fn check_encoding(l: Limits, n: usize, w: &Walked, who: &str) -> Vec<String> {
    let mut v = Vec::new();
    let e = expect(l, n);
    if w.size != e.size {
        v.push(format!(
            "C02 {}: {} bytes for {} zero bytes, expected len + 1 + 2*full = {} ({} full chunks)",
            who, w.size, n, e.size, e.full
        ));
    }
    if let Some(t) = &w.trouble {
        v.push(format!("C07 {}: {} zero bytes: {}", who, n, t));
    }
    if w.chunks.len() != e.nchunks {
        v.push(format!("C07 {}: {} zero bytes: {} chunks, the canonical encoding has {}", who, n, w.chunks.len(), e.nchunks));
    }
    for (i, c) in w.chunks.iter().enumerate().take(e.nchunks) {
        let (off, hdr, size) = expect_chunk(l, n, i);
        if c.off != off || c.hdr != hdr || c.size != size {
            v.push(format!(
                "C07 {}: {} zero bytes: chunk {} has header {:02x}{:02x} ({} bytes) at offset {}, canonical is {:02x}{:02x} ({} bytes) at offset {}",
                who, n, i, c.hdr[0], c.hdr[1], c.size, c.off, hdr[0], hdr[1], size, off
            ));
            break;
        }
        if c.hdr[0] >= 253 || c.hdr[1] >= 253 {
            v.push(format!("C02 {}: header byte out of radix in chunk {}", who, i));
            break;
        }
    }
    v
}

/// The canonical encoding of `n` zeros, written analytically.
pub fn zero_wire(l: Limits, n: usize) -> Vec<u8> {
    let e = expect(l, n);
    let mut w = vec![0u8; e.size];
    for i in 0..e.nchunks {
        let (off, hdr, _) = expect_chunk(l, n, i);
        w[off] = hdr[0];
        if i > 0 {
            w[off + 1] = hdr[1];
        }
    }
    w
}

fn size_class(n: usize) -> &'static str {
    if n > SMALL_MAX {
        "huge"
    } else if n >= 1 << 20 {
        "mib"
    } else {
        "small"
    }
}

// ---------------------------------------------------------------------------
// zenc

/// `zenc <m> <n>` on a fresh encoder.  `fe`: the last byte of the (full) first chunk is FE instead of
/// zero (`zenc <m> <n> fe`, `n <= FE_MAX`): the chunking is that of `n` zeros, but the first size header
/// of the second chunk directly follows an FE - a header whose first byte came out as FD would put a
/// stuff sequence on the wire.
pub fn zenc(enc: RealEnc, l: Limits, bufs: &mut BufStore, m: &str, n: usize, fe: bool) -> StepOut {
    let mut so = StepOut::default();
    so.tags.push(format!("zenc_{}_{}{}", m, size_class(n), if fe { "_fe" } else { "" }));
    let fe_pos = if fe && n >= l.mi { Some(l.mi - 1) } else { None };
    let mut bytes = vec![0u8; n];
    if let Some(p) = fe_pos {
        bytes[p] = 0xFE;
    }
    let data = bufs.keep(bytes);
    let what = format!("one {} call on a piece of {} zero bytes", if m == "b" { "encode" } else { "encode_copy" }, n);
    let expiry = vec![
        format!("C01 encoder did not return within its time budget from {}", what),
        format!("C07 encoder did not return within its time budget from {}", what),
    ];
    // after a panic the encoder may be in any state: it is leaked, not dropped
    let mut enc = std::mem::ManuallyDrop::new(enc);
    let res = watched(expiry, || {
        catch_unwind(AssertUnwindSafe(move || {
            if enc.feed(m, data).is_err() {
                return None;
            }
            Some(std::mem::ManuallyDrop::into_inner(enc).finish())
        }))
    });
    let iov = match res {
        Err(_) => {
            so.obs.push("panic".into());
            so.violations.push(format!("C01 encoder panicked in {} (no encoding to decode back)", what));
            so.violations.push(format!("C07 encoder panicked in {} (no canonical encoding produced)", what));
            return so;
        }
        Ok(None) => return StepOut::obs("feed-failed"),
        Ok(Some(iov)) => iov,
    };
    let pending = iov.has_pending_backrefs();
    let total = iov.total_size();
    // the FE sits one header byte after its place in the payload
    let walked = match iov.iovs() {
        Ok(s) | Err(s) => walk_encoding_fe(s, fe_pos.map(|p| p + 1)),
    };
    so.obs.push(format!("zenc {} pending={} spec=1", walked.summary(), pending as u8));
    if pending {
        so.violations.push("C07 a size header is still pending after finish".to_string());
    }
    if !pending && total != walked.size {
        so.violations.push(format!("C09 total_size() = {} but the slices hold {} bytes", total, walked.size));
    }
    so.violations.extend(check_encoding(l, n, &walked, "encoder"));
    if n <= SMALL_MAX && !pending {
        // small enough to look at the bytes: they are the analytic wire, and they decode back
        let flat = iov.flatten().unwrap_or_else(|v| v);
        let mut want = zero_wire(l, n);
        if let Some(p) = fe_pos {
            want[p + 1] = 0xFE;
        }
        if flat != want {
            so.violations.push(format!("C07 encoder: the encoding of {} zero bytes differs from the canonical one", n));
        }
        if let Some(i) = flat.windows(2).position(|w| w == [0xFE, 0xFD]) {
            so.violations.push(format!("C02 stuff sequence FE FD at offset {} of the produced bytes ({} bytes, FE as last byte of the first chunk, zero otherwise)", i, n));
        }
        drop(iov);
        match super::real_decode(l, &flat, None) {
            Ok(d) if d == data => {}
            Ok(_) => so.violations.push(format!("C01 round trip of {} zero bytes (one decode call) returned other bytes", n)),
            Err(e) => so.violations.push(format!("C01 round trip of {} zero bytes (one decode call) rejected: {}", n, e)),
        }
    } else {
        drop(iov);
    }
    so
}

// ---------------------------------------------------------------------------
// zdec

/// `zdec <m> <n>` on a fresh decoder.
///
/// `cut` = how many bytes of the wire go into the first call (1 unless the op line says otherwise:
/// `zdec <m> <n> <cut>` puts the call boundary before / inside / after a chosen size header).
pub fn zdec(dec: RealDec, l: Limits, bufs: &mut BufStore, m: &str, n: usize, cut: usize) -> StepOut {
    let mut so = StepOut::default();
    so.tags.push(format!("zdec_{}_{}", m, size_class(n)));
    if cut != 1 {
        so.tags.push("zdec_cut_chosen".into());
    }
    let wire = bufs.keep(zero_wire(l, n));
    let cut = cut.min(wire.len());
    // the analytic wire is what the format says (and, when small, what the real encoder produces)
    let walked = walk_encoding(&[wire]);
    so.violations.extend(check_encoding(l, n, &walked, "analytic wire (harness)"));
    if n <= SMALL_MAX {
        match super::real_encode_oneshot(l, &vec![0u8; n]) {
            Ok(real) if real == wire => {}
            Ok(_) => so.violations.push(format!("C07 encoder: the encoding of {} zero bytes differs from the canonical one", n)),
            Err(e) => so.violations.push(format!("C07 one-call encoding of {} zero bytes failed: {}", n, e)),
        }
    }
    let call = if m == "b" { "decode" } else { "decode_copy" };
    let what = format!(
        "one {} call on a slice of {} bytes (a valid encoding of {} zero bytes minus its first {} byte(s), which were fed before)",
        call,
        wire.len() - cut,
        n,
        cut
    );
    let expiry = vec![
        format!("C07 decoder did not return within its time budget from {}", what),
        format!("C01 round trip: decoder did not return within its time budget from {}", what),
    ];
    // after a panic the decoder may be in any state: it is leaked, not dropped
    let mut dec = std::mem::ManuallyDrop::new(dec);
    let res = watched(expiry, || {
        catch_unwind(AssertUnwindSafe(move || {
            dec.feed(m, &wire[..cut])?;
            dec.feed(m, &wire[cut..])?;
            Ok::<_, FeedErr>(std::mem::ManuallyDrop::into_inner(dec).finish())
        }))
    });
    let verdict = match res {
        Err(_) => {
            so.obs.push("panic".into());
            so.violations.push(format!("C07 decoder panicked in {}", what));
            so.violations.push(format!("C01 round trip: decoder panicked in {}", what));
            return so;
        }
        Ok(Err(FeedErr::Other(e))) => return StepOut::obs(format!("feed-failed {}", e)),
        Ok(Err(FeedErr::Dec(e))) => Err(fmt_dec_err(&e)),
        Ok(Ok(Err(e))) => Err(format!("finish {}", fmt_dec_err(&e))),
        Ok(Ok(Ok(iov))) => Ok(iov),
    };
    match verdict {
        Err(e) => {
            so.obs.push(format!("zdec {} verdict=err {}", walked.summary(), e));
            so.violations.push(format!("C07 decoder rejected a well-formed chunk sequence ({} zero bytes): {}", n, e));
            so.violations.push(format!("C01 round trip of {} zero bytes rejected: {}", n, e));
        }
        Ok(iov) => {
            let pending = iov.has_pending_backrefs();
            let (mut out, mut zeros) = (0usize, true);
            match iov.iovs() {
                Ok(s) | Err(s) => {
                    for x in s {
                        out += x.len();
                        zeros &= all_zero(x);
                    }
                }
            }
            drop(iov);
            so.obs.push(format!("zdec {} verdict=ok out={} zeros={} spec=1", walked.summary(), out, zeros as u8));
            if pending {
                so.violations.push("C09 decoder output is not immediately consumable".to_string());
            }
            if out != n || !zeros {
                so.violations.push(format!(
                    "C07 decoder accepted the encoding of {} zero bytes but returned {} bytes{}",
                    n,
                    out,
                    if zeros { "" } else { ", not all zero" }
                ));
                so.violations.push(format!("C01 round trip of {} zero bytes returned {} bytes{}", n, out, if zeros { "" } else { ", not all zero" }));
            }
        }
    }
    so
}

#[cfg(test)]
mod tests {
    use super::*;
    use crate::fam_hcobs::refcodec::ref_encode;
    #[test]
    fn analytic_wire_is_the_reference_encoding() {
        for (mi, ms) in [(3usize, 5usize), (1, 1), (2, 3), (252, 300), (4, 507)] {
            let l = Limits::custom(mi, ms).unwrap();
            for n in 0..(mi + 3 * ms + 3) {
                assert_eq!(zero_wire(l, n), ref_encode(l, &vec![0u8; n]).bytes, "{} {} {}", mi, ms, n);
                let w = walk_encoding(&[&zero_wire(l, n)[..]]);
                assert!(check_encoding(l, n, &w, "t").is_empty());
            }
        }
    }
}

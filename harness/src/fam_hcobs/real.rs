//! Thin wrappers over the real `hcobs` encoder / decoder: production limits
//! through the public API, custom limits through hook H2 (`hcobs::verif`).
use super::refcodec::Limits;
use hcobs::verif::{VerifDecoder, VerifEncoder};
use hcobs::{Decoder, DecodingError, Encoder};
use owning_iovec::{ConsumingIovec, OwningIovec};
use std::io::Read;
use std::num::NonZeroUsize;

/// Input buffers of a run.  The codecs borrow them "for `'static`"; the owner
/// guarantees (field order / explicit drops) that the codec and every iovec
/// derived from it are dropped before the store.
#[derive(Default)]
pub struct BufStore(Vec<Box<[u8]>>);

impl BufStore {
    pub fn keep(&mut self, bytes: Vec<u8>) -> &'static [u8] {
        let b: Box<[u8]> = bytes.into_boxed_slice();
        // SAFETY: the heap block does not move when the box is moved into the
        // vector, and is freed only by `clear`/drop, after the borrowers.
        let s: &'static [u8] = unsafe { std::slice::from_raw_parts(b.as_ptr(), b.len()) };
        self.0.push(b);
        s
    }
    pub fn clear(&mut self) {
        self.0.clear();
    }
}

fn attempts() -> NonZeroUsize {
    NonZeroUsize::new(3).unwrap()
}

pub enum RealEnc {
    Prod(Encoder<'static>),
    Verif(VerifEncoder<'static>),
}

impl RealEnc {
    pub fn new(l: Limits) -> Option<RealEnc> {
        if l.prod {
            Some(RealEnc::Prod(Encoder::new()))
        } else {
            VerifEncoder::new_from_iovec(OwningIovec::new(), l.mi, l.ms).map(RealEnc::Verif)
        }
    }

    /// `m`: b = `encode`, c = `encode_copy`, a = `read_n` into the encoder's
    /// arena + `encode_anchored`, r = `encode_read`.
    pub fn feed(&mut self, m: &str, d: &'static [u8]) -> Result<(), String> {
        match (self, m) {
            (RealEnc::Prod(e), "b") => e.encode(d),
            (RealEnc::Prod(e), "c") => e.encode_copy(d),
            (RealEnc::Prod(e), "a") => {
                let s = e.read_n(d, d.len(), attempts()).map_err(|x| x.to_string())?;
                if s.slice() != d {
                    return Err("read_n did not deliver the source".into());
                }
                e.encode_anchored(s)
            }
            (RealEnc::Prod(e), "r") => {
                let n = e.encode_read(d, d.len(), attempts()).map_err(|x| x.to_string())?;
                if n != d.len() {
                    return Err("encode_read was short".into());
                }
            }
            // `ZeroCopySink for hcobs::Encoder`, called through a trait object (track apigaps); the hook
            // encoder does not implement the trait: same entry points as b / c
            (RealEnc::Prod(e), "S") => {
                let sink: &mut dyn owning_iovec::ZeroCopySink<'static> = e;
                sink.append_borrow(d)
            }
            (RealEnc::Prod(e), "T") => {
                let sink: &mut dyn owning_iovec::ZeroCopySink<'static> = e;
                sink.append_copy(d)
            }
            (RealEnc::Verif(e), "b") | (RealEnc::Verif(e), "S") => e.encode(d),
            (RealEnc::Verif(e), "c") | (RealEnc::Verif(e), "T") => e.encode_copy(d),
            (RealEnc::Verif(e), "a") | (RealEnc::Verif(e), "r") => {
                let s = e.read_n(d, d.len(), attempts()).map_err(|x| x.to_string())?;
                if s.slice() != d {
                    return Err("read_n did not deliver the source".into());
                }
                e.encode_anchored(s)
            }
            _ => return Err("bad method".into()),
        }
        Ok(())
    }

    pub fn consumer(&mut self) -> ConsumingIovec<'_> {
        match self {
            RealEnc::Prod(e) => e.consumer(),
            RealEnc::Verif(e) => e.consumer(),
        }
    }

    pub fn finish(self) -> OwningIovec<'static> {
        match self {
            RealEnc::Prod(e) => e.finish(),
            RealEnc::Verif(e) => e.finish(),
        }
    }
}

pub enum FeedErr {
    Dec(DecodingError),
    Other(String),
}

pub enum RealDec {
    Prod(Decoder<'static>),
    Verif(VerifDecoder<'static>),
}

impl RealDec {
    pub fn new(l: Limits) -> Option<RealDec> {
        if l.prod {
            Some(RealDec::Prod(Decoder::new()))
        } else {
            VerifDecoder::new_from_iovec(OwningIovec::new(), l.mi, l.ms).map(RealDec::Verif)
        }
    }

    /// `m`: b = `decode`, c = `decode_copy`, a = `read_n` + `decode_anchored`, r = `decode_read`.
    pub fn feed(&mut self, m: &str, d: &'static [u8]) -> Result<(), FeedErr> {
        let io = |x: std::io::Error| FeedErr::Other(x.to_string());
        match (self, m) {
            (RealDec::Prod(e), "b") => e.decode(d).map_err(FeedErr::Dec),
            (RealDec::Prod(e), "c") => e.decode_copy(d).map_err(FeedErr::Dec),
            (RealDec::Prod(e), "a") => {
                let s = e.read_n(d, d.len(), attempts()).map_err(io)?;
                if s.slice() != d {
                    return Err(FeedErr::Other("read_n did not deliver the source".into()));
                }
                e.decode_anchored(s).map_err(FeedErr::Dec)
            }
            (RealDec::Prod(e), "r") => match e.decode_read(d, d.len(), attempts()) {
                Ok(n) if n == d.len() => Ok(()),
                Ok(_) => Err(FeedErr::Other("decode_read was short".into())),
                Err(x) => match x.get_ref().and_then(|r| r.downcast_ref::<DecodingError>()) {
                    Some(de) => Err(FeedErr::Dec(*de)),
                    None => Err(FeedErr::Other(x.to_string())),
                },
            },
            (RealDec::Verif(e), "b") => e.decode(d).map_err(FeedErr::Dec),
            (RealDec::Verif(e), "c") => e.decode_copy(d).map_err(FeedErr::Dec),
            (RealDec::Verif(e), "a") | (RealDec::Verif(e), "r") => {
                let s = e.read_n(d, d.len(), attempts()).map_err(io)?;
                if s.slice() != d {
                    return Err(FeedErr::Other("read_n did not deliver the source".into()));
                }
                e.decode_anchored(s).map_err(FeedErr::Dec)
            }
            _ => Err(FeedErr::Other("bad method".into())),
        }
    }

    pub fn consumer(&mut self) -> ConsumingIovec<'_> {
        match self {
            RealDec::Prod(e) => e.consumer(),
            RealDec::Verif(e) => e.consumer(),
        }
    }

    pub fn finish(self) -> Result<OwningIovec<'static>, DecodingError> {
        match self {
            RealDec::Prod(e) => e.finish(),
            RealDec::Verif(e) => e.finish(),
        }
    }
}

pub fn fmt_dec_err(e: &DecodingError) -> String {
    match e {
        DecodingError::InvalidInitialSizeHeader(b) => format!("InvalidInitialSizeHeader {}", b),
        DecodingError::InvalidHeaderByte((second, b)) => format!("InvalidHeaderByte {} {}", *second as u8, b),
        DecodingError::InvalidSubsequentSizeHeader(n) => format!("InvalidSubsequentSizeHeader {}", n),
        DecodingError::CutShort => "CutShort".into(),
        DecodingError::MissingImplicitTerminator => "MissingImplicitTerminator".into(),
        _ => "UnknownVariant".into(),
    }
}

const FNV_OFFSET: u64 = 0xcbf2_9ce4_8422_2325;
const FNV_PRIME: u64 = 0x0000_0100_0000_01b3;

pub fn fnv(bytes: &[u8]) -> u64 {
    let mut h = FNV_OFFSET;
    for &b in bytes {
        h = (h ^ b as u64).wrapping_mul(FNV_PRIME);
    }
    h
}

/// What the consumer side shows right now.
pub struct Seen {
    pub size: usize,
    /// bytes in `stable_prefix()`
    pub rstable: usize,
    pub pending: bool,
    pub stable_hash: u64,
}

pub fn observe(c: &ConsumingIovec<'_>) -> Seen {
    let mut h = FNV_OFFSET;
    let mut n = 0usize;
    for s in c.stable_prefix() {
        for &b in s.iter() {
            h = (h ^ b as u64).wrapping_mul(FNV_PRIME);
        }
        n += s.len();
    }
    Seen { size: c.total_size(), rstable: n, pending: c.has_pending_backrefs(), stable_hash: h }
}

pub fn stable_bytes(c: &ConsumingIovec<'_>) -> Vec<u8> {
    let mut v = Vec::new();
    for s in c.stable_prefix() {
        v.extend_from_slice(s);
    }
    v
}

/// Executes one drain op; returns the bytes that left the iovec, and a
/// complaint when the consumer reported more than was visible beforehand.
pub fn drain(c: &mut ConsumingIovec<'_>, kind: &str, k: usize) -> Option<(Vec<u8>, Option<String>)> {
    match kind {
        "drain_slices" => {
            let pre: Vec<Vec<u8>> = c.stable_prefix().iter().take(k).map(|s| s.to_vec()).collect();
            let n = c.consume(k);
            let complaint = if n > pre.len() {
                Some(format!("consume({}) reported {} slices, only {} were stable", k, n, pre.len()))
            } else {
                None
            };
            Some((pre.into_iter().take(n).flatten().collect(), complaint))
        }
        "drain_bytes" => {
            let mut pre = Vec::new();
            for s in c.stable_prefix() {
                if pre.len() >= k {
                    break;
                }
                let take = (k - pre.len()).min(s.len());
                pre.extend_from_slice(&s[..take]);
            }
            let n = c.advance_slices(k);
            let complaint = if n > pre.len() {
                Some(format!("advance_slices({}) reported {} bytes, only {} were stable", k, n, pre.len()))
            } else {
                None
            };
            pre.truncate(n);
            Some((pre, complaint))
        }
        "drain_read" => {
            let mut buf = vec![0u8; k.min(c.total_size() + 8)];
            let n = c.read(&mut buf).unwrap_or(0);
            buf.truncate(n);
            Some((buf, None))
        }
        _ => None,
    }
}

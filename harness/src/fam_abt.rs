//! Family `abt`: `vouched_time::AtomicBaseTime` (C13, C18) through hook H3.
//!
//! No real threads.  `snapshot` / `update` / `try_update` have no effects except
//! through the shimmed atomics and mutex, so a simulated thread's program is a
//! deterministic function of the results it is fed: "the next operation of
//! thread t" is obtained by re-running the real function from the start against
//! a backend that replays t's results so far and unwinds (private payload,
//! caught) at the first operation past the script.
//!
//! Ops (see lean/Woodpile/Driver/Abt.lean for the model side):
//!   trace <snapshot|unlocked> <script> | trace <update|try_update> <b> <voucher> <script>
//!   trace sequence <script>                          (`AtomicBaseTime::sequence()`: one relaxed load of the counter)
//!   machine <sc|ra> ; start <t> <op…> ; step <t> <ts> ; sync <t> <u>     (op may be `sequence`)
//!   new_default                                      (`AtomicBaseTime::new()` vs `Default::default()`: words, mutex, sequence(), snapshot())
//!   explore <sc|ra> <maxstates> <prog>/<prog>/…     (oracle only; prog = s | q | u<b> | t<b> | x<b> | y<b>, comma separated; q = sequence())
use crate::util::*;
use std::cell::RefCell;
use std::collections::{HashMap, HashSet};
use std::panic::{catch_unwind, resume_unwind, AssertUnwindSafe};
use std::rc::Rc;
use std::sync::atomic::Ordering;
use vouched_time::verif_shim::{set_backend, Backend, LockOutcome};
use vouched_time::AtomicBaseTime;

// plain sequential calls without the stepping backend, also made while unwinding (track traits)
mod seq;

const VOUCH_PARAMS: raffle::VouchingParameters = raffle::VouchingParameters::parse_or_die(
    "VOUCH-773ec2a0e62c20cd-f9e079b78e895091-fc1da7b1b77c57cb-594b9cce3091464a",
);

fn vouch_bits(x: u64) -> u64 {
    // raffle::Voucher is #[repr(transparent)] over u64 (the crate under test relies on the same size).
    unsafe { std::mem::transmute::<raffle::Voucher, u64>(VOUCH_PARAMS.vouch(x)) }
}

/// Base times whose VOUCHER WORD is a special bit pattern (0, all ones, 1, 2^63, equal to the base
/// time itself is not solvable in general): `vouch` is affine in the value with an odd
/// multiplier, `vouch(x) = (x + offset) * m (mod 2^64)`, so `x = target * m^-1 - offset`.
/// A reader that treats some voucher pattern as "not published yet / invalid" shows only there.
fn special_bases() -> Vec<u64> {
    let v0 = vouch_bits(0);
    let m = vouch_bits(1).wrapping_sub(v0);
    if m & 1 == 0 {
        return vec![];
    }
    // Newton iteration for the inverse of an odd number modulo 2^64
    let mut inv = m;
    for _ in 0..6 {
        inv = inv.wrapping_mul(2u64.wrapping_sub(m.wrapping_mul(inv)));
    }
    let offset = v0.wrapping_mul(inv);
    let mut out = Vec::new();
    for target in [0u64, u64::MAX, 1, 1 << 63] {
        let x = target.wrapping_mul(inv).wrapping_sub(offset);
        if vouch_bits(x) == target {
            out.push(x);
        }
    }
    out
}

fn voucher_of_bits(bits: u64) -> raffle::Voucher {
    unsafe { std::mem::transmute::<u64, raffle::Voucher>(bits) }
}

// ---------------------------------------------------------------- values on the wire

thread_local! {
    /// voucher bits -> the base time they vouch for (every `v<x>` seen so far, and 0..=64)
    static VTABLE: RefCell<HashMap<u64, u64>> = RefCell::new((0..=64u64).map(|x| (vouch_bits(x), x)).collect());
}

fn parse_val(s: &str) -> Option<u64> {
    if let Some(x) = s.strip_prefix('v') {
        let x: u64 = x.parse().ok()?;
        let bits = vouch_bits(x);
        VTABLE.with(|t| t.borrow_mut().insert(bits, x));
        Some(bits)
    } else {
        s.parse().ok()
    }
}

/// Values of the base-time and sequence words are plain numbers; only the voucher words (locations
/// v0 = 2, v1 = 4) are shown symbolically.  (A base time can coincide numerically with the voucher
/// of another base time - e.g. 0 is the voucher of `special_bases()[0]`.)
fn fmt_loc_val(l: usize, v: u64) -> String {
    if l == 2 || l == 4 { fmt_val(v) } else { v.to_string() }
}

fn fmt_val(v: u64) -> String {
    match VTABLE.with(|t| t.borrow().get(&v).copied()) {
        Some(x) => format!("v{}", x),
        None => v.to_string(),
    }
}

// ---------------------------------------------------------------- locations, operations

const LOC_NAMES: [&str; 5] = ["seq", "b0", "v0", "b1", "v1"];
const SEQ: usize = 0;
type View = [usize; 5];

fn ord_name(o: Ordering) -> &'static str {
    match o {
        Ordering::Relaxed => "rlx",
        Ordering::Acquire => "acq",
        Ordering::Release => "rel",
        Ordering::AcqRel => "acqrel",
        Ordering::SeqCst => "seqcst",
        _ => "other",
    }
}

#[derive(Clone, Copy, PartialEq, Eq, Hash, Debug)]
enum Od {
    Rlx,
    Acq,
    Rel,
    AcqRel,
    SeqCst,
}

impl Od {
    fn of(o: Ordering) -> Od {
        match o {
            Ordering::Relaxed => Od::Rlx,
            Ordering::Acquire => Od::Acq,
            Ordering::Release => Od::Rel,
            Ordering::AcqRel => Od::AcqRel,
            _ => Od::SeqCst,
        }
    }
    fn name(self) -> &'static str {
        ord_name(match self {
            Od::Rlx => Ordering::Relaxed,
            Od::Acq => Ordering::Acquire,
            Od::Rel => Ordering::Release,
            Od::AcqRel => Ordering::AcqRel,
            Od::SeqCst => Ordering::SeqCst,
        })
    }
    fn acquires(self) -> bool {
        matches!(self, Od::Acq | Od::AcqRel | Od::SeqCst)
    }
    fn releases(self) -> bool {
        matches!(self, Od::Rel | Od::AcqRel | Od::SeqCst)
    }
}

#[derive(Clone, PartialEq, Eq, Hash, Debug)]
enum OpRec {
    Load(usize, Od),
    Store(usize, Od, u64),
    Lock,
    TryLock,
    Unlock(bool),
    ClearPoison,
    /// an access to an object that is not one of the six known ones
    Foreign(&'static str),
}

impl OpRec {
    fn needs_result(&self) -> bool {
        matches!(self, OpRec::Load(..) | OpRec::Lock | OpRec::TryLock)
    }
    fn is_lock_op(&self) -> bool {
        matches!(self, OpRec::Lock | OpRec::TryLock | OpRec::Unlock(_) | OpRec::ClearPoison)
    }
    fn fmt(&self) -> String {
        match self {
            OpRec::Load(l, o) => format!("ld.{}.{}", LOC_NAMES[*l], o.name()),
            OpRec::Store(l, o, v) => format!("st.{}.{}={}", LOC_NAMES[*l], o.name(), fmt_loc_val(*l, *v)),
            OpRec::Lock => "lock".into(),
            OpRec::TryLock => "trylock".into(),
            OpRec::Unlock(p) => format!("unlock.{}", *p as u8),
            OpRec::ClearPoison => "clearpoison".into(),
            OpRec::Foreign(k) => format!("foreign.{}", k),
        }
    }
}

#[derive(Clone, Copy, PartialEq, Eq, Hash, Debug)]
enum Lk {
    Ok,
    Poisoned,
    WouldBlock,
}

impl Lk {
    fn name(self) -> &'static str {
        match self {
            Lk::Ok => "ok",
            Lk::Poisoned => "poisoned",
            Lk::WouldBlock => "wouldblock",
        }
    }
    fn outcome(self) -> LockOutcome {
        match self {
            Lk::Ok => LockOutcome::Acquired,
            Lk::Poisoned => LockOutcome::Poisoned,
            Lk::WouldBlock => LockOutcome::WouldBlock,
        }
    }
}

#[derive(Clone, Copy, PartialEq, Eq, Hash, Debug)]
enum Fed {
    Val(u64),
    /// voucher bits given as `v<x>` in a trace script (only ever fed to loads of a voucher
    /// word: the model does not know their parity or order)
    Vch(u64),
    Lk(Lk),
    Unit,
}

fn parse_fed(s: &str) -> Option<Fed> {
    match s {
        "ok" => Some(Fed::Lk(Lk::Ok)),
        "poisoned" => Some(Fed::Lk(Lk::Poisoned)),
        "wouldblock" => Some(Fed::Lk(Lk::WouldBlock)),
        _ if s.starts_with('v') => parse_val(s).map(Fed::Vch),
        _ => parse_val(s).map(Fed::Val),
    }
}

fn fmt_fed(f: Fed) -> String {
    match f {
        Fed::Val(v) => v.to_string(),
        Fed::Vch(v) => fmt_val(v),
        Fed::Lk(l) => l.name().into(),
        Fed::Unit => String::new(),
    }
}

fn fmt_op_fed(op: &OpRec, fed: Fed) -> String {
    match fed {
        Fed::Unit => op.fmt(),
        _ => format!("{}={}", op.fmt(), fmt_fed(fed)),
    }
}

// ---------------------------------------------------------------- object under test

/// address -> name, from the `#[derive(Debug)]` output of the real structure
/// (the shim prints object identities while a backend is registered).
struct LocMap {
    atomics: HashMap<usize, usize>,
    mutex: usize,
}

struct NullBackend;
impl Backend for NullBackend {
    fn load(&mut self, _: usize, _: Ordering, initial: u64) -> u64 {
        initial
    }
    fn store(&mut self, _: usize, _: Ordering, _: u64, _: u64) {}
    fn lock(&mut self, _: usize) -> LockOutcome {
        LockOutcome::Acquired
    }
    fn try_lock(&mut self, _: usize) -> LockOutcome {
        LockOutcome::Acquired
    }
    fn unlock(&mut self, _: usize, _: bool) {}
    fn clear_poison(&mut self, _: usize) {}
}

fn calibrate(obj: &AtomicBaseTime) -> LocMap {
    let prev = set_backend(Some(Box::new(NullBackend)));
    let text = format!("{:?}", obj);
    set_backend(prev);
    // AtomicBaseTime { lock: shimmutex@A, sequence: shim@B, snapshots: [BaseTime { base_time_ms: shim@C,
    //   voucher: shim@D }, BaseTime { base_time_ms: shim@E, voucher: shim@F }] }
    fn addr_after(text: &str, key: &str, from: usize) -> (usize, usize) {
        let at = text[from..].find(key).unwrap_or_else(|| panic!("abt: field {} not found in {:?}", key, text)) + from;
        let rest = &text[at + key.len()..];
        let rest = rest.trim_start();
        let rest = rest.strip_prefix("shimmutex@").or_else(|| rest.strip_prefix("shim@"))
            .unwrap_or_else(|| panic!("abt: no shim identity after {} in {:?}", key, text));
        let digits: String = rest.chars().take_while(|c| c.is_ascii_digit()).collect();
        (digits.parse().expect("address"), at + key.len())
    }
    let (mutex, _) = addr_after(&text, "lock:", 0);
    let (seq, p) = addr_after(&text, "sequence:", 0);
    let (b0, p) = addr_after(&text, "base_time_ms:", p);
    let (v0, p) = addr_after(&text, "voucher:", p);
    let (b1, p) = addr_after(&text, "base_time_ms:", p);
    let (v1, _) = addr_after(&text, "voucher:", p);
    let mut atomics = HashMap::new();
    for (i, a) in [seq, b0, v0, b1, v1].into_iter().enumerate() {
        atomics.insert(a, i);
    }
    assert_eq!(atomics.len(), 5, "abt: field addresses are not distinct: {}", text);
    LocMap { atomics, mutex }
}

struct Obj {
    local: Box<AtomicBaseTime>,
    local_map: Rc<LocMap>,
    static_map: Rc<LocMap>,
}

/// Track apileft: every second object under test is built through `Default::default()` instead of
/// `AtomicBaseTime::new()` (the model has one `init`): a `default()` that differs from `new()`
/// shows up as initial words / a first `sequence` load that disagree with the model.
static OBJ_COUNTER: std::sync::atomic::AtomicUsize = std::sync::atomic::AtomicUsize::new(0);

fn build_cell(via_default: bool) -> AtomicBaseTime {
    if via_default { Default::default() } else { AtomicBaseTime::new() }
}

impl Obj {
    fn new() -> Obj {
        let n = OBJ_COUNTER.fetch_add(1, Ordering::Relaxed);
        let local = Box::new(build_cell(n % 2 == 1));
        let local_map = Rc::new(calibrate(&local));
        let static_map = Rc::new(calibrate(vouched_time::nfs_voucher::verif_base_time()));
        Obj { local, local_map, static_map }
    }
}

#[derive(Clone, Copy, PartialEq, Eq, Hash, Debug)]
enum Call {
    Snapshot,
    Unlocked,
    Update(u64, u64),
    TryUpdate(u64, u64),
    /// `AtomicBaseTime::sequence()`
    Sequence,
}

#[derive(Clone, Copy, PartialEq, Eq, Hash, Debug)]
enum Ret {
    Snap(u64, u64),
    Bool(bool),
    Unit,
    /// what `sequence()` returned
    Seq(u64),
}

fn fmt_ret(r: Ret) -> String {
    match r {
        Ret::Snap(b, v) => format!("ret={},{}", b, fmt_val(v)),
        Ret::Bool(b) => format!("ret={}", b),
        Ret::Unit => "ret".into(),
        Ret::Seq(n) => format!("ret={}", n),
    }
}

fn parse_call<'a>(w: &'a [&'a str]) -> Option<(Call, &'a [&'a str])> {
    match w {
        ["snapshot", rest @ ..] => Some((Call::Snapshot, rest)),
        ["unlocked", rest @ ..] => Some((Call::Unlocked, rest)),
        ["sequence", rest @ ..] => Some((Call::Sequence, rest)),
        ["update", b, v, rest @ ..] => Some((Call::Update(b.parse().ok()?, parse_val(v)?), rest)),
        ["try_update", b, v, rest @ ..] => Some((Call::TryUpdate(b.parse().ok()?, parse_val(v)?), rest)),
        _ => None,
    }
}

fn fmt_call(c: Call) -> String {
    match c {
        Call::Snapshot => "snapshot".into(),
        Call::Unlocked => "unlocked".into(),
        Call::Sequence => "sequence".into(),
        Call::Update(b, v) => format!("update {} {}", b, fmt_val(v)),
        Call::TryUpdate(b, v) => format!("try_update {} {}", b, fmt_val(v)),
    }
}

// ---------------------------------------------------------------- replay backend

struct StopToken;

struct Replay {
    map: Rc<LocMap>,
    feed: Vec<Fed>,
    /// trace mode: operations without a result do not consume a script entry
    auto_unit: bool,
    pos: usize,
    trace: Vec<(OpRec, Fed)>,
    pending: Option<OpRec>,
    bad: bool,
    stopped: bool,
    initials: [Option<u64>; 5],
}

impl Replay {
    fn new(map: Rc<LocMap>, feed: Vec<Fed>, auto_unit: bool) -> Replay {
        Replay { map, feed, auto_unit, pos: 0, trace: Vec::new(), pending: None, bad: false, stopped: false, initials: [None; 5] }
    }

    fn stop(&mut self, op: OpRec, bad: bool) {
        self.pending = Some(op);
        self.bad = bad;
        self.stopped = true;
        // A guard dropped while the real code is already unwinding (failed assert) must not unwind again.
        if !std::thread::panicking() {
            resume_unwind(Box::new(StopToken));
        }
    }

    fn on_op(&mut self, op: OpRec) -> Fed {
        if self.stopped {
            return Fed::Unit;
        }
        if matches!(op, OpRec::Foreign(_)) {
            self.stop(op, true);
            return Fed::Unit;
        }
        if self.auto_unit && !op.needs_result() {
            self.trace.push((op, Fed::Unit));
            return Fed::Unit;
        }
        if self.pos >= self.feed.len() {
            self.stop(op, false);
            return Fed::Unit;
        }
        let fed = self.feed[self.pos];
        let well_typed = match (&op, fed) {
            (OpRec::Load(..), Fed::Val(_)) => true,
            (OpRec::Load(l, _), Fed::Vch(_)) => *l == 2 || *l == 4,
            (OpRec::Lock, Fed::Lk(l)) => l != Lk::WouldBlock,
            (OpRec::TryLock, Fed::Lk(_)) => true,
            (o, Fed::Unit) => !o.needs_result(),
            _ => false,
        };
        if !well_typed {
            self.stop(op, true);
            return Fed::Unit;
        }
        self.pos += 1;
        self.trace.push((op, fed));
        fed
    }

    fn atomic(&mut self, obj: usize, initial: u64) -> Option<usize> {
        let l = self.map.atomics.get(&obj).copied();
        if let Some(l) = l {
            self.initials[l].get_or_insert(initial);
        }
        l
    }
}

struct Proxy(Rc<RefCell<Replay>>);

impl Backend for Proxy {
    fn load(&mut self, obj: usize, ord: Ordering, initial: u64) -> u64 {
        let mut r = self.0.borrow_mut();
        let op = match r.atomic(obj, initial) {
            Some(l) => OpRec::Load(l, Od::of(ord)),
            None => OpRec::Foreign("load"),
        };
        match r.on_op(op) {
            Fed::Val(v) | Fed::Vch(v) => v,
            _ => 0,
        }
    }
    fn store(&mut self, obj: usize, ord: Ordering, val: u64, initial: u64) {
        let mut r = self.0.borrow_mut();
        let op = match r.atomic(obj, initial) {
            Some(l) => OpRec::Store(l, Od::of(ord), val),
            None => OpRec::Foreign("store"),
        };
        r.on_op(op);
    }
    fn lock(&mut self, obj: usize) -> LockOutcome {
        let mut r = self.0.borrow_mut();
        let op = if obj == r.map.mutex { OpRec::Lock } else { OpRec::Foreign("lock") };
        match r.on_op(op) {
            Fed::Lk(l) => l.outcome(),
            _ => LockOutcome::Acquired,
        }
    }
    fn try_lock(&mut self, obj: usize) -> LockOutcome {
        let mut r = self.0.borrow_mut();
        let op = if obj == r.map.mutex { OpRec::TryLock } else { OpRec::Foreign("trylock") };
        match r.on_op(op) {
            Fed::Lk(l) => l.outcome(),
            _ => LockOutcome::Acquired,
        }
    }
    fn unlock(&mut self, obj: usize, poison: bool) {
        let mut r = self.0.borrow_mut();
        let op = if obj == r.map.mutex { OpRec::Unlock(poison) } else { OpRec::Foreign("unlock") };
        r.on_op(op);
    }
    fn clear_poison(&mut self, obj: usize) {
        let mut r = self.0.borrow_mut();
        let op = if obj == r.map.mutex { OpRec::ClearPoison } else { OpRec::Foreign("clearpoison") };
        r.on_op(op);
    }
}

enum Outcome {
    Finished(Ret),
    Panicked,
    /// stopped at `pending` (the script ran out, or - `bad` - the fed result has the wrong type)
    Stopped,
}

/// Runs the real function against a replay of `feed`.
fn drive(obj: &Obj, call: Call, feed: Vec<Fed>, auto_unit: bool) -> (Outcome, Replay) {
    let (target, map): (&AtomicBaseTime, Rc<LocMap>) = match call {
        Call::Unlocked => (vouched_time::nfs_voucher::verif_base_time(), obj.static_map.clone()),
        _ => (&*obj.local, obj.local_map.clone()),
    };
    let replay = Rc::new(RefCell::new(Replay::new(map, feed, auto_unit)));
    let prev = set_backend(Some(Box::new(Proxy(replay.clone()))));
    let res = catch_unwind(AssertUnwindSafe(|| match call {
        Call::Snapshot => {
            let (b, v) = target.snapshot();
            Ret::Snap(b, unsafe { std::mem::transmute::<raffle::Voucher, u64>(v) })
        }
        Call::Unlocked => {
            let (b, v) = vouched_time::nfs_voucher::get_base_time_unlocked(time::OffsetDateTime::UNIX_EPOCH)
                .expect("get_base_time_unlocked never fails");
            Ret::Snap(b, unsafe { std::mem::transmute::<raffle::Voucher, u64>(v) })
        }
        Call::Update(b, v) => {
            target.update((b, voucher_of_bits(v)));
            Ret::Unit
        }
        Call::TryUpdate(b, v) => Ret::Bool(target.try_update((b, voucher_of_bits(v)))),
        Call::Sequence => Ret::Seq(target.sequence()),
    }));
    drop(set_backend(prev));
    let replay = Rc::try_unwrap(replay).ok().expect("backend dropped").into_inner();
    let outcome = match res {
        Ok(r) => Outcome::Finished(r),
        Err(_) if replay.pending.is_some() => Outcome::Stopped,
        Err(_) => Outcome::Panicked,
    };
    (outcome, replay)
}

/// Trace validation: what the real function does when fed `script`.
fn trace_line(obj: &Obj, call: Call, script: Vec<Fed>) -> (String, &'static str) {
    let (outcome, replay) = drive(obj, call, script, true);
    let mut parts: Vec<String> = replay.trace.iter().map(|(op, fed)| fmt_op_fed(op, *fed)).collect();
    let tag = match outcome {
        Outcome::Finished(r) => {
            parts.push(fmt_ret(r));
            "finished"
        }
        Outcome::Panicked => {
            parts.push("panic".into());
            "panicked"
        }
        Outcome::Stopped => {
            let op = replay.pending.as_ref().unwrap();
            if replay.bad {
                parts.push(format!("bad-script:{}", op.fmt()));
                "bad_script"
            } else {
                parts.push(format!("want:{}", op.fmt()));
                "want"
            }
        }
    };
    (parts.join(";"), tag)
}

// ---------------------------------------------------------------- the harness's own RA / SC simulator

#[derive(Clone, PartialEq, Eq, Hash, Debug)]
enum Status {
    Idle,
    Running,
    Finished(Ret),
    Panicked,
}

#[derive(Clone, PartialEq, Eq, Hash)]
struct SimThread {
    view: View,
    call: Option<Call>,
    fed: Vec<Fed>,
    pending: Option<OpRec>,
    status: Status,
    // shadow state for the direct oracle
    own_steps: usize,
    lock_ops: usize,
    stores: usize,
    start_seen: Option<usize>, // what the thread knew of `sequence` when the snapshot began
    last_seq_read: Option<u64>,
    last_snap_base: Option<u64>,
    /// the largest base time of a valid update call that RETURNED (accepted or ignored; `try_update`
    /// only when it answered true) in this thread or in a thread it synchronised with since
    floor: u64,
    /// that floor (SC: over all threads) when the current snapshot began
    floor_at_start: u64,
    /// (track apileft) the largest value of `sequence` this thread has loaded or stored in any call so
    /// far, or inherited through `sync`: by coherence no later load of the counter by this thread may
    /// return less - in particular no later `sequence()`
    seq_floor: u64,
    /// what this thread's previous `sequence()` returned
    last_sequence: Option<u64>,
    /// the values of `sequence` loaded by the call in progress
    seq_reads: Vec<u64>,
    /// `seq_floor` when the call in progress began
    seq_floor_at_start: u64,
    /// the number of accepted updates published when the call in progress began
    published_at_start: u64,
}

impl SimThread {
    fn new() -> SimThread {
        SimThread { view: [0; 5], call: None, fed: vec![], pending: None, status: Status::Idle, own_steps: 0, lock_ops: 0,
                    stores: 0, start_seen: None, last_seq_read: None, last_snap_base: None, floor: 0, floor_at_start: 0,
                    seq_floor: 0, last_sequence: None, seq_reads: vec![], seq_floor_at_start: 0, published_at_start: 0 }
    }
}

#[derive(Clone, PartialEq, Eq, Hash)]
struct Sim {
    sc: bool,
    mem: [Vec<(u64, View)>; 5],
    held: Option<usize>,
    poisoned: bool,
    mview: View,
    threads: Vec<SimThread>,
    /// shadow: the pairs whose `sequence` store happened, in order, after the epoch pair
    committed: Vec<(u64, u64)>,
    /// shadow (SC machine): the largest base time of a valid update call that has returned
    sc_floor: u64,
}

fn join(a: &View, b: &View) -> View {
    let mut r = *a;
    for i in 0..5 {
        r[i] = r[i].max(b[i]);
    }
    r
}

fn fmt_view(v: &View) -> String {
    v.iter().map(|x| x.to_string()).collect::<Vec<_>>().join(",")
}

struct StepOutcome {
    desc: String,
    violations: Vec<String>,
}

impl Sim {
    fn new(sc: bool) -> Sim {
        Sim { sc, mem: Default::default(), held: None, poisoned: false, mview: [0; 5], threads: vec![],
              committed: vec![(0, vouch_bits(0))], sc_floor: 0 }
    }

    fn thread(&mut self, t: usize) -> &mut SimThread {
        while self.threads.len() <= t {
            self.threads.push(SimThread::new());
        }
        &mut self.threads[t]
    }

    /// Re-runs thread `t`'s current call against its results so far to learn what it does next.
    fn refresh(&mut self, t: usize, obj: &Obj, viol: &mut Vec<String>) {
        let th = &self.threads[t];
        let call = th.call.expect("running thread has a call");
        let (outcome, replay) = drive(obj, call, th.fed.clone(), false);
        for l in 0..5 {
            if self.mem[l].is_empty() {
                if let Some(v) = replay.initials[l] {
                    self.mem[l].push((v, [0; 5]));
                }
            }
        }
        let th = &mut self.threads[t];
        match outcome {
            Outcome::Finished(r) => {
                th.status = Status::Finished(r);
                th.pending = None;
            }
            Outcome::Panicked => {
                th.status = Status::Panicked;
                th.pending = None;
                if call == Call::Snapshot {
                    viol.push("C13 snapshot panicked".into());
                }
            }
            Outcome::Stopped => {
                let op = replay.pending.clone().unwrap();
                if call == Call::Snapshot && op.is_lock_op() {
                    viol.push(format!("C18 snapshot performs a lock operation ({})", op.fmt()));
                }
                if call == Call::Snapshot && matches!(op, OpRec::Store(..)) {
                    viol.push(format!("C13 snapshot writes ({})", op.fmt()));
                }
                if call == Call::Sequence && (op.is_lock_op() || matches!(op, OpRec::Store(..))) {
                    viol.push(format!("C18 sequence() performs a lock operation or a store ({})", op.fmt()));
                }
                // (the model's program is ONE load - an extra load is a correspondence mismatch; the
                // property itself only says: no waiting, a small constant number of own steps)
                if call == Call::Sequence && th.own_steps >= 4 {
                    viol.push(format!("C18 sequence() is not finished after {} accesses (wants {})", th.own_steps, op.fmt()));
                }
                if matches!(call, Call::TryUpdate(..)) && op == OpRec::Lock {
                    viol.push("C18 try_update calls the blocking lock()".into());
                }
                if replay.bad {
                    viol.push(format!("C13 access to an unknown object ({})", op.fmt()));
                }
                th.pending = Some(op);
            }
        }
    }

    fn start(&mut self, t: usize, call: Call, obj: &Obj, viol: &mut Vec<String>) -> bool {
        let th = self.thread(t);
        if th.status == Status::Running {
            return false;
        }
        th.call = Some(call);
        th.fed.clear();
        th.status = Status::Running;
        th.own_steps = 0;
        th.lock_ops = 0;
        th.stores = 0;
        th.start_seen = None;
        th.last_seq_read = None;
        th.seq_reads.clear();
        th.seq_floor_at_start = th.seq_floor;
        th.floor_at_start = th.floor;
        if self.sc {
            let f = self.sc_floor;
            let th = self.thread(t);
            th.floor_at_start = th.floor_at_start.max(f);
        }
        let published = (self.committed.len() - 1) as u64;
        self.thread(t).published_at_start = published;
        self.refresh(t, obj, viol);
        true
    }

    fn sync(&mut self, t: usize, u: usize) {
        let uv = self.thread(u).view;
        let uf = self.thread(u).floor;
        let usf = self.thread(u).seq_floor;
        let th = self.thread(t);
        th.view = join(&th.view, &uv);
        th.floor = th.floor.max(uf);
        th.seq_floor = th.seq_floor.max(usf);
    }

    /// The choices a scheduler has for thread `t`: `None` = not runnable now.
    fn choices(&self, t: usize) -> Option<Vec<usize>> {
        let th = self.threads.get(t)?;
        if th.status != Status::Running {
            return None;
        }
        match th.pending.as_ref()? {
            OpRec::Load(l, _) => {
                let len = self.mem[*l].len();
                if self.sc { Some(vec![len - 1]) } else { Some((th.view[*l]..len).collect()) }
            }
            OpRec::Lock => if self.held.is_some() { None } else { Some(vec![0]) },
            OpRec::Foreign(_) => None,
            _ => Some(vec![0]),
        }
    }

    fn step(&mut self, t: usize, choice: usize, obj: &Obj) -> StepOutcome {
        let mut viol = Vec::new();
        let sc = self.sc;
        if self.threads.len() <= t || self.threads[t].status != Status::Running {
            return StepOutcome { desc: "disabled".into(), violations: viol };
        }
        let op = self.threads[t].pending.clone().expect("running thread has a pending op");
        let call = self.threads[t].call.unwrap();
        let n_before = self.mem[SEQ].len().saturating_sub(1);
        let mut desc;
        match &op {
            OpRec::Load(l, o) => {
                let len = self.mem[*l].len();
                let ts = if sc { len - 1 } else { choice };
                let lo = self.threads[t].view[*l];
                if ts < lo || ts >= len {
                    return StepOutcome { desc: "disabled".into(), violations: viol };
                }
                let (val, mview) = self.mem[*l][ts];
                let th = &mut self.threads[t];
                if th.start_seen.is_none() {
                    // SC: the number of updates published when the call performs its first access;
                    // RA: what the thread already knew of `sequence`.
                    th.start_seen = Some(if sc { n_before } else { th.view[SEQ] });
                }
                th.view[*l] = ts;
                if o.acquires() {
                    th.view = join(&th.view, &mview);
                }
                th.fed.push(Fed::Val(val));
                if *l == SEQ {
                    th.seq_reads.push(val);
                    th.seq_floor = th.seq_floor.max(val);
                }
                if *l == SEQ && call == Call::Snapshot {
                    if let Some(prev) = th.last_seq_read {
                        if val < prev {
                            viol.push(format!("C13 sequence went backwards for one reader ({} after {})", val, prev));
                        }
                    }
                    th.last_seq_read = Some(val);
                }
                desc = if sc { format!("{}={}", op.fmt(), fmt_loc_val(*l, val)) }
                       else { format!("{}@{}[{}..{}]={}", op.fmt(), ts, lo, len - 1, fmt_loc_val(*l, val)) };
            }
            OpRec::Store(l, o, val) => {
                let ts = self.mem[*l].len();
                if self.held != Some(t) {
                    viol.push(format!("C13 store without the writer lock ({})", op.fmt()));
                }
                let th = &mut self.threads[t];
                th.view[*l] = ts;
                let mv = if o.releases() { th.view } else { let mut b = [0; 5]; b[*l] = ts; b };
                th.fed.push(Fed::Unit);
                th.stores += 1;
                if *l == SEQ {
                    th.seq_floor = th.seq_floor.max(*val);
                }
                self.mem[*l].push((*val, mv));
                if *l == SEQ {
                    let pair = match call {
                        Call::Update(b, v) | Call::TryUpdate(b, v) => (b, v),
                        _ => (u64::MAX, 0),
                    };
                    if *val != ts as u64 {
                        viol.push(format!("C13 sequence store of {} is not the successor of {}", val, ts - 1));
                    }
                    let last = *self.committed.last().unwrap();
                    if pair.0 < last.0 {
                        viol.push(format!("C13 stale update accepted: base {} published after {}", pair.0, last.0));
                    }
                    if vouch_bits(pair.0) != pair.1 {
                        viol.push(format!("C13 invalid pair published ({},{})", pair.0, fmt_val(pair.1)));
                    }
                    // the stable slot must hold the pair being published
                    let odd = (*val % 2) as usize;
                    let (bl, vl) = (1 + 2 * odd, 2 + 2 * odd);
                    let got = (self.mem[bl].last().map(|m| m.0), self.mem[vl].last().map(|m| m.0));
                    if got != (Some(pair.0), Some(pair.1)) {
                        viol.push(format!("C13 sequence {} published but its slot does not hold the update's pair", val));
                    }
                    self.committed.push(pair);
                }
                desc = if sc { op.fmt() } else { format!("{}@{}", op.fmt(), ts) };
            }
            OpRec::Lock | OpRec::TryLock => {
                let is_try = op == OpRec::TryLock;
                if self.held.is_some() && !is_try {
                    return StepOutcome { desc: "blocked".into(), violations: viol };
                }
                let res = if self.held.is_some() { Lk::WouldBlock } else if self.poisoned { Lk::Poisoned } else { Lk::Ok };
                if res != Lk::WouldBlock {
                    self.held = Some(t);
                    let mv = self.mview;
                    let th = &mut self.threads[t];
                    th.view = join(&th.view, &mv);
                }
                self.threads[t].fed.push(Fed::Lk(res));
                desc = format!("{}={}", op.fmt(), res.name());
            }
            OpRec::Unlock(p) => {
                if self.held != Some(t) {
                    viol.push("C13 guard dropped by a thread that does not hold the lock".into());
                }
                self.held = None;
                self.poisoned |= *p;
                self.mview = join(&self.mview, &self.threads[t].view);
                self.threads[t].fed.push(Fed::Unit);
                desc = op.fmt();
            }
            OpRec::ClearPoison => {
                self.poisoned = false;
                self.threads[t].fed.push(Fed::Unit);
                desc = op.fmt();
            }
            OpRec::Foreign(_) => {
                return StepOutcome { desc: "foreign".into(), violations: viol };
            }
        }
        {
            let th = &mut self.threads[t];
            th.own_steps += 1;
            if op.is_lock_op() {
                th.lock_ops += 1;
            }
        }
        let was_blocked_try = op == OpRec::TryLock && self.threads[t].fed.last() == Some(&Fed::Lk(Lk::WouldBlock));
        self.refresh(t, obj, &mut viol);
        let mut new_floor: Option<u64> = None;
        let th = &mut self.threads[t];
        match th.status.clone() {
            Status::Finished(r) => {
                let r_shown = r;
                desc.push(';');
                desc.push_str(&fmt_ret(r_shown));
                if let (Call::Snapshot, Ret::Snap(b, v)) = (call, r) {
                    // C13: the pair is one published as a unit (or the epoch pair) ...
                    if !self.committed.contains(&(b, v)) {
                        viol.push(format!("C13 torn or unknown snapshot ({},{})", b, fmt_val(v)));
                    }
                    // ... at least as recent as everything the reader had seen published when it began ...
                    if let Some(seen) = th.start_seen {
                        if let Some(old) = self.committed.get(seen) {
                            if b < old.0 {
                                viol.push(format!("C13 snapshot base {} older than update #{} (base {}) that completed before it began", b, seen, old.0));
                            }
                        }
                        // C18: own steps bounded by 4 * (1 + sequence messages published that it had not seen)
                        let n_now = self.mem[SEQ].len().saturating_sub(1);
                        let bound = 4 * (1 + n_now.saturating_sub(seen));
                        if th.own_steps > bound {
                            viol.push(format!("C18 snapshot needed {} of its own steps (bound {})", th.own_steps, bound));
                        }
                    }
                    // ... and never older than this thread's previous snapshot.
                    if let Some(prev) = th.last_snap_base {
                        if b < prev {
                            viol.push(format!("C13 snapshot base decreased within one thread ({} after {})", b, prev));
                        }
                    }
                    th.last_snap_base = Some(b);
                    // ... nor than a valid update call that had RETURNED before it began (in this
                    // thread, in a thread it synchronised with, or - SC - anywhere): accepted or
                    // ignored, the update leaves the current base time at least as recent as its own
                    if b < th.floor_at_start {
                        viol.push(format!("C13 snapshot base {} older than an update call (base {}) that returned before it began", b, th.floor_at_start));
                    }
                    if th.lock_ops > 0 || th.stores > 0 {
                        viol.push("C18 snapshot used the lock or wrote".into());
                    }
                }
                if call == Call::Sequence {
                    // (track apileft) C13/C18 for `sequence()`: one load of the counter, nothing else; the
                    // value returned is one it loaded from the counter: never below anything this thread has
                    // seen of the counter (its own earlier sequence() / snapshot() / update calls, threads it
                    // synchronised with), never above the number of accepted updates published so far,
                    // and - SC - at least the number published when the call began.
                    let published = (self.committed.len() - 1) as u64;
                    match r {
                        Ret::Seq(n) => {
                            if th.lock_ops > 0 || th.stores > 0 {
                                viol.push(format!("C18 sequence() used the lock or wrote ({} steps, last {})", th.own_steps, op.fmt()));
                            }
                            if !th.seq_reads.contains(&n) {
                                viol.push(format!("C13 sequence() returned {} but the values of the counter it loaded are {:?}", n, th.seq_reads));
                            }
                            if n < th.seq_floor_at_start {
                                viol.push(format!("C13 sequence() returned {} after this thread had already observed {}", n, th.seq_floor_at_start));
                            }
                            if let Some(prev) = th.last_sequence {
                                if n < prev {
                                    viol.push(format!("C13 sequence() decreased within one thread ({} after {})", n, prev));
                                }
                            }
                            if n > published {
                                viol.push(format!("C13 sequence() returned {} but only {} updates have been accepted", n, published));
                            }
                            // SC: a count between the number published when the call began and now (the
                            // real one-load program returns exactly the number published at its load:
                            // that is the model's statement, checked through the correspondence)
                            if sc && n < th.published_at_start {
                                viol.push(format!("C13 sequence() returned {} on the SC machine although {} accepted updates were published when it began", n, th.published_at_start));
                            }
                            th.last_sequence = Some(n);
                            th.seq_floor = th.seq_floor.max(n);
                        }
                        other => viol.push(format!("C13 sequence() returned {:?}", other)),
                    }
                }
                match (call, r) {
                    (Call::Update(b, v), Ret::Unit) | (Call::TryUpdate(b, v), Ret::Bool(true)) if vouch_bits(b) == v => {
                        th.floor = th.floor.max(b);
                        new_floor = Some(b);
                    }
                    _ => {}
                }
                if was_blocked_try && (r != Ret::Bool(false) || th.own_steps != 1) {
                    viol.push("C18 try_update did not return false at once although the lock was held".into());
                }
            }
            Status::Panicked => {
                desc.push_str(";panic");
                if call == Call::Sequence {
                    viol.push("C13 sequence() panicked".into());
                }
            }
            _ => {
                if was_blocked_try {
                    viol.push("C18 try_update keeps running after try_lock reported WouldBlock".into());
                }
                if call == Call::Snapshot {
                    if let Some(seen) = th.start_seen {
                        let n_now = self.mem[SEQ].len().saturating_sub(1);
                        let bound = 4 * (1 + n_now.saturating_sub(seen));
                        if th.own_steps >= bound {
                            viol.push(format!("C18 snapshot still running after {} of its own steps (bound {})", th.own_steps, bound));
                        }
                    }
                }
            }
        }
        if let Some(b) = new_floor {
            self.sc_floor = self.sc_floor.max(b);
        }
        if !sc {
            desc.push_str(&format!(" view={}", fmt_view(&self.threads[t].view)));
        }
        StepOutcome { desc, violations: viol }
    }
}

// ---------------------------------------------------------------- bounded exhaustive exploration (oracle only)

fn parse_prog(s: &str) -> Option<Vec<Call>> {
    s.split(',')
        .map(|c| {
            if c == "s" {
                return Some(Call::Snapshot);
            }
            if c == "q" {
                return Some(Call::Sequence);
            }
            let (k, n) = c.split_at(1);
            let b: u64 = n.parse().ok()?;
            match k {
                "u" => Some(Call::Update(b, vouch_bits(b))),
                "t" => Some(Call::TryUpdate(b, vouch_bits(b))),
                "x" => Some(Call::Update(b, vouch_bits(b + 1))), // invalid pair: the update panics
                "y" => Some(Call::TryUpdate(b, vouch_bits(b + 1))),
                _ => None,
            }
        })
        .collect()
}

#[derive(Clone, PartialEq, Eq, Hash)]
struct XState {
    sim: Sim,
    next_call: Vec<usize>,
}

struct ExploreResult {
    states: usize,
    transitions: usize,
    terminals: usize,
    truncated: bool,
    violation: Option<(String, Vec<String>)>,
}

fn explore(obj: &Obj, sc: bool, max_states: usize, progs: &[Vec<Call>]) -> ExploreResult {
    let mut res = ExploreResult { states: 0, transitions: 0, terminals: 0, truncated: false, violation: None };
    let mut init = XState { sim: Sim::new(sc), next_call: vec![0; progs.len()] };
    let mut path0: Vec<String> = vec![format!("machine {}", if sc { "sc" } else { "ra" })];
    let mut viol = Vec::new();
    for t in 0..progs.len() {
        init.sim.thread(t);
    }
    // start eagerly: a thread's view does not change between the end of one call and the start of the next
    fn start_ready(st: &mut XState, progs: &[Vec<Call>], obj: &Obj, path: &mut Vec<String>, viol: &mut Vec<String>) {
        for t in 0..progs.len() {
            if st.sim.threads[t].status != Status::Running && st.next_call[t] < progs[t].len() {
                let c = progs[t][st.next_call[t]];
                st.next_call[t] += 1;
                st.sim.start(t, c, obj, viol);
                path.push(format!("start {} {}", t, fmt_call(c)));
            }
        }
    }
    start_ready(&mut init, progs, obj, &mut path0, &mut viol);
    if let Some(v) = viol.first() {
        res.violation = Some((v.clone(), path0));
        return res;
    }
    let mut seen: HashSet<XState> = HashSet::new();
    seen.insert(init.clone());
    let mut stack: Vec<(XState, Vec<String>)> = vec![(init, path0)];
    while let Some((st, path)) = stack.pop() {
        res.states += 1;
        let mut any = false;
        for t in 0..progs.len() {
            let Some(choices) = st.sim.choices(t) else { continue };
            for c in choices {
                any = true;
                res.transitions += 1;
                let mut nst = st.clone();
                let out = nst.sim.step(t, c, obj);
                let mut npath = path.clone();
                npath.push(format!("step {} {}", t, c));
                let mut viol = out.violations;
                start_ready(&mut nst, progs, obj, &mut npath, &mut viol);
                if let Some(v) = viol.first() {
                    res.violation = Some((v.clone(), npath));
                    return res;
                }
                if seen.len() >= max_states {
                    res.truncated = true;
                    continue;
                }
                if seen.insert(nst.clone()) {
                    stack.push((nst, npath));
                }
            }
        }
        if !any {
            res.terminals += 1;
            if let Some(t) = (0..progs.len()).find(|t| st.sim.threads[*t].status == Status::Running) {
                res.violation = Some((format!("C18 thread {} can never finish (blocked forever with nobody running)", t), path));
                return res;
            }
        }
    }
    res
}

// ---------------------------------------------------------------- new() vs Default::default() (track apileft)

/// The five words and the mutex state of a cell nobody has touched, from the `#[derive(Debug)]`
/// output of the real structure WITHOUT a backend (the shim then prints what std prints), and what
/// the real `sequence()` / `snapshot()` return on it (no backend: straight through to std).
fn describe_cell(cell: &AtomicBaseTime, viol: &mut Vec<String>, who: &str) -> String {
    let prev = set_backend(None);
    let text = format!("{:?}", cell);
    let seq = cell.sequence();
    let (b, v) = cell.snapshot();
    let v = unsafe { std::mem::transmute::<raffle::Voucher, u64>(v) };
    set_backend(prev);
    fn num_after(text: &str, key: &str, from: usize) -> (Option<u64>, usize) {
        match text[from..].find(key) {
            None => (None, from),
            Some(at) => {
                let at = at + from + key.len();
                let digits: String = text[at..].trim_start().chars().take_while(|c| c.is_ascii_digit()).collect();
                (digits.parse().ok(), at)
            }
        }
    }
    let (w_seq, p) = num_after(&text, "sequence:", 0);
    let (b0, p) = num_after(&text, "base_time_ms:", p);
    let (v0, p) = num_after(&text, "voucher:", p);
    let (b1, p) = num_after(&text, "base_time_ms:", p);
    let (v1, _) = num_after(&text, "voucher:", p);
    let words = [w_seq, b0, v0, b1, v1];
    let shown: Vec<String> = words.iter().enumerate()
        .map(|(l, w)| match w { Some(w) => fmt_loc_val(l, *w), None => "?".into() }).collect();
    let held = text.contains("<locked>");
    let poisoned = !text.contains("poisoned: false");
    // direct oracle: the epoch pair in both slots, counter 0, mutex free and clean, and the two calls agree
    let epoch = [Some(0), Some(0), Some(vouch_bits(0)), Some(0), Some(vouch_bits(0))];
    if words != epoch || held || poisoned {
        viol.push(format!("C13 {} does not build the epoch cell: {}", who, text));
    }
    if seq != 0 {
        viol.push(format!("C13 {}.sequence() = {} on a fresh cell", who, seq));
    }
    if (b, v) != (0, vouch_bits(0)) {
        viol.push(format!("C13 {}.snapshot() = ({}, {}) on a fresh cell", who, b, fmt_val(v)));
    }
    format!("words={};lock={},{};sequence:{};snapshot:{}", shown.join(","), if held { "held" } else { "free" },
            if poisoned { "poisoned" } else { "clean" }, fmt_ret(Ret::Seq(seq)), fmt_ret(Ret::Snap(b, v)))
}

fn new_default_op() -> StepOut {
    let mut viol = Vec::new();
    let a = describe_cell(&build_cell(false), &mut viol, "AtomicBaseTime::new()");
    let d = describe_cell(&build_cell(true), &mut viol, "AtomicBaseTime::default()");
    let mut so = StepOut::obs(format!("new:{} default:{}", a, d));
    so.violations = viol;
    so.tags.push("new_default".into());
    so
}

// ---------------------------------------------------------------- executor

pub struct AbtFamily;

struct AbtExec {
    obj: Obj,
    sim: Option<Sim>,
    /// the object and reference of the `seq` ops (`fam_abt/seq.rs`)
    seq: seq::SeqState,
}

impl AbtExec {
    fn fresh() -> AbtExec {
        AbtExec { obj: Obj::new(), sim: None, seq: seq::SeqState::new() }
    }
}

/// Only the plain sequential calls may run while the thread is unwinding (the stepping backend
/// uses panics for control flow), and only those that cannot panic.
impl crate::unwind::Probe for AbtExec {
    fn unwind_safe(&self, w: &[&str]) -> bool {
        seq::seq_safe(w)
    }
}

impl Exec for AbtExec {
    fn flush_before(&self, w: &[&str]) -> bool {
        // the plain sequential calls run under the process watchdog (fam_abt/seq.rs)
        matches!(w, ["seq", ..])
    }
    fn step(&mut self, w: &[&str]) -> StepOut {
        if let Some(so) = self.step_seq(w) {
            return so;
        }
        match w {
            ["trace", rest @ ..] => {
                let Some((call, rest)) = parse_call(rest) else { return StepOut::bad() };
                let [script] = rest else { return StepOut::bad() };
                let feed: Option<Vec<Fed>> =
                    if *script == "-" { Some(vec![]) } else { script.split(',').map(parse_fed).collect() };
                let Some(feed) = feed else { return StepOut::bad() };
                let (line, tag) = trace_line(&self.obj, call, feed);
                let mut so = StepOut::obs(line);
                // C18 on a single call, whatever it is fed: a reader touches no lock, ever
                if matches!(call, Call::Snapshot | Call::Unlocked) {
                    let l = so.obs[0].clone();
                    if l.split(';').any(|p| p.contains("lock") || p.contains("clearpoison")) {
                        so.violations.push(format!("C18 snapshot performs a lock operation (trace {})", if l.len() > 120 { &l[l.len() - 120..] } else { &l }));
                    }
                }
                // (track apileft) sequence(), whatever it is fed: one load of the counter, and it returns the value loaded
                if call == Call::Sequence {
                    let l = so.obs[0].clone();
                    let parts: Vec<&str> = l.split(';').collect();
                    if parts.iter().any(|p| p.contains("lock") || p.contains("clearpoison") || p.starts_with("st.")) {
                        so.violations.push(format!("C18 sequence() performs a lock operation or a store (trace {})", l));
                    }
                    if tag == "finished" {
                        // the value returned is a value of the counter this call loaded (that it is ONE
                        // relaxed load is the model's program: any other shape is a correspondence mismatch)
                        let ret = parts.last().and_then(|p| p.strip_prefix("ret="));
                        let ok = ret.is_some() && parts.iter().any(|p| p.starts_with("ld.seq.") && p.split('=').nth(1) == ret);
                        if !ok {
                            so.violations.push(format!("C13 sequence() returned something it did not load from the counter (trace {})", l));
                        }
                    } else if tag == "panicked" {
                        so.violations.push(format!("C13 sequence() panicked (trace {})", l));
                    }
                }
                so.tags.push(format!("trace_{}_{}", fmt_call(call).split(' ').next().unwrap(), tag));
                so
            }
            ["new_default"] => new_default_op(),
            ["machine", m @ ("sc" | "ra")] => {
                self.sim = Some(Sim::new(*m == "sc"));
                StepOut::obs("ok")
            }
            ["start", t, rest @ ..] => {
                let (Ok(t), Some((call, []))) = (t.parse::<usize>(), parse_call(rest)) else { return StepOut::bad() };
                if call == Call::Unlocked || t > 15 {
                    return StepOut::bad();
                }
                let Some(sim) = self.sim.as_mut() else { return StepOut::bad() };
                let mut viol = Vec::new();
                let ok = sim.start(t, call, &self.obj, &mut viol);
                let mut so = StepOut::obs(if ok { "started" } else { "busy" });
                so.violations = viol;
                so
            }
            ["step", t, ts] => {
                let (Ok(t), Ok(ts)) = (t.parse::<usize>(), ts.parse::<usize>()) else { return StepOut::bad() };
                let Some(sim) = self.sim.as_mut() else { return StepOut::bad() };
                let out = sim.step(t, ts, &self.obj);
                let mut so = StepOut::obs(out.desc.clone());
                so.violations = out.violations;
                let kind = out.desc.split(|c| c == '.' || c == '=' || c == ' ' || c == ';').next().unwrap_or("").to_string();
                so.tags.push(format!("step_{}", kind));
                if out.desc.contains(";ret") {
                    so.tags.push("call_finished".into());
                }
                so
            }
            ["sync", t, u] => {
                let (Ok(t), Ok(u)) = (t.parse::<usize>(), u.parse::<usize>()) else { return StepOut::bad() };
                let Some(sim) = self.sim.as_mut() else { return StepOut::bad() };
                if t > 15 || u > 15 {
                    return StepOut::bad();
                }
                sim.sync(t, u);
                if sim.sc { StepOut::obs("synced") } else { StepOut::obs(format!("synced view={}", fmt_view(&sim.threads[t].view))) }
            }
            ["explore", m @ ("sc" | "ra"), max, progs] => {
                let Ok(max) = max.parse::<usize>() else { return StepOut::bad() };
                let progs: Option<Vec<Vec<Call>>> = progs.split('/').map(parse_prog).collect();
                let Some(progs) = progs else { return StepOut::bad() };
                let r = explore(&self.obj, *m == "sc", max, &progs);
                let mut so = StepOut::obs("explored");
                for _ in 0..r.states.min(1_000_000) / 1000 {
                    so.tags.push("explore_kstates".into());
                }
                so.tags.push(if r.truncated { "explore_truncated".into() } else { "explore_complete".into() });
                if let Some((v, path)) = r.violation {
                    so.violations.push(format!("{} | execution: {}", v, path.join("; ")));
                }
                so
            }
            _ => StepOut::bad(),
        }
    }
}

// ---------------------------------------------------------------- generators

/// Candidate results for the operation a trace wants next.
fn candidates(op: &OpRec, wide: bool) -> Vec<&'static str> {
    match op {
        OpRec::Load(SEQ, _) => if wide { vec!["0", "1", "2", "3"] } else { vec!["0", "1", "2"] },
        OpRec::Load(1, _) | OpRec::Load(3, _) => vec!["0", "5"],
        OpRec::Load(_, _) => vec!["v0", "v5"],
        OpRec::Lock => vec!["ok", "poisoned"],
        OpRec::TryLock => vec!["ok", "poisoned", "wouldblock"],
        _ => vec![],
    }
}

/// Every control path of the real function, by walking its decision tree: run it on a
/// script, see which operation it wants next, branch on the candidate results.
fn enumerate_traces(obj: &Obj, call: Call, max_len: usize, wide: bool, out: &mut Vec<String>) {
    let mut stack: Vec<Vec<&'static str>> = vec![vec![]];
    while let Some(script) = stack.pop() {
        let feed: Vec<Fed> = script.iter().map(|s| parse_fed(s).unwrap()).collect();
        let (outcome, replay) = drive(obj, call, feed, true);
        let line = format!("trace {} {}", fmt_call(call), if script.is_empty() { "-".to_string() } else { script.join(",") });
        match outcome {
            Outcome::Stopped if !replay.bad && script.len() < max_len => {
                let op = replay.pending.unwrap();
                // the prefix itself is a case too when short (checks the `want` report)
                if script.len() <= 2 {
                    out.push(line);
                }
                for c in candidates(&op, wide) {
                    let mut s = script.clone();
                    s.push(c);
                    stack.push(s);
                }
            }
            _ => out.push(line),
        }
    }
}

fn random_token(rng: &mut Rng, op: Option<&OpRec>) -> String {
    let seqs: [u64; 10] = [0, 1, 2, 3, 4, 7, 8, 1 << 32, (1 << 63) - 1, (1 << 63) - 2];
    let mut bases: Vec<u64> = vec![0, 1, 5, 6, 7, 9, u64::MAX, 1 << 40];
    bases.extend(special_bases());
    match op {
        Some(OpRec::Load(SEQ, _)) => seqs[rng.below(seqs.len() as u64) as usize].to_string(),
        Some(OpRec::Load(1, _)) | Some(OpRec::Load(3, _)) => {
            bases[rng.below(bases.len() as u64) as usize].to_string()
        }
        Some(OpRec::Load(_, _)) => {
            if rng.chance(1, 8) { (2 + rng.below(1 << 20)).to_string() } else { format!("v{}", bases[rng.below(bases.len() as u64) as usize]) }
        }
        Some(OpRec::Lock) => (*rng.pick(&["ok", "ok", "poisoned", "wouldblock"])).to_string(),
        Some(OpRec::TryLock) => (*rng.pick(&["ok", "ok", "poisoned", "wouldblock"])).to_string(),
        _ => (*rng.pick(&["0", "ok", "v5"])).to_string(),
    }
}

/// Occasionally an ill-typed token (both sides must answer `bad-script`).
fn wild_token(rng: &mut Rng) -> String {
    (*rng.pick(&["3", "ok", "v5", "wouldblock"])).to_string() // never 0 / 1: the numeric value of a special voucher word
}

fn random_call(rng: &mut Rng, allow_unlocked: bool) -> Call {
    let mut bs: Vec<u64> = vec![0u64, 1, 5, 6, 7, 9, 1 << 40, u64::MAX];
    bs.extend(special_bases());
    let b = *rng.pick(&bs);
    let v = if rng.chance(1, 6) { vouch_bits(b.wrapping_add(1)) } else { vouch_bits(b) };
    parse_val(&format!("v{}", b));
    parse_val(&format!("v{}", b.wrapping_add(1)));
    match rng.below(if allow_unlocked { 9 } else { 7 }) {
        0..=2 => Call::Snapshot,
        3 | 4 => Call::Update(b, v),
        5 | 6 => Call::TryUpdate(b, v),
        7 => Call::Unlocked,
        _ => Call::Sequence,
    }
}

/// A random walk down one path of the real function's decision tree.
fn random_trace(obj: &Obj, rng: &mut Rng) -> String {
    let call = random_call(rng, true);
    let mut script: Vec<String> = Vec::new();
    let max = rng.range(0, 16) as usize;
    loop {
        let feed: Vec<Fed> = script.iter().map(|s| parse_fed(s).unwrap()).collect();
        let (outcome, replay) = drive(obj, call, feed, true);
        match outcome {
            Outcome::Stopped if !replay.bad && script.len() < max => {
                let op = replay.pending.unwrap();
                // mostly continue the loop the way a consistent memory would (same sequence again)
                let tok = if rng.chance(1, 40) { wild_token(rng) } else { random_token(rng, Some(&op)) };
                let tok = match (&op, script.first()) {
                    (OpRec::Load(SEQ, _), Some(first)) if call == Call::Snapshot && rng.chance(1, 2) => {
                        // repeat the most recent sequence value fed, so that the call returns
                        let mut last = first.clone();
                        let mut i = 0;
                        while i < script.len() { last = script[i].clone(); i += 3; }
                        last
                    }
                    (OpRec::Load(l, _), _) if *l != SEQ && (*l == 1 || *l == 3) && rng.chance(1, 2) => {
                        // base matching the voucher just fed
                        match script.last().and_then(|s| s.strip_prefix('v')) { Some(x) => x.to_string(), None => tok }
                    }
                    _ => tok,
                };
                script.push(tok);
            }
            _ => break,
        }
    }
    format!("trace {} {}", fmt_call(call), if script.is_empty() { "-".to_string() } else { script.join(",") })
}

/// A whole execution: random schedule and reads-from choices from the harness's own simulator.
fn random_execution(obj: &Obj, rng: &mut Rng, thorough: bool) -> Vec<String> {
    let sc = rng.chance(1, 4);
    let mut ops = vec![format!("machine {}", if sc { "sc" } else { "ra" })];
    let mut sim = Sim::new(sc);
    let nthreads = rng.range(1, 4) as usize;
    let nsteps = rng.range(5, if thorough { 120 } else { 60 });
    let mut viol = Vec::new();
    // increasing base times most of the time, so that updates are accepted
    let mut clock = 1u64;
    if rng.chance(1, 5) {
        // walk the base times through one whose voucher word is a special bit pattern
        let sp = special_bases();
        if !sp.is_empty() {
            clock = (*rng.pick(&sp)).saturating_sub(rng.below(3)).max(1);
        }
    }
    for _ in 0..nsteps {
        let t = rng.below(nthreads as u64) as usize;
        sim.thread(t);
        if sim.threads[t].status != Status::Running {
            let call = match rng.below(13) {
                10..=12 => Call::Sequence,
                0..=4 => Call::Snapshot,
                5..=8 => {
                    let b = if rng.chance(1, 5) { clock.saturating_sub(rng.range(1, 3)) } else { clock += rng.below(3); clock };
                    let v = if rng.chance(1, 12) { vouch_bits(b + 1) } else { vouch_bits(b) };
                    parse_val(&format!("v{}", b));
                    parse_val(&format!("v{}", b + 1));
                    if rng.chance(1, 2) { Call::Update(b, v) } else { Call::TryUpdate(b, v) }
                }
                _ => {
                    if nthreads > 1 && !sc {
                        let u = (t + 1 + rng.below(nthreads as u64 - 1) as usize) % nthreads;
                        sim.sync(t, u);
                        ops.push(format!("sync {} {}", t, u));
                    }
                    continue;
                }
            };
            sim.start(t, call, obj, &mut viol);
            ops.push(format!("start {} {}", t, fmt_call(call)));
            continue;
        }
        match sim.choices(t) {
            Some(cs) => {
                // bias towards the extremes: stalest and freshest message
                let c = match rng.below(4) { 0 => cs[0], 1 => *cs.last().unwrap(), _ => *rng.pick(&cs) };
                sim.step(t, c, obj);
                ops.push(format!("step {} {}", t, c));
            }
            None => {
                // blocked on the lock: occasionally record the attempt (both sides must say `blocked`)
                if rng.chance(1, 3) {
                    ops.push(format!("step {} 0", t));
                }
            }
        }
    }
    // run everything to completion (threads blocked on a frozen holder stay blocked)
    for _ in 0..200 {
        let mut progressed = false;
        for t in 0..sim.threads.len() {
            if let Some(cs) = sim.choices(t) {
                let c = *cs.last().unwrap();
                sim.step(t, c, obj);
                ops.push(format!("step {} {}", t, c));
                progressed = true;
            }
        }
        if !progressed {
            break;
        }
    }
    ops
}

/// C18: writers suspended at every point of their step sequences, then a reader and a
/// try_update caller run alone.  `pick`: 0 = stalest message, 1 = freshest, 2 = alternate.
fn suspension_case(obj: &Obj, sc: bool, warmup: &[Call], w1: Call, k1: usize, w2: Option<(Call, usize)>, pick: usize) -> Vec<String> {
    let mut ops = vec![format!("machine {}", if sc { "sc" } else { "ra" })];
    let mut sim = Sim::new(sc);
    let mut viol = Vec::new();
    let mut run_alone = |sim: &mut Sim, ops: &mut Vec<String>, t: usize, call: Call, limit: usize, pick: usize| {
        sim.start(t, call, obj, &mut viol);
        ops.push(format!("start {} {}", t, fmt_call(call)));
        let mut i = 0;
        while i < limit {
            let Some(cs) = sim.choices(t) else { break };
            let c = match pick { 0 => cs[0], 1 => *cs.last().unwrap(), _ => if i % 2 == 0 { cs[0] } else { *cs.last().unwrap() } };
            sim.step(t, c, obj);
            ops.push(format!("step {} {}", t, c));
            i += 1;
        }
    };
    // thread 0 publishes a few updates first, so that stale sequence messages exist
    for c in warmup {
        run_alone(&mut sim, &mut ops, 0, *c, 100, 1);
    }
    // (track apileft) the publisher's own sequence() afterwards: at least what it published
    run_alone(&mut sim, &mut ops, 0, Call::Sequence, 100, pick);
    run_alone(&mut sim, &mut ops, 1, w1, k1, 1);
    // sequence() racing with the writer suspended at this point (stalest / freshest counter message)
    run_alone(&mut sim, &mut ops, 3, Call::Sequence, 100, pick);
    if let Some((c2, k2)) = w2 {
        run_alone(&mut sim, &mut ops, 2, c2, k2, 1);
        if sim.threads[2].status == Status::Running && sim.choices(2).is_none() {
            ops.push("step 2 0".into()); // blocked on the lock: both sides must agree
        }
    }
    // the reader alone, then a try_update caller alone, then the reader again
    run_alone(&mut sim, &mut ops, 3, Call::Snapshot, 100, pick);
    parse_val("v9");
    run_alone(&mut sim, &mut ops, 3, Call::Sequence, 100, pick);
    run_alone(&mut sim, &mut ops, 4, Call::TryUpdate(9, vouch_bits(9)), 100, 1);
    run_alone(&mut sim, &mut ops, 4, Call::Sequence, 100, pick);
    run_alone(&mut sim, &mut ops, 3, Call::Snapshot, 100, pick);
    run_alone(&mut sim, &mut ops, 3, Call::Sequence, 100, pick);
    ops
}

fn writer_len(obj: &Obj, warmup: &[Call], w: Call) -> usize {
    let mut sim = Sim::new(false);
    let mut viol = Vec::new();
    for c in warmup {
        sim.start(0, *c, obj, &mut viol);
        while let Some(cs) = sim.choices(0) { sim.step(0, *cs.last().unwrap(), obj); }
    }
    sim.start(1, w, obj, &mut viol);
    let mut n = 0;
    while let Some(cs) = sim.choices(1) {
        sim.step(1, *cs.last().unwrap(), obj);
        n += 1;
    }
    n
}

impl Family for AbtFamily {
    fn name(&self) -> &'static str {
        "abt"
    }

    fn new_exec(&self) -> Box<dyn Exec> {
        crate::unwind::UnwindExec::boxed(AbtExec::fresh)
    }

    fn enumerated(&self, thorough: bool) -> Vec<Vec<String>> {
        let obj = Obj::new();
        let mut cases: Vec<Vec<String>> = Vec::new();
        // (i) every control path of the three programs (snapshot up to 2 / 3 retries)
        let mut lines = Vec::new();
        let retries = if thorough { 3 } else { 2 };
        enumerate_traces(&obj, Call::Snapshot, 1 + 3 * (retries + 1), thorough, &mut lines);
        enumerate_traces(&obj, Call::Unlocked, 1 + 3 * 2, false, &mut lines);
        // (track apileft) sequence(): one relaxed load; extra script entries are never consumed; a
        // voucher token is ill-typed for the counter
        enumerate_traces(&obj, Call::Sequence, 2, true, &mut lines);
        for sc in ["18446744073709551615", "9223372036854775807", "9223372036854775808", "4294967296", "1,2", "7,ok", "v5", "ok"] {
            lines.push(format!("trace sequence {}", sc));
        }
        lines.push("new_default".into());
        for (b, vb) in [(5u64, 5u64), (5, 6), (3, 3), (0, 0)] {
            parse_val(&format!("v{}", vb));
            enumerate_traces(&obj, Call::Update(b, vouch_bits(vb)), 8, false, &mut lines);
            enumerate_traces(&obj, Call::TryUpdate(b, vouch_bits(vb)), 8, false, &mut lines);
        }
        // long retry chains: a reader that loses N races in a row must still do nothing but loads
        // (a bounded-retry "fallback" that takes the lock or skips validation shows up here)
        for n in [63usize, 64, 65, 130] {
            let mut script: Vec<String> = vec!["0".into()];
            for k in 1..=n {
                script.extend(["v5".to_string(), "5".to_string(), k.to_string()]);
            }
            script.extend(["v5".to_string(), "5".to_string(), n.to_string()]);
            lines.push(format!("trace snapshot {}", script.join(",")));
            lines.push(format!("trace unlocked {}", script.join(",")));
        }
        for chunk in lines.chunks(40) {
            cases.push(chunk.to_vec());
        }
        // (ii) C18: every suspension point of one or two writers, then reader / try_update alone
        let u = |b: u64| Call::Update(b, vouch_bits(b));
        let t = |b: u64| Call::TryUpdate(b, vouch_bits(b));
        let bad = |b: u64| Call::Update(b, vouch_bits(b + 1));
        for x in 0..=9u64 { parse_val(&format!("v{}", x)); }
        let warmups: Vec<Vec<Call>> = vec![vec![], vec![u(2)], vec![u(2), u(3), bad(4)]];
        for sc in [false, true] {
            for warmup in &warmups {
                for w1 in [u(5), t(5), u(1), bad(6)] {
                    let len1 = writer_len(&obj, warmup, w1);
                    for k1 in 0..=len1 {
                        for pick in 0..(if sc { 1 } else { 3 }) {
                            cases.push(suspension_case(&obj, sc, warmup, w1, k1, None, pick));
                        }
                        // a second writer arrives while the first is suspended (or after it finished)
                        for w2 in [u(7), t(7)] {
                            if !(thorough || k1 % 2 == 0 || k1 == len1) { continue; }
                            let len2 = 10;
                            for k2 in (1..=len2).step_by(if thorough { 1 } else { 3 }) {
                                cases.push(suspension_case(&obj, sc, warmup, w1, k1, Some((w2, k2)), if sc { 1 } else { k2 % 3 }));
                            }
                        }
                    }
                }
            }
        }
        // (iii) oracle: bounded exhaustive schedule x reads-from exploration of the real functions
        let budget = if thorough { 250_000 } else { 100_000 };
        let mut explores = vec![
            format!("explore ra {} u5/s,s", budget),
            format!("explore ra {} u5,u7/s", budget),
            format!("explore ra {} u5/t7/s", budget),
            format!("explore sc {} u5,u7/t9/s,s", budget),
            format!("explore ra {} x5,u6/t7/s", budget),
            format!("explore ra {} u5,u3,u6/s,s", budget),
            // two BLOCKING writers racing for the lock, the second one then reads: an update that
            // returned (accepted or ignored) must be covered by every later snapshot of its thread
            format!("explore sc {} u5,u9/u7,s", budget),
            format!("explore ra {} u5,u9/u7,s", budget),
            format!("explore sc {} u5,u9/t7,u7,s", budget),
            // (track apileft) sequence() racing with writers and interleaved with the thread's own snapshots / updates
            format!("explore ra {} u5,q,u7,q/q,s,q", budget),
            format!("explore sc {} u5,q,u7/q,s,q/q", budget),
            format!("explore ra {} u5,u7/q,q,q/t9,q", budget),
        ];
        if thorough {
            explores.push(format!("explore ra {} u5,u7/t6,u8/s,s", budget));
            explores.push(format!("explore ra {} u5/u7/s/s", budget));
            explores.push(format!("explore ra {} u5,u6,u7/s,s/s", budget));
            explores.push(format!("explore sc {} u5,u7/u6,t9/s,s/s", budget));
        }
        for e in explores {
            cases.push(vec![e]);
        }
        // (iv) plain sequential calls, every placement of `unwinding` (track traits)
        cases.extend(seq::enumerated_seq());
        cases
    }

    fn gen_case(&self, rng: &mut Rng, _idx: u64, thorough: bool) -> Vec<String> {
        thread_local! { static OBJ: Obj = Obj::new(); }
        if rng.chance(1, 8) {
            let unwinding = rng.chance(2, 3);
            return seq::random_seq(rng, unwinding);
        }
        OBJ.with(|obj| {
            if rng.chance(1, 3) {
                (0..rng.range(5, 30)).map(|_| random_trace(obj, rng)).collect()
            } else {
                random_execution(obj, rng, thorough)
            }
        })
    }
}

//! Family `scale_iovec`: LARGE-MAGNITUDE and LONG-HISTORY profiles over the `iovec` executor
//! (C03, C04, C05, C10, C20; model driver `wpmodel scale_iovec` = the `iovec` driver behind
//! `Driver/Scale.lean`).  Regimes (see tools/track_prompts/scale.md):
//!   * arena chunk of the LAST size class (>= 1 MiB: `reserve`, one copy >= 1 MiB, or the geometric
//!     growth sequence) and then: exhaustion (next allocation > remaining but <= chunk size), a
//!     zero-count anchor from `push_aslice` as the last anchor, a clone / taken value / detached
//!     anchored slice holding bytes of that chunk while the original is drained and pushes again;
//!   * an arena region LARGER than 1 MiB, > 1 MiB (2^16, 2^21, 2^24) of copies merged into ONE
//!     slice, then `register` / `backfill` at an in-slice offset around the threshold;
//!   * 255 ... 65537 live un-merged slices, pending placeholders, zero-count anchors; then every
//!     consumer-side view;
//!   * histories of thousands of pushes / consumes / register+backfill rounds (global slice indices
//!     and byte counters past 2^10, 2^12, 2^16);
//!   * owners of arena memory dropped BY THE UNWINDER of a caught panic (`scoped_panic`).
use crate::fam_iovec::IovecFamily;
use crate::scale_common::*;
use crate::util::*;

pub struct ScaleIovecFamily;

const MAXU: &str = "18446744073709551615";
const SEQ: [usize; 9] = [1 << 12, 1 << 13, 1 << 14, 1 << 15, 1 << 16, 1 << 17, 1 << 18, 1 << 19, 1 << 20];

/// Generator-side picture of one arena's allocation cache (only used to aim at exact fits).
#[derive(Clone, Default)]
struct SimArena {
    has: bool,
    cap: usize,
    bump: usize,
}

impl SimArena {
    fn remaining(&self) -> usize {
        if self.has {
            self.cap - self.bump
        } else {
            0
        }
    }
    fn hint(len: usize, prev: usize) -> usize {
        let max = SEQ[SEQ.len() - 1];
        if len >= max {
            return len.div_ceil(4096) * 4096;
        }
        if prev >= max {
            return max;
        }
        let wanted = (prev + 1).max(len);
        for s in SEQ {
            if s >= wanted {
                return s;
            }
        }
        max
    }
    fn ensure(&mut self, len: usize) {
        if self.has && self.remaining() >= len {
            return;
        }
        let prev = if self.has { self.cap } else { 0 };
        self.cap = Self::hint(len, prev).max(len);
        self.bump = 0;
        self.has = true;
    }
    fn alloc(&mut self, len: usize) {
        if len > 0 {
            self.ensure(len);
            self.bump += len;
        }
    }
}

struct B {
    ops: Vec<String>,
    sim: SimArena,
    tag: u8,
}

impl B {
    fn new() -> Self {
        B { ops: vec!["terse".into(), "new".into()], sim: SimArena::default(), tag: 0x10 }
    }
    fn op(&mut self, s: String) {
        self.ops.push(s);
    }
    fn next_tag(&mut self) -> u8 {
        self.tag = self.tag.wrapping_add(0x1d);
        self.tag
    }
    /// `push_copy v0` of n bytes (tracked)
    fn copy(&mut self, n: usize) {
        if n == 0 {
            return;
        }
        let t = self.next_tag();
        self.op(format!("push_copy v0 {}", run_token(t, n)));
        self.sim.alloc(n);
    }
    fn reserve(&mut self, n: usize) {
        self.op(format!("reserve v0 {}", n));
        self.sim.ensure(n);
    }
    /// brings v0's arena onto a chunk of capacity `c` (a member of the size sequence, or a multiple
    /// of 4096 above 1 MiB); `how`: 0 = reserve, 1 = one copy of the whole chunk, 2 = growth sequence
    fn reach(&mut self, c: usize, how: u64) {
        match how {
            0 => self.reserve(c),
            1 => {
                self.copy(c);
                self.op("consume v0 1".into());
            }
            _ => {
                // copies of z bytes, consumed at once, until the cache sits on a chunk of capacity c
                let z = (c / 17 + 100).min(61000).max(3000);
                let mut k = 0;
                let mut sim = self.sim.clone();
                while !(sim.has && sim.cap >= c) && k < 2000 {
                    sim.alloc(z);
                    k += 1;
                }
                if k > 0 {
                    let t = self.next_tag();
                    self.op(format!("rep {} push_copy v0 {} ; consume v0 1", k, run_token(t, z)));
                    self.sim = sim;
                }
            }
        }
    }
    /// leaves exactly `k` bytes of room in the current chunk (by one tracked copy)
    fn leave(&mut self, k: usize) {
        let r = self.sim.remaining();
        if r > k {
            self.copy(r - k);
        }
    }
    fn drain(&mut self, how: u64) {
        match how % 4 {
            0 => self.op(format!("consume v0 {}", MAXU)),
            1 => self.op(format!("advance v0 {}", MAXU)),
            2 => self.op("clear v0".into()),
            _ => {
                self.op("consume v0 1".into());
                self.op(format!("advance v0 {}", MAXU));
            }
        }
    }
}

/// (1) a snapshot (clone / take) holds bytes of a chunk of capacity `c`; the chunk is then
/// exhausted (`k` bytes of room left), the original fully drained, and it allocates again.
fn snapshot_case(c: usize, reach: u64, k: usize, snap: u64, drain: u64, again: u64, a: usize) -> Vec<String> {
    let mut b = B::new();
    b.reach(c, reach);
    b.copy(a);
    match snap % 3 {
        0 => b.op("clone v0".into()),
        1 => {
            b.op("clone v0".into());
            b.op("clone v1".into());
            b.op("drop v1".into());
        }
        _ => {
            // the taken value is the snapshot; the original keeps going on the same arena
            b.op("take_arena v0".into());
            b.op("take v0".into());
            b.op("swap_arena v0 a0".into());
        }
    }
    let s = if snap % 3 == 1 { 2 } else { 1 };
    b.leave(k);
    b.drain(drain);
    match again % 4 {
        0 => b.copy(k + 1),
        1 => {
            b.op("register v0 0000".into());
            b.op("must backfill v0 b0 a1b2".into());
        }
        2 => {
            let t = b.next_tag();
            b.op(format!("push v0 {}", run_token(t, (k + 1).clamp(1, 64))));
        }
        _ => b.copy((k + 1).max(c / 2)),
    }
    b.op(format!("read v{} 48", s));
    b.copy(200);
    b.op(format!("consume v{} 1", s));
    b.op(format!("clone v{}", s));
    b.op("drop v0".into());
    b.op(format!("read v{} 100", s + 1));
    b.ops
}

/// (2) an anchored slice read from the iovec's OWN arena is pushed (borrowed piece + zero-count
/// anchor as the last anchor), nothing after it; the next owned allocation does not fit in the
/// chunk's remaining room but is no larger than the chunk.
fn zero_anchor_case(c: usize, reach: u64, n: usize, pre: usize, next: u64, split: bool) -> Vec<String> {
    let mut b = B::new();
    b.reach(c, reach);
    b.copy(pre);
    if pre > 0 && n % 2 == 1 {
        b.op(format!("consume v0 {}", MAXU));
    }
    let t = b.next_tag();
    // every other case asks for more than the reader delivers: the unread tail is handed back
    let extra = [0usize, 1, 5000, 70000][(next as usize / 4 + n) % 4];
    b.op(format!("read_n v0 {} 4 {} d{}", n + extra, run_token(t, n + 4), n));
    b.sim.ensure(n + extra);
    b.sim.alloc(n);
    if split {
        b.op(format!("s_split s0 {}", n / 2));
        b.op("push_aslice v0 s1".into());
        b.op("push_aslice v0 s2".into());
    } else {
        b.op("push_aslice v0 s0".into());
    }
    let r = b.sim.remaining();
    let want = match next % 4 {
        0 => r + 1,
        1 => c,
        2 => (r + 1).max(c / 2),
        _ => r + 70,
    }
    .min(c.max(r + 1));
    b.copy(want);
    b.op(format!("read v0 {}", n + 16));
    b.copy(100);
    b.op(format!("advance v0 {}", MAXU));
    b.ops
}

/// (3) a DETACHED anchored slice (and a clone of it) reaches into the chunk while the iovec
/// exhausts the chunk, drains, allocates again; the slice is pushed and read afterwards.
fn detached_case(c: usize, reach: u64, n: usize, k: usize, drain: u64) -> Vec<String> {
    let mut b = B::new();
    b.reach(c, reach);
    let t = b.next_tag();
    let extra = [0usize, 4097, 1, 70000][(drain as usize + n) % 4];
    b.op(format!("read_n v0 {} 4 {} d{}", n + extra, run_token(t, n + 4), n));
    b.sim.ensure(n + extra);
    b.sim.alloc(n);
    b.op(format!("s_split s0 {}", n / 3));
    b.op("s_drop s1".into());
    b.leave(k);
    b.drain(drain);
    b.copy(k + 1);
    b.copy(300);
    b.op("push_aslice v0 s2".into());
    b.op(format!("read v0 {}", k + 400 + n));
    b.ops
}

/// (4) allocations that fit exactly / miss by one / equal the chunk / exceed it, one after another
/// (`light`: only the exact fit and the one-byte placeholder after it).
fn exact_fit_case(c: usize, reach: u64, light: bool) -> Vec<String> {
    let mut b = B::new();
    b.reach(c, reach);
    b.copy(100);
    b.op("clone v0".into());
    b.leave(7);
    b.copy(7);
    b.op("register v0 00".into());
    b.sim.alloc(1);
    b.op("must backfill v0 b0 5a".into());
    if !light {
        b.copy(c);
        b.copy(c + 1);
        b.op(format!("advance v0 {}", c + 50));
    }
    b.copy(1);
    b.op("read v1 100".into());
    b.op(format!("consume v0 {}", MAXU));
    b.ops
}

/// (5) a region larger than 1 MiB (or any region: `t` = 2^16) holds ONE merged slice that grows
/// past the threshold `t`; placeholders are registered around in-slice offset `t` and backfilled.
fn big_offset_case(t: usize, delta: i64, h: usize, pieces: u64, region: usize, then: u64) -> Vec<String> {
    let mut b = B::new();
    b.reserve(region);
    let first = (t as i64 + delta).max(1) as usize;
    // the bytes before the placeholder, as 1..3 adjacent copies (they merge into one slice)
    match pieces % 3 {
        0 => b.copy(first),
        1 => {
            b.copy(first / 2);
            b.copy(first - first / 2);
        }
        _ => {
            b.copy(first / 3);
            b.copy(first / 3);
            b.copy(first - 2 * (first / 3));
        }
    }
    b.op(format!("register v0 {}", to_hex(&vec![0u8; h])));
    b.sim.alloc(h);
    b.copy(100);
    b.op(format!("register v0 {}", to_hex(&vec![0u8; 2])));
    b.sim.alloc(2);
    b.copy(50);
    let fill: Vec<u8> = (0..h).map(|j| 0xA1u8.wrapping_add(j as u8)).collect();
    match then % 3 {
        0 => {
            b.op(format!("must backfill v0 b0 {}", to_hex(&fill)));
            b.op("must backfill v0 b1 c3c4".into());
        }
        1 => {
            b.op("must backfill v0 b1 c3c4".into());
            b.op(format!("must backfill v0 b0 {}", to_hex(&fill)));
        }
        _ => {
            b.op(format!("advance v0 {}", first - 3));
            b.op("clone v0".into());
            b.op(format!("must backfill v0 b0 {}", to_hex(&fill)));
            b.op("must backfill v0 b1 c3c4".into());
        }
    }
    b.op(format!("advance v0 {}", first.saturating_sub(8)));
    b.op("read v0 300".into());
    b.ops
}

/// (6) `n` live un-merged slices (borrowed pushes of >= 65 bytes), then the consumer-side views.
fn many_slices_case(n: usize, build: u64, len: usize, variant: u64, quiet: bool) -> Vec<String> {
    let mut ops: Vec<String> = vec!["terse".into()];
    if quiet {
        ops.push("quiet".into());
    }
    match build % 4 {
        0 => {
            ops.push("new".into());
            ops.push(format!("extendrun v0 {} {}", n, run_token(0x10, len)));
        }
        1 => ops.push(format!("newrun {} {}", n, run_token(0x20, len))),
        2 => {
            ops.push("new".into());
            ops.push(format!("rep {} push_borrowed v0 {}", n, run_token(0x30, len)));
        }
        _ => {
            ops.push("new".into());
            ops.push(format!("rep {} push v0 {}", n, run_token(0x40, len.max(300))));
        }
    }
    match variant % 6 {
        0 => {
            ops.push("read v0 100".into());
            ops.push(format!("consume v0 {}", n - 1));
            ops.push("consume v0 5".into());
        }
        1 => {
            ops.push(format!("consume v0 {}", n + 5));
        }
        2 => {
            ops.push("clone v0".into());
            ops.push(format!("consume v0 {}", n / 2 + 1));
            ops.push("read v1 200".into());
            ops.push(format!("consume v1 {}", MAXU));
        }
        3 => {
            ops.push("take v0".into());
            ops.push("push_copy v0 0102".into());
            ops.push(format!("advance v1 {}", (n - 1) * len + 3));
            ops.push("read v1 200".into());
        }
        4 => {
            ops.push("register v0 0000".into());
            ops.push(format!("push_borrowed v0 {}", run_token(0x77, len)));
            ops.push("consume v0 3".into());
            ops.push("must backfill v0 b0 a5a6".into());
            ops.push(format!("consume v0 {}", MAXU));
        }
        _ => {
            ops.push(format!("advance v0 {}", len + 1));
            ops.push(format!("consume v0 {}", n - 2));
            ops.push("read v0 500".into());
        }
    }
    ops
}

/// (7) `n` placeholders in flight, each in its own slice; filled in reverse / forward order.
fn many_backrefs_case(n: usize, reverse: bool, separate: bool) -> Vec<String> {
    let mut ops: Vec<String> = vec!["terse".into()];
    if n > 1100 && separate {
        // n placeholders in n slices: the list model needs minutes (cubic); harness only
        ops.push("quiet".into());
    }
    ops.push("new".into());
    if separate {
        ops.push(format!("rep {} push_borrowed v0 {} ; register v0 00", n, run_token(0x11, 70)));
    } else {
        ops.push(format!("rep {} push_copy v0 {} ; register v0 00", n, run_token(0x11, 3)));
    }
    ops.push("push_copy v0 ee".into());
    ops.push("read v0 10".into());
    ops.push(format!("rep {} must backfill v0 b{{{}}} {}", n, if reverse { "r" } else { "i" }, run_token(0xa0, 1)));
    ops.push("read v0 200".into());
    ops.push(format!("consume v0 {}", MAXU));
    ops
}

/// (8) `n` anchored slices pushed one after another (n zero-count anchors), a snapshot, drains.
fn many_anchors_case(n: usize, snap: &str) -> Vec<String> {
    let mut ops: Vec<String> = vec!["terse".into()];
    if n > 600 {
        // the list model needs more than a minute for 1024 anchored reads; harness only
        ops.push("quiet".into());
    }
    ops.push("new".into());
    ops.push(format!("rep {} read_n v0 100 4 {} d100 ; push_aslice v0 s{{i}}", n, run_token(0x31, 104)));
    ops.push(format!("{} v0", snap));
    ops.push("push_copy v0 0102".into());
    ops.push(format!("consume v1 {}", n / 2));
    ops.push("drop v0".into());
    ops.push("read v1 300".into());
    ops.push(format!("consume v1 {}", MAXU));
    ops
}

/// (9) long histories: rounds of push / register / backfill / consume, the global slice index and
/// byte counters run past n.
fn long_history_case(n: usize, kind: u64, quiet: bool) -> Vec<String> {
    let mut ops: Vec<String> = vec!["terse".into()];
    if quiet {
        ops.push("quiet".into());
    }
    ops.push("new".into());
    match kind % 4 {
        0 => ops.push(format!("rep {} push_copy v0 {} ; consume v0 1", n, run_token(0x00, 100))),
        1 => ops.push(format!(
            "rep {} register v0 0000 ; push_copy v0 {} ; must backfill v0 b{{i}} {} ; consume v0 1 ; flush v0",
            n,
            run_token(0x00, 50),
            run_token(0xf0, 2)
        )),
        2 => ops.push(format!(
            "rep {} push_borrowed v0 {} ; register v0 00 ; consume v0 1 ; must backfill v0 b{{i}} {} ; consume v0 1",
            n,
            run_token(0x00, 66),
            run_token(0x55, 1)
        )),
        _ => ops.push(format!("rep {} push v0 {} ; push v0 {} ; advance v0 300", n, run_token(0x00, 100), run_token(0x80, 200))),
    }
    // the counters are past n now: one more placeholder round, observed in full
    ops.push(format!("push_borrowed v0 {}", run_token(0x42, 80)));
    ops.push("register v0 000000".into());
    ops.push("push_copy v0 0708".into());
    ops.push("clone v0".into());
    ops.push(format!("must backfill v0 b{} a1a2a3", if kind % 4 == 1 || kind % 4 == 2 { n } else { 0 }));
    ops.push("read v0 500".into());
    ops.push("read v1 500".into());
    ops
}

/// (9b) `n` slices pushed and consumed in two ops (the global slice index is past n at once), then
/// placeholder rounds, a snapshot, reads.
fn bulk_history_case(n: usize) -> Vec<String> {
    vec![
        "terse".into(),
        "new".into(),
        format!("extendrun v0 {} {}", n, run_token(0x10, 66)),
        format!("consume v0 {}", n),
        format!("rep 40 register v0 0000 ; push_copy v0 {} ; must backfill v0 b{{i}} {} ; consume v0 1", run_token(0x00, 50), run_token(0xf0, 2)),
        format!("push_borrowed v0 {}", run_token(0x42, 80)),
        "register v0 000000".into(),
        "push_copy v0 0708".into(),
        "clone v0".into(),
        "must backfill v0 b40 a1a2a3".into(),
        "read v0 500".into(),
        "read v1 500".into(),
    ]
}

const OWNERS: [&str; 8] = ["iov", "iovclone", "arena", "aslice", "enc", "dec", "reader", "chunker"];
const HOWS: [&str; 8] = ["backfill", "pop", "plain", "thread", "read", "judge", "keep_plain", "keep_read"];

pub fn scoped_valid(owner: &str, how: &str) -> bool {
    match how {
        "read" | "keep_read" => owner != "iovclone" && owner != "aslice",
        "judge" => owner == "reader",
        _ => true,
    }
}

/// (10) every owner x every way of panicking, sizes `sizes`; a little ordinary traffic around.
pub fn scoped_cases(sizes: &[usize]) -> Vec<Vec<String>> {
    let mut cases = Vec::new();
    for how in HOWS {
        for n in sizes {
            let mut ops: Vec<String> = vec![];
            for o in OWNERS {
                if scoped_valid(o, how) {
                    ops.push(format!("scoped_panic {} {} {}", o, how, n));
                }
            }
            cases.push(ops);
        }
    }
    cases
}

impl ScaleIovecFamily {
    /// The quick tier: one or two representatives of every regime (about 20 s of model time in all).
    fn quick_cases() -> Vec<Vec<String>> {
        let mib = 1usize << 20;
        // ordered so that the expensive cases (H) fall into different shards of an 8-way split
        let mut cases: Vec<Vec<String>> = vec![
            zero_anchor_case(mib, 2, 300, 0, 0, false),      // H  growth sequence, then the zero-count anchor
            big_offset_case(mib, 0, 2, 1, 3 * mib, 0),       // H  placeholder at in-slice offset 2^20
            many_slices_case(1025, 2, 66, 0, false),         // H  1025 single pushes
            many_anchors_case(257, "clone"),                 // H
            long_history_case(1100, 0, false),               // H
            snapshot_case(mib, 2, 1, 0, 3, 0, 100),          // H  growth sequence, then the snapshot
            zero_anchor_case(mib, 0, 300, 100, 1, false),    // H
            detached_case(mib, 0, 400, 1, 0),                // H
            exact_fit_case(mib, 0, true),                    // H
            snapshot_case(mib, 0, 1, 2, 1, 1, 1),
            snapshot_case(mib, 0, 0, 0, 2, 0, 100),
            zero_anchor_case(mib, 0, 65, 0, 2, true),
            big_offset_case(1 << 16, -1, 1, 0, 1 << 18, 0),
            big_offset_case(1 << 16, 0, 2, 1, 1 << 18, 1),
            many_slices_case(1024, 0, 65, 0, false),
            many_slices_case(1025, 1, 67, 3, false),
            many_slices_case(1100, 0, 70, 2, false),
            many_slices_case(1100, 1, 68, 4, false),
            many_slices_case(1025, 0, 69, 1, false),
            many_slices_case(1100, 0, 71, 5, false),
            many_backrefs_case(256, true, true),
            many_backrefs_case(257, false, false),
            long_history_case(1100, 1, false),
            long_history_case(1100, 2, false),
            long_history_case(600, 3, false),
        ];
        for c in scoped_cases(&[100, mib]) {
            cases.push(Self::wrap_scoped(c));
        }
        cases
    }

    fn wrap_scoped(ops: Vec<String>) -> Vec<String> {
        // the iovec executor underneath gets something to do as well (its own leak oracle runs at the end)
        let mut v: Vec<String> = vec!["new".into(), "push_copy v0 010203".into()];
        v.extend(ops);
        v.push("read v0 3".into());
        v
    }
}

impl Family for ScaleIovecFamily {
    fn name(&self) -> &'static str {
        "scale_iovec"
    }

    fn new_exec(&self) -> Box<dyn Exec> {
        Box::new(ScaleExec::new(Kind::Iovec, IovecFamily.new_exec()))
    }

    fn enumerated(&self, thorough: bool) -> Vec<Vec<String>> {
        let mib = 1usize << 20;
        if !thorough {
            return Self::quick_cases();
        }
        let mut cases: Vec<Vec<String>> = Vec::new();
        // ---- last size class: snapshots, zero-count anchors, detached slices, exact fits
        let chunk_sizes: Vec<usize> = if thorough { vec![mib, 1 << 19, 1 << 16, 1 << 12, 3 * mib] } else { vec![mib] };
        for (ci, c) in chunk_sizes.iter().enumerate() {
            let reaches: Vec<u64> = if thorough && *c == mib { vec![0, 1, 2] } else if *c == mib { vec![0, 2] } else { vec![0] };
            for reach in &reaches {
                let mut j = ci as u64 + reach;
                for k in [0usize, 1, 50] {
                    for snap in 0..3u64 {
                        if !thorough && (snap + k as u64 + reach) % 3 != 0 {
                            continue;
                        }
                        cases.push(snapshot_case(*c, *reach, k, snap, j, j / 2, [1usize, 100, 5000][(j % 3) as usize]));
                        j += 1;
                    }
                }
                for (n, pre) in [(300usize, 0usize), (300, 100), (65, 0), (5000, 3)] {
                    if !thorough && pre == 3 {
                        continue;
                    }
                    cases.push(zero_anchor_case(*c, *reach, n, pre, j, false));
                    if thorough {
                        cases.push(zero_anchor_case(*c, *reach, n, pre, j + 1, true));
                        cases.push(zero_anchor_case(*c, *reach, n, pre, j + 2, false));
                    }
                    j += 1;
                }
                cases.push(detached_case(*c, *reach, 400, 1, j));
                if thorough {
                    cases.push(detached_case(*c, *reach, 90, 0, j + 1));
                    cases.push(detached_case(*c, *reach, 3000, 70, j + 2));
                }
                if thorough || *reach == 0 {
                    cases.push(exact_fit_case(*c, *reach, false));
                }
            }
        }
        // ---- in-slice offsets around 2^16 / 2^20 (2^21, 2^24 thorough)
        let mut thresholds: Vec<(usize, usize)> = vec![(1 << 16, 1 << 18), (mib, 3 * mib)];
        if thorough {
            thresholds.push((2 * mib, 5 * mib));
            thresholds.push((mib, mib + 8192));
        }
        let mut j = 0u64;
        for (t, region) in &thresholds {
            for delta in [-3i64, -1, 0, 1, 4096] {
                if !thorough && !(delta == 0 || delta == -1 || delta == 4096) {
                    continue;
                }
                cases.push(big_offset_case(*t, delta, 1 + (j % 3) as usize, j, *region, j / 2));
                j += 1;
            }
        }
        if thorough {
            // 2^24: replayed by the harness only (the list model needs minutes for 17 MiB writes)
            let mut c = big_offset_case(1 << 24, 5, 2, 1, 20 << 20, 0);
            c.insert(1, "quiet".into());
            cases.push(c);
        }
        // ---- many live slices
        let counts: Vec<usize> = if thorough { vec![255, 256, 257, 1023, 1024, 1025, 1100, 2048, 4096, 4097] } else { vec![1024, 1025, 1100] };
        let mut j = 0u64;
        for n in &counts {
            for variant in 0..6u64 {
                if !thorough && (variant + j) % 3 != 0 {
                    j += 1;
                    continue;
                }
                // one `push` per slice costs the list model (and the harness's address canonicaliser) O(n^2)
                // per op: only the smaller counts are built that way, and in the quick tier just once
                let build = if *n <= 1100 && (thorough || (*n == 1025 && variant == 0)) { 2 + j % 2 } else { j % 2 };
                cases.push(many_slices_case(*n, build, 65 + (j % 7) as usize, variant, false));
                j += 1;
            }
        }
        if thorough {
            for (n, variant) in [(65536usize, 0u64), (65537, 1), (65537, 2), (70000, 4), (65536, 5)] {
                // the list model's `extend` is quadratic in the slice count: harness only
                cases.push(many_slices_case(n, 0, 66, variant, true));
            }
        }
        // ---- many placeholders / zero-count anchors
        let counts: Vec<usize> = if thorough { vec![255, 256, 257, 1024, 1025, 4097] } else { vec![256, 257] };
        for (i, n) in counts.iter().enumerate() {
            cases.push(many_backrefs_case(*n, i % 2 == 0, true));
            if thorough || i == 0 {
                cases.push(many_backrefs_case(*n, i % 2 == 1, false));
            }
            if *n <= 1025 {
                cases.push(many_anchors_case(*n, if i % 2 == 0 { "clone" } else { "take" }));
            }
        }
        // ---- long histories
        for kind in 0..4u64 {
            cases.push(long_history_case(if thorough { 4100 } else { 1100 }, kind, false));
        }
        if thorough {
            // harness only; the executor's shadow bookkeeping is quadratic in the number of placeholder
            // rounds, so the 2^16 rounds are the placeholder-free kinds and the placeholder kinds stop at 2^14
            cases.push(long_history_case(66000, 0, true));
            cases.push(long_history_case(66000, 3, true));
            cases.push(long_history_case(17000, 1, true));
            cases.push(long_history_case(17000, 2, true));
            // ... and the slice counters get past 2^16 in two ops before the placeholder rounds start
            for n in [65536usize, 66000, 70000] {
                cases.push(bulk_history_case(n));
            }
        }
        // ---- owners dropped by the unwinder of a caught panic
        let sizes: Vec<usize> = if thorough { vec![100, 5000, 70000, mib, 3 * mib] } else { vec![100, 70000, mib] };
        for c in scoped_cases(&sizes) {
            cases.push(Self::wrap_scoped(c));
        }
        cases
    }

    fn gen_case(&self, rng: &mut Rng, _idx: u64, thorough: bool) -> Vec<String> {
        let mib = 1usize << 20;
        let c = if rng.chance(2, 3) { mib } else { *rng.pick(&[1usize << 12, 1 << 16, 1 << 19, mib, mib + 4096, 2 * mib]) };
        let reach = if c > mib { 0 } else { rng.below(3) };
        match rng.below(if thorough { 12 } else { 10 }) {
            0 | 1 => {
                let k = *rng.pick(&[0usize, 1, 2, 3, 63, 64, 65, 255, 256, 4095]);
                snapshot_case(c, reach, k, rng.below(3), rng.below(4), rng.below(4), *rng.pick(&[1usize, 64, 65, 100, 257, 5000]))
            }
            2 | 3 => {
                let n = *rng.pick(&[65usize, 66, 100, 256, 257, 300, 4096, 70000]);
                zero_anchor_case(c, reach, n, *rng.pick(&[0usize, 0, 1, 100]), rng.below(4), rng.chance(1, 3))
            }
            4 => detached_case(c, reach, *rng.pick(&[3usize, 90, 400, 3000]), *rng.pick(&[0usize, 1, 2, 70]), rng.below(4)),
            5 => {
                let (t, region) = *rng.pick(&[(1usize << 16, 1usize << 18), (mib, 3 * mib), (mib, 2 * mib), (mib, mib + 8192)]);
                let delta = *rng.pick(&[-5i64, -2, -1, 0, 1, 2, 100, 4096]);
                big_offset_case(t, delta, rng.range(1, 3) as usize, rng.below(3), region, rng.below(3))
            }
            6 => {
                let n = near_of(rng, &[256usize, 1024, 1024, 1100], 3);
                // one `push` per slice is cubic for the list model: thorough tier only
                let build = if thorough { rng.below(4) } else { rng.below(2) };
                many_slices_case(n, build, rng.range(65, 90) as usize, rng.below(6), false)
            }
            7 => {
                let n = near_of(rng, &[256usize, 300], 3);
                if rng.chance(1, 2) {
                    many_backrefs_case(n, rng.chance(1, 2), rng.chance(1, 2))
                } else {
                    many_anchors_case(n, *rng.pick(&["clone", "take"]))
                }
            }
            8 => long_history_case(near_of(rng, if thorough { &[1024usize, 1100, 1500, 4096] } else { &[256usize, 300, 600] }, 3), rng.below(4), false),
            9 => {
                let mut ops = Vec::new();
                for _ in 0..rng.range(1, 6) {
                    let o = *rng.pick(&OWNERS);
                    let h = *rng.pick(&HOWS);
                    if scoped_valid(o, h) {
                        let n = *rng.pick(&[2usize, 64, 65, 100, 4096, 4097, 70000, mib - 1, mib, mib + 1, 2 * mib]);
                        ops.push(format!("scoped_panic {} {} {}", o, h, n));
                    }
                }
                Self::wrap_scoped(ops)
            }
            10 => exact_fit_case(c, reach, !thorough),
            _ => {
                let n = near_of(rng, &[2048usize, 4096], 3);
                many_slices_case(n, rng.below(2), rng.range(65, 70) as usize, rng.below(6), false)
            }
        }
    }
}

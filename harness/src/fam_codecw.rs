//! Family `codecw`: HCOBS Encoder / Decoder histories observed *structurally*
//! (slice placement, live chunks, lag), for C09 (lag bound), C10 (streaming
//! footprint, leak), C05 (codec-owned memory).
//!
//! Ops: `enc_new prod|<maxInit> <maxSub>`, `dec_new …`, `feed b|c|a <payload>`,
//! `drain_all`, `drain_slices k`, `drain_bytes k`, `finish`.
//! `<payload>` = hex or `gen:<len>:<seed>:<density>`.
//! Public-API completion (track apigaps): `enc_default` / `dec_default` (`Default`),
//! `enc_from <prefill> <limits>` / `dec_from ...` (`new_from_iovec` on an iovec that already holds
//! bytes: the codec's output goes AFTER them), `feed sb|sc <payload>` (`ZeroCopySink for Encoder`
//! through `&mut dyn ZeroCopySink`), `take_iovec` (`Decoder::take_iovec`).
use crate::fam_iovec::fnv64;
use crate::fam_readn::{kind_index, oracle_c17, parse_script, Call, ScriptedReader};
use crate::util::*;
use hcobs::verif::{VerifDecoder, VerifEncoder};
use hcobs::{Decoder, DecodingError, Encoder};
use owning_iovec::{ByteArena, ConsumingIovec, OwningIovec, ZeroCopySink};
use std::io::IoSlice;
use std::num::NonZeroUsize;

const PROD_INIT: usize = 252;
const PROD_SUB: usize = 64008;
/// Largest chunk the arena allocates for requests below 1 MiB.
const MAX_CHUNK: usize = 1 << 20;

fn xs(mut x: u64) -> u64 {
    x ^= x >> 12;
    x ^= x << 25;
    x ^= x >> 27;
    x
}

pub fn gen_bytes(len: usize, seed: u64, density: u64) -> Vec<u8> {
    let mut x = if seed == 0 { 0x9E3779B97F4A7C15 } else { seed };
    let mut v = Vec::with_capacity(len);
    for _ in 0..len {
        x = xs(x);
        let o = x.wrapping_mul(0x2545F4914F6CDD1D);
        let sel = (o >> 48) & 0xFF;
        let b = if sel < density {
            if (o >> 40) & 1 == 0 {
                0xFE
            } else {
                0xFD
            }
        } else {
            (o >> 56) as u8
        };
        v.push(b);
    }
    v
}

pub fn parse_payload(s: &str) -> Option<Vec<u8>> {
    if let Some(rest) = s.strip_prefix("gen:") {
        let p: Vec<&str> = rest.split(':').collect();
        if p.len() != 3 {
            return None;
        }
        return Some(gen_bytes(p[0].parse().ok()?, p[1].parse().ok()?, p[2].parse().ok()?));
    }
    from_hex(s)
}

enum Codec {
    None,
    Enc(Encoder<'static>),
    VEnc(VerifEncoder<'static>),
    Dec(Decoder<'static>),
    VDec(VerifDecoder<'static>),
    /// finished: the iovec stays observable
    Done(OwningIovec<'static>),
    Failed,
}

pub struct CodecWFamily;

pub(crate) struct CodecWExec {
    codec: Codec,
    /// a second arena, not the codec's own: source of "foreign" anchored input
    foreign: Option<ByteArena>,
    bufs: Vec<Box<[u8]>>,
    base_ordinal: u64,
    base_chunks: usize,
    base_bytes: usize,
    pub(crate) limits: (usize, usize),
    pub(crate) is_enc: bool,
    pub(crate) failed: bool,
    max_lag: usize,
    max_live: usize,
    fed: usize,
    /// everything logically fed so far (payloads, and the bytes readers actually delivered)
    pub(crate) logical_input: Vec<u8>,
    /// everything drained so far
    pub(crate) drained: Vec<u8>,
    /// what the iovec handed to `new_from_iovec` already held
    pub(crate) prefill: Vec<u8>,
    /// a feed has not been followed by `drain_all` yet
    undrained: bool,
    /// every feed so far was followed by `drain_all` before the next one (the streaming regime of C10)
    streaming: bool,
}

fn err_name(e: &DecodingError) -> String {
    match e {
        DecodingError::InvalidInitialSizeHeader(b) => format!("InvalidInitialSizeHeader {}", b),
        DecodingError::InvalidHeaderByte((second, b)) => format!("InvalidHeaderByte {} {}", *second as u8, b),
        DecodingError::InvalidSubsequentSizeHeader(n) => format!("InvalidSubsequentSizeHeader {}", n),
        DecodingError::CutShort => "CutShort".into(),
        DecodingError::MissingImplicitTerminator => "MissingImplicitTerminator".into(),
        _ => "Other".into(),
    }
}

impl CodecWExec {
    fn add_buf(&mut self, bytes: Vec<u8>) -> &'static [u8] {
        let b: Box<[u8]> = bytes.into_boxed_slice();
        let s: &'static [u8] = unsafe { std::slice::from_raw_parts(b.as_ptr(), b.len()) };
        self.bufs.push(b);
        s
    }

    fn canon(&self, ptr: usize, len: usize, live: &[(usize, usize, u64)]) -> Option<String> {
        for (addr, clen, ord) in live {
            if *addr <= ptr && ptr + len <= addr + clen && *ord >= self.base_ordinal {
                return Some(format!("c{}:{}+{}", ord - self.base_ordinal, ptr - addr, len));
            }
        }
        for (id, b) in self.bufs.iter().enumerate() {
            let a = b.as_ptr() as usize;
            if a <= ptr && ptr + len <= a + b.len() && !b.is_empty() {
                return Some(format!("e{}:{}+{}", id, ptr - a, len));
            }
        }
        None
    }

    /// At `finish` of an encoder: drained ++ remaining must equal what a fresh real encoder
    /// produces for the logical input in one call ("a failed or short read leaves the output
    /// unaffected apart from the bytes actually read"; also split/method independence).
    fn end_to_end(&mut self, so: &mut StepOut, v: &OwningIovec<'static>) {
        let mut all = self.drained.clone();
        match v.flatten() {
            Ok(rest) => all.extend_from_slice(&rest),
            Err(_) => so.violations.push("C04 placeholder still pending after finish".into()),
        }
        let reference = if self.limits == (PROD_INIT, PROD_SUB) {
            let mut e = Encoder::new();
            e.encode_copy(&self.logical_input);
            e.finish().flatten().unwrap_or_default()
        } else {
            let Some(mut e) = VerifEncoder::new_from_iovec(OwningIovec::new(), self.limits.0, self.limits.1) else { return };
            e.encode_copy(&self.logical_input);
            e.finish().flatten().unwrap_or_default()
        };
        let mut want = self.prefill.clone();
        want.extend_from_slice(&reference);
        if all != want {
            so.violations.push(
                "C17 encoder output (drained ++ final) differs from a one-call encoding of the payloads plus the bytes the readers delivered".into(),
            );
            so.violations.push("C02 encoder output depends on how the input was fed".into());
        }
    }

    pub(crate) fn with_consumer<R>(&mut self, f: impl FnOnce(&mut ConsumingIovec<'_>) -> R) -> Option<R> {
        match &mut self.codec {
            Codec::Enc(e) => Some(f(&mut e.consumer())),
            Codec::VEnc(e) => Some(f(&mut e.consumer())),
            Codec::Dec(d) => Some(f(&mut d.consumer())),
            Codec::VDec(d) => Some(f(&mut d.consumer())),
            Codec::Done(v) => Some(f(&mut v.consumer())),
            _ => None,
        }
    }

    fn describe(&mut self, so: &mut StepOut) {
        let (live, _) = ByteArena::verif_live_chunks();
        let info = self.with_consumer(|c| {
            let stable: Vec<(usize, usize)> = c.stable_prefix().iter().map(|s: &IoSlice<'_>| (s.as_ptr() as usize, s.len())).collect();
            let mut bytes = Vec::new();
            for s in c.stable_prefix() {
                bytes.extend_from_slice(s);
            }
            (stable, bytes, c.total_size(), c.has_pending_backrefs(), c.len(), c.arena().remaining())
        });
        if let Some((stable, bytes, size, pend, nslices, rem)) = info {
            let mut addrs = Vec::new();
            for (p, l) in &stable {
                if *l == 0 {
                    so.violations.push("C03 codec output exposes an empty slice".into());
                }
                match self.canon(*p, *l, &live) {
                    Some(a) => addrs.push(a),
                    None => {
                        so.violations.push("C05 codec output exposes a slice outside live memory".into());
                        addrs.push("DEAD".into());
                    }
                }
            }
            let shown = if bytes.len() <= 16 { to_hex(&bytes) } else { format!("#{}:{:016x}", bytes.len(), fnv64(&bytes)) };
            so.obs.push(format!("A v0 size={} pend={} stable={}", size, pend as u8, shown));
            so.obs.push(format!(
                "S v0 n={} stable={} rem={}",
                nslices,
                if addrs.is_empty() { "-".to_string() } else { addrs.join(",") },
                rem
            ));
            let lag = size - bytes.len();
            self.max_lag = self.max_lag.max(lag);
            // ---- C09 oracle: lag bounded by one arena chunk + one HCOBS chunk and its header
            let bound = if self.is_enc { MAX_CHUNK + self.limits.1.max(self.limits.0) + 2 } else { 0 };
            if lag > bound {
                so.violations.push(format!(
                    "C09 {} bytes produced but not consumable exceed the bound {} ({})",
                    lag,
                    bound,
                    if self.is_enc { "encoder" } else { "decoder" }
                ));
            }
            let mut mine: Vec<(u64, usize)> = live
                .iter()
                .filter(|(_, _, o)| *o >= self.base_ordinal)
                .map(|(_, l, o)| (*o - self.base_ordinal, *l))
                .collect();
            mine.sort();
            if let Some(a) = self.foreign.as_ref() {
                so.obs.push(format!("S a0 rem={}", a.remaining()));
            }
            so.obs.push(format!(
                "L live={}",
                if mine.is_empty() { "-".to_string() } else { mine.iter().map(|(o, _)| format!("c{}", o)).collect::<Vec<_>>().join(",") }
            ));
            so.obs.push(format!("G lag={}", lag));
            let live_bytes: usize = mine.iter().map(|(_, l)| *l).sum();
            self.max_live = self.max_live.max(live_bytes);
        } else {
            let mut mine: Vec<(u64, usize)> = live
                .iter()
                .filter(|(_, _, o)| *o >= self.base_ordinal)
                .map(|(_, l, o)| (*o - self.base_ordinal, *l))
                .collect();
            mine.sort();
            if let Some(a) = self.foreign.as_ref() {
                so.obs.push(format!("S a0 rem={}", a.remaining()));
            }
            so.obs.push(format!(
                "L live={}",
                if mine.is_empty() { "-".to_string() } else { mine.iter().map(|(o, _)| format!("c{}", o)).collect::<Vec<_>>().join(",") }
            ));
        }
    }
}

fn parse_limits(w: &[&str]) -> Option<Option<(usize, usize)>> {
    match w {
        ["prod"] => Some(None),
        [a, b] => Some(Some((a.parse().ok()?, b.parse().ok()?))),
        _ => None,
    }
}

impl Exec for CodecWExec {
    fn step(&mut self, w: &[&str]) -> StepOut {
        let mut so = StepOut::default();
        match w {
            ["enc_default"] => {
                self.is_enc = true;
                self.limits = (PROD_INIT, PROD_SUB);
                self.codec = Codec::Enc(Encoder::default());
            }
            ["dec_default"] => {
                self.is_enc = false;
                self.limits = (PROD_INIT, PROD_SUB);
                self.codec = Codec::Dec(Decoder::default());
            }
            [op @ ("enc_from" | "dec_from"), prefill, rest @ ..] => {
                let (Some(pre), Some(lim)) = (from_hex(prefill), parse_limits(rest)) else { return StepOut::bad() };
                self.is_enc = *op == "enc_from";
                self.prefill = pre.clone();
                let mut iov = OwningIovec::new();
                let s = self.add_buf(pre);
                iov.push(s);
                self.limits = lim.unwrap_or((PROD_INIT, PROD_SUB));
                self.codec = match (self.is_enc, lim) {
                    (true, None) => Codec::Enc(Encoder::new_from_iovec(iov)),
                    (true, Some((a, b))) => {
                        let Some(e) = VerifEncoder::new_from_iovec(iov, a, b) else { return StepOut::bad() };
                        Codec::VEnc(e)
                    }
                    (false, None) => Codec::Dec(Decoder::new_from_iovec(iov)),
                    (false, Some((a, b))) => {
                        let Some(d) = VerifDecoder::new_from_iovec(iov, a, b) else { return StepOut::bad() };
                        Codec::VDec(d)
                    }
                };
            }
            ["take_iovec"] => {
                if self.failed {
                    return StepOut::bad();
                }
                let old = std::mem::replace(&mut self.codec, Codec::None);
                self.codec = match old {
                    Codec::Dec(d) => {
                        so.obs.push("R ok".into());
                        Codec::Done(d.take_iovec())
                    }
                    other => {
                        self.codec = other;
                        return StepOut::bad();
                    }
                };
            }
            ["enc_new", rest @ ..] => {
                let Some(lim) = parse_limits(rest) else { return StepOut::bad() };
                self.is_enc = true;
                match lim {
                    None => {
                        self.limits = (PROD_INIT, PROD_SUB);
                        self.codec = Codec::Enc(Encoder::new());
                    }
                    Some((a, b)) => {
                        self.limits = (a, b);
                        let Some(e) = VerifEncoder::new_from_iovec(OwningIovec::new(), a, b) else { return StepOut::bad() };
                        self.codec = Codec::VEnc(e);
                    }
                }
            }
            ["dec_new", rest @ ..] => {
                let Some(lim) = parse_limits(rest) else { return StepOut::bad() };
                self.is_enc = false;
                match lim {
                    None => {
                        self.limits = (PROD_INIT, PROD_SUB);
                        self.codec = Codec::Dec(Decoder::new());
                    }
                    Some((a, b)) => {
                        self.limits = (a, b);
                        let Some(d) = VerifDecoder::new_from_iovec(OwningIovec::new(), a, b) else { return StepOut::bad() };
                        self.codec = Codec::VDec(d);
                    }
                }
            }
            ["feed", m, payload] => {
                if self.failed {
                    return StepOut::bad();
                }
                let Some(bytes) = parse_payload(payload) else { return StepOut::bad() };
                if matches!(*m, "sb" | "sc") && !matches!(self.codec, Codec::Enc(_)) {
                    return StepOut::bad();
                }
                self.fed += bytes.len();
                if self.undrained {
                    self.streaming = false;
                }
                self.undrained = true;
                self.logical_input.extend_from_slice(&bytes);
                let att = NonZeroUsize::new(4).unwrap();
                let n = bytes.len();
                let res: Option<Result<(), DecodingError>> = match *m {
                    // `ZeroCopySink for hcobs::Encoder`, called through a trait object
                    "sb" | "sc" => {
                        let s = if *m == "sb" { self.add_buf(bytes) } else { unsafe { std::slice::from_raw_parts(bytes.as_ptr(), bytes.len()) } };
                        match &mut self.codec {
                            Codec::Enc(e) => {
                                let d: &mut dyn ZeroCopySink<'static> = e;
                                if *m == "sb" {
                                    d.append_borrow(s)
                                } else {
                                    d.append_copy(s)
                                }
                                None
                            }
                            _ => return StepOut::bad(),
                        }
                    }
                    "b" => {
                        let s = self.add_buf(bytes);
                        match &mut self.codec {
                            Codec::Enc(e) => {
                                e.encode(s);
                                None
                            }
                            Codec::VEnc(e) => {
                                e.encode(s);
                                None
                            }
                            Codec::Dec(d) => Some(d.decode(s)),
                            Codec::VDec(d) => Some(d.decode(s)),
                            _ => return StepOut::bad(),
                        }
                    }
                    "c" => match &mut self.codec {
                        Codec::Enc(e) => {
                            e.encode_copy(&bytes);
                            None
                        }
                        Codec::VEnc(e) => {
                            e.encode_copy(&bytes);
                            None
                        }
                        Codec::Dec(d) => Some(d.decode_copy(&bytes)),
                        Codec::VDec(d) => Some(d.decode_copy(&bytes)),
                        _ => return StepOut::bad(),
                    },
                    "f" => {
                        let mut rd = &bytes[..];
                        let a = if n == 0 {
                            owning_iovec::AnchoredSlice::default()
                        } else {
                            self.foreign.get_or_insert_with(ByteArena::new).read_n(&mut rd, n, att).expect("slice reader")
                        };
                        match &mut self.codec {
                            Codec::Enc(e) => {
                                e.encode_anchored(a);
                                None
                            }
                            Codec::VEnc(e) => {
                                e.encode_anchored(a);
                                None
                            }
                            Codec::Dec(d) => Some(d.decode_anchored(a)),
                            Codec::VDec(d) => Some(d.decode_anchored(a)),
                            _ => return StepOut::bad(),
                        }
                    }
                    "a" => {
                        let mut rd = &bytes[..];
                        match &mut self.codec {
                            Codec::Enc(e) => {
                                let got = e.encode_read(&mut rd, n, att).unwrap_or(usize::MAX);
                                if got != n {
                                    so.violations.push("C17 encode_read from a slice did not read everything".into());
                                }
                                None
                            }
                            Codec::VEnc(e) => {
                                let a = e.read_n(&mut rd, n, att).expect("slice reader");
                                e.encode_anchored(a);
                                None
                            }
                            Codec::Dec(d) => {
                                let a = d.read_n(&mut rd, n, att).expect("slice reader");
                                Some(d.decode_anchored(a))
                            }
                            Codec::VDec(d) => {
                                let a = d.read_n(&mut rd, n, att).expect("slice reader");
                                Some(d.decode_anchored(a))
                            }
                            _ => return StepOut::bad(),
                        }
                    }
                    _ => return StepOut::bad(),
                };
                match res {
                    None => {}
                    Some(Ok(())) => so.obs.push("R ok".into()),
                    Some(Err(e)) => {
                        so.obs.push(format!("R err {}", err_name(&e)));
                        // keep the output observable, stop decoding
                        self.failed = true;
                    }
                }
            }
            ["foreign_flush"] => {
                if let Some(a) = self.foreign.as_mut() {
                    a.flush_cache();
                }
            }
            ["arena_flush"] => {
                if self.with_consumer(|c| c.arena().flush_cache()).is_none() {
                    return StepOut::bad();
                }
            }
            ["arena_take_drop"] => {
                if self.with_consumer(|c| drop(c.take_arena())).is_none() {
                    return StepOut::bad();
                }
            }
            ["drain_all"] | ["drain_slices", _] | ["drain_bytes", _] => {
                let k = if w.len() == 2 {
                    let Ok(k) = w[1].parse::<usize>() else { return StepOut::bad() };
                    k
                } else {
                    1_000_000_000
                };
                let by_bytes = w[0] == "drain_bytes";
                if w[0] == "drain_all" {
                    self.undrained = false;
                }
                let Some((n, took)) = self.with_consumer(|c| {
                    let mut snap = Vec::new();
                    for s in c.stable_prefix() {
                        snap.extend_from_slice(s);
                    }
                    let before = c.total_size();
                    let n = if by_bytes { c.advance_slices(k) } else { c.consume(k) };
                    let removed = before - c.total_size();
                    snap.truncate(removed.min(snap.len()));
                    (n, (snap, removed))
                }) else {
                    return StepOut::bad();
                };
                if took.0.len() != took.1 {
                    so.violations.push("C04 drained more bytes than were consumable".into());
                }
                self.drained.extend_from_slice(&took.0);
                so.obs.push(format!("R {}", n));
            }
            ["feed_read", count, attempts, src, script] => {
                if self.failed {
                    return StepOut::bad();
                }
                let (Ok(count), Ok(attempts), Some(src), Some(script)) =
                    (count.parse::<usize>(), attempts.parse::<usize>(), from_hex(src), parse_script(script))
                else {
                    return StepOut::bad();
                };
                let Some(att) = NonZeroUsize::new(attempts) else { return StepOut::bad() };
                let mut reader = ScriptedReader::new(src, script);
                // Ok(n) / Err(io kind) / decoding error (reported by decode_read as ErrorKind::Other with a DecodingError inside)
                enum R {
                    Ok(usize),
                    Io(usize),
                    Dec(DecodingError),
                }
                let r = match &mut self.codec {
                    Codec::Enc(e) => match e.encode_read(&mut reader, count, att) {
                        Ok(n) => R::Ok(n),
                        Err(e) => R::Io(kind_index(e.kind())),
                    },
                    Codec::VEnc(e) => match e.read_n(&mut reader, count, att) {
                        Ok(a) => {
                            let n = a.slice().len();
                            e.encode_anchored(a);
                            R::Ok(n)
                        }
                        Err(e) => R::Io(kind_index(e.kind())),
                    },
                    Codec::Dec(d) => match d.decode_read(&mut reader, count, att) {
                        Ok(n) => R::Ok(n),
                        Err(e) => match e.get_ref().and_then(|x| x.downcast_ref::<DecodingError>()) {
                            Some(de) => R::Dec(*de),
                            None => R::Io(kind_index(e.kind())),
                        },
                    },
                    Codec::VDec(d) => match d.read_n(&mut reader, count, att) {
                        Ok(a) => {
                            let n = a.slice().len();
                            match d.decode_anchored(a) {
                                Ok(()) => R::Ok(n),
                                Err(de) => R::Dec(de),
                            }
                        }
                        Err(e) => R::Io(kind_index(e.kind())),
                    },
                    _ => return StepOut::bad(),
                };
                let reqs: Vec<usize> = reader
                    .calls
                    .iter()
                    .map(|c| match c {
                        Call::Delivered(a, _) => *a,
                        Call::Failed(a, _) => *a,
                    })
                    .collect();
                let delivered: Vec<u8> = reader
                    .calls
                    .iter()
                    .flat_map(|c| match c {
                        Call::Delivered(_, b) => b.clone(),
                        Call::Failed(_, _) => vec![],
                    })
                    .collect();
                // C17 on the codec-level entry points: same reader discipline as ByteArena::read_n ...
                let as_result: Result<Vec<u8>, usize> = match &r {
                    R::Ok(_) | R::Dec(_) => Ok(delivered.clone()),
                    R::Io(k) => Err(*k),
                };
                so.violations.extend(oracle_c17(count, attempts, &reader.calls, &as_result));
                match r {
                    R::Ok(n) => {
                        if n != delivered.len() {
                            so.violations.push(format!("C17 encode_read/decode_read reported {} bytes but the reader delivered {}", n, delivered.len()));
                        }
                        // ... and exactly the delivered bytes enter the codec (checked at finish against a one-shot run)
                        self.logical_input.extend_from_slice(&delivered);
                        so.obs.push(format!("R ok {} reqs={}", n, nat_list(&reqs)));
                    }
                    R::Io(k) => so.obs.push(format!("R ioerr {} reqs={}", k, nat_list(&reqs))),
                    R::Dec(de) => {
                        self.logical_input.extend_from_slice(&delivered);
                        so.obs.push(format!("R err {} reqs={}", err_name(&de), nat_list(&reqs)));
                        self.failed = true;
                    }
                }
            }
            ["finish"] => {
                if self.failed {
                    return StepOut::bad();
                }
                let old = std::mem::replace(&mut self.codec, Codec::None);
                self.codec = match old {
                    Codec::Enc(e) => {
                        so.obs.push("R ok".into());
                        let v = e.finish();
                        self.end_to_end(&mut so, &v);
                        Codec::Done(v)
                    }
                    Codec::VEnc(e) => {
                        so.obs.push("R ok".into());
                        let v = e.finish();
                        self.end_to_end(&mut so, &v);
                        Codec::Done(v)
                    }
                    Codec::Dec(d) => match d.finish() {
                        Ok(v) => {
                            so.obs.push("R ok".into());
                            Codec::Done(v)
                        }
                        Err(e) => {
                            so.obs.push(format!("R err {}", err_name(&e)));
                            self.failed = true;
                            Codec::Failed
                        }
                    },
                    Codec::VDec(d) => match d.finish() {
                        Ok(v) => {
                            so.obs.push("R ok".into());
                            Codec::Done(v)
                        }
                        Err(e) => {
                            so.obs.push(format!("R err {}", err_name(&e)));
                            self.failed = true;
                            Codec::Failed
                        }
                    },
                    _ => return StepOut::bad(),
                };
            }
            _ => return StepOut::bad(),
        }
        self.describe(&mut so);
        so
    }

    fn finish(&mut self) -> StepOut {
        let mut so = StepOut::default();
        self.foreign = None;
        // ---- C10 streaming oracle: footprint independent of the amount streamed
        // (three chunks of the largest size the arena allocates for codec requests, plus slack)
        if self.fed > 0 {
            so.tags.push(format!("maxlive_le_{}MiB", (self.max_live + (1 << 20) - 1) >> 20));
            if self.streaming {
                so.tags.push("streaming_regime".into());
                // the current cache, the chunk holding the blocked header, and at most one more chunk
                // that the <= 64008+2 not-yet-consumable bytes spilled into
                let bound = 3 * MAX_CHUNK + 2 * (PROD_SUB + 2);
                if self.max_live > bound {
                    so.violations.push(format!(
                        "C10 live arena bytes reached {} while streaming {} bytes with the consumer draining after every call (bound {})",
                        self.max_live, self.fed, bound
                    ));
                }
            }
        }
        self.codec = Codec::None;
        let chunks = ByteArena::num_live_chunks();
        let bytes = ByteArena::num_live_bytes();
        if chunks != self.base_chunks || bytes != self.base_bytes {
            so.violations.push(format!(
                "C10 after dropping the codec {} chunks / {} bytes are still live (baseline {} / {})",
                chunks, bytes, self.base_chunks, self.base_bytes
            ));
        }
        so
    }

    fn panic_violation(&self, w: &[&str]) -> Option<String> {
        Some(format!("C07 unexpected panic in {}", w.first().copied().unwrap_or("?")))
    }

    fn as_any_mut(&mut self) -> Option<&mut dyn std::any::Any> {
        Some(self)
    }
}

impl CodecWExec {
    fn fresh() -> CodecWExec {
        let (_, next) = ByteArena::verif_live_chunks();
        CodecWExec {
            codec: Codec::None,
            foreign: None,
            bufs: vec![],
            base_ordinal: next,
            base_chunks: ByteArena::num_live_chunks(),
            base_bytes: ByteArena::num_live_bytes(),
            limits: (PROD_INIT, PROD_SUB),
            is_enc: true,
            failed: false,
            max_lag: 0,
            max_live: 0,
            fed: 0,
            logical_input: vec![],
            drained: vec![],
            prefill: vec![],
            undrained: false,
            streaming: true,
        }

    }
}

/// No op of this vocabulary is specified to panic (`panic_violation`): every op may run while the
/// thread is unwinding (track traits, `unwind.rs`).
impl crate::unwind::Probe for CodecWExec {
    fn unwind_safe(&self, _w: &[&str]) -> bool {
        true
    }
}

impl Family for CodecWFamily {
    fn name(&self) -> &'static str {
        "codecw"
    }

    fn new_exec(&self) -> Box<dyn Exec> {
        crate::unwind::UnwindExec::boxed(CodecWExec::fresh)
    }

    fn gen_case(&self, rng: &mut Rng, idx: u64, thorough: bool) -> Vec<String> {
        // track traits: some calls made while the thread is unwinding; now and then a second (short)
        // history whose codec is owned by a scope that panics
        let mut ops = self.gen_plain(rng, idx, thorough);
        if rng.chance(1, 5) {
            ops = crate::unwind::sprinkle(rng, ops, 1, 3, |_| true);
        }
        if idx % 8 != 0 && rng.chance(1, 8) {
            let mut inner = self.gen_plain(rng, 1, false);
            inner.truncate(6);
            ops.push(format!("scoped_panic {}", inner.join(" ; ")));
        }
        ops
    }
}

impl CodecWFamily {
    fn gen_plain(&self, rng: &mut Rng, idx: u64, thorough: bool) -> Vec<String> {
        let mut ops = Vec::new();
        let tiny = rng.chance(2, 3);
        let lim = if tiny {
            let (a, b) = *rng.pick(&[(3usize, 5usize), (1, 1), (2, 7), (4, 300), (252, 600)]);
            format!("{} {}", a, b)
        } else {
            "prod".to_string()
        };
        let decoder = rng.chance(1, 4);
        // streaming soak cases: many medium pieces, drain everything after each call
        let soak = !decoder && !tiny && (idx % 8 == 0);
        if decoder && rng.chance(1, 4) {
            // a valid record whose bytes arrive as ONE anchored slice from a FOREIGN arena: a short chunk
            // (copied, plus the owed stuff sequence) and then a long chunk that is borrowed; afterwards
            // every other holder of the foreign chunk goes away and the consumer drains only part
            ops.push("dec_new prod".to_string());
            let head = rng.range(0, 40) as usize;
            let tail = rng.range(257, 700) as usize;
            let mut payload: Vec<u8> = (0..head).map(|k| (k as u8).wrapping_mul(7) | 1).collect();
            payload.extend([0xFE, 0xFD]);
            payload.extend((0..tail).map(|k| ((k as u8).wrapping_mul(11)) & 0x7F));
            let mut e = Encoder::new();
            e.encode_copy(&payload);
            let wire = e.finish().flatten().unwrap_or_default();
            ops.push(format!("feed f {}", to_hex(&wire)));
            ops.push("foreign_flush".into());
            match rng.below(3) {
                0 => ops.push("drain_slices 1".into()),
                1 => ops.push(format!("drain_bytes {}", head + 2)),
                _ => ops.push(format!("drain_bytes {}", rng.range(1, 45))),
            }
            ops.push("arena_flush".into());
            ops.push("finish".into());
            ops.push("drain_bytes 100".into());
            return ops;
        }
        if decoder && rng.chance(1, 3) {
            // an anchored piece that decodes a long (borrowed) payload run and THEN hits a bad header
            // byte, after which the arena lets go of its chunk: the output must stay readable
            // (a FULL first chunk owes no stuff sequence, so nothing is copied into the arena chunk
            // before the bad header byte: the borrowed payload is then the only user of that chunk)
            let (lim, big) = match rng.below(4) {
                0 | 1 => ("prod".to_string(), 252usize),
                2 => ("prod".to_string(), rng.range(65, 252) as usize),
                _ => ("4 300".to_string(), rng.range(65, 299) as usize),
            };
            ops.push(format!("dec_new {}", lim));
            let mut wire: Vec<u8> = Vec::new();
            if lim == "prod" {
                wire.push(big as u8);
                wire.extend((0..big).map(|k| (k as u8).wrapping_mul(3)));
            } else {
                wire.extend([2u8, 7, 7]);
                wire.extend([(big % 253) as u8, (big / 253) as u8]);
                wire.extend((0..big).map(|k| (k as u8).wrapping_mul(5)));
            }
            match rng.below(3) {
                0 => wire.push(0xFF),                  // bad first header digit of the next chunk
                1 => wire.extend([1u8, 0xFE]),         // bad second digit
                _ => wire.extend([0u8, 0u8, 0xFD]),    // empty chunk, then a bad digit
            }
            let split = if rng.chance(1, 2) { 0 } else { rng.range(0, 3) as usize };
            ops.push(format!("feed a {}", to_hex(&wire[..split.min(wire.len())])));
            ops.push(format!("feed a {}", to_hex(&wire[split.min(wire.len())..])));
            ops.push(rng.pick(&["arena_flush", "arena_take_drop"]).to_string());
            ops.push("drain_bytes 10".into());
            return ops;
        }
        // (track apigaps) constructors: `new`, `Default`, `new_from_iovec` on an iovec that already holds bytes
        let prefill = |rng: &mut Rng| {
            let n = *rng.pick(&[0usize, 1, 3, 64, 65, 300]);
            to_hex(&(0..n).map(|k| 0xA0u8.wrapping_add(k as u8)).collect::<Vec<u8>>())
        };
        let ctor = |rng: &mut Rng, what: &str| match rng.below(6) {
            0 => format!("{}_from {} {}", what, prefill(rng), lim),
            1 if !tiny => format!("{}_default", what),
            _ => format!("{}_new {}", what, lim),
        };
        if decoder {
            ops.push(ctor(rng, "dec"));
            // build a plausible encoded stream with the reference of what the real encoder does:
            // just feed random bytes with small header-ish values; errors are part of the game
            let n = rng.range(1, 10);
            for _ in 0..n {
                let len = rng.range(0, if tiny { 12 } else { 400 }) as usize;
                let v: Vec<u8> = (0..len).map(|_| if rng.chance(1, 3) { rng.range(0, 5) as u8 } else { rng.next() as u8 }).collect();
                ops.push(format!("feed {} {}", rng.pick(&["b", "c", "a", "f"]), to_hex(&v)));
                if rng.chance(1, 3) {
                    ops.push("drain_all".into());
                }
            }
            // `take_iovec` hands the iovec over without the end-of-record check
            if !tiny && rng.chance(1, 3) {
                ops.push("take_iovec".into());
                ops.push("drain_bytes 7".into());
            } else {
                ops.push("finish".into());
            }
            return ops;
        }
        ops.push(ctor(rng, "enc"));
        let pieces = if soak { if thorough { 400 } else { 60 } } else { rng.range(1, 10) };
        for _ in 0..pieces {
            let len = if soak {
                *rng.pick(&[1000u64, 4000, 30000, 64008, 70000, 100000])
            } else if tiny {
                rng.range(0, 40)
            } else {
                match rng.below(6) {
                    0 => rng.range(0, 3),
                    1 => rng.range(250, 256),
                    2 => rng.range(64000, 64016),
                    3 => rng.range(1, 5000),
                    4 => rng.range(60, 300),
                    _ => rng.range(1, 100),
                }
            };
            // the List-based model re-scans a 64008-byte window per chunk: keep FE/FD-dense payloads
            // short under production limits (tiny limits cover the dense cases)
            let dens = if !tiny && len > 1500 { *rng.pick(&[0u64, 0, 1, 8]) } else { *rng.pick(&[0u64, 0, 1, 8, 64, 200, 256]) };
            let seed = rng.next() >> 16;
            let m = if soak {
                *rng.pick(&["c", "c", "c", "b", "a"])
            } else if !tiny && rng.chance(1, 3) {
                // `ZeroCopySink for Encoder` through `dyn` (production encoder only)
                *rng.pick(&["sb", "sc"])
            } else {
                *rng.pick(&["b", "c", "a", "f"])
            };
            ops.push(format!("feed {} gen:{}:{}:{}", m, len, seed, if soak { dens.min(1) } else { dens }));
            if !soak && rng.chance(1, 4) {
                let count = rng.range(0, 12) as usize;
                let src: Vec<u8> = (0..count + 3).map(|_| if rng.chance(1, 3) { *rng.pick(&[0xFEu8, 0xFD]) } else { rng.next() as u8 }).collect();
                let script = *rng.pick(&["d1,d2,d9", "x0,d3,e", "x0,x0,x0,x0", "x3", "d2,x4,d5", "e", "d1,x0,x0,d1,d1", "-", "d40"]);
                ops.push(format!("feed_read {} {} {} {}", count, rng.range(1, 5), to_hex(&src), script));
            }
            match rng.below(if soak { 1 } else { 4 }) {
                0 => ops.push("drain_all".into()),
                1 => ops.push(format!("drain_slices {}", rng.range(0, 3))),
                2 => ops.push(format!("drain_bytes {}", rng.range(0, 300))),
                _ => {}
            }
        }
        ops.push("finish".into());
        ops.push("drain_all".into());
        ops
    }
}

//! Family `codecw`: HCOBS Encoder / Decoder histories observed *structurally*
//! (slice placement, live chunks, lag), for C09 (lag bound), C10 (streaming
//! footprint, leak), C05 (codec-owned memory).
//!
//! Ops: `enc_new prod|<maxInit> <maxSub>`, `dec_new …`, `feed b|c|a <payload>`,
//! `drain_all`, `drain_slices k`, `drain_bytes k`, `drain_read k` (`impl Read for ConsumingIovec`), `finish`.
//! After `R err ...` a decoder lives on (fresh state, same iovec): further feeds / drains / `finish` work.
//! `<payload>` = hex or `gen:<len>:<seed>:<density>`.
//! Public-API completion (track apigaps): `enc_default` / `dec_default` (`Default`),
//! `enc_from <prefill> <limits>` / `dec_from ...` (`new_from_iovec` on an iovec that already holds
//! bytes: the codec's output goes AFTER them), `feed sb|sc <payload>` (`ZeroCopySink for Encoder`
//! through `&mut dyn ZeroCopySink`), `take_iovec` (`Decoder::take_iovec`).
use crate::fam_iovec::fnv64;
use crate::fam_readn::{kind_index, oracle_c17, parse_script, Call, ScriptedReader};
use crate::util::*;
use hcobs::verif::{VerifDecoder, VerifEncoder};
use hcobs::{Decoder, DecodingError, Encoder};
use owning_iovec::{ByteArena, ConsumingIovec, OwningIovec, ZeroCopySink};
use owning_iovec::Backref; // track apileft-prefill
use std::io::IoSlice;
use std::num::NonZeroUsize;

const PROD_INIT: usize = 252;
const PROD_SUB: usize = 64008;
/// Largest chunk the arena allocates for requests below 1 MiB.
const MAX_CHUNK: usize = 1 << 20;

fn xs(mut x: u64) -> u64 {
    x ^= x >> 12;
    x ^= x << 25;
    x ^= x >> 27;
    x
}

pub fn gen_bytes(len: usize, seed: u64, density: u64) -> Vec<u8> {
    let mut x = if seed == 0 { 0x9E3779B97F4A7C15 } else { seed };
    let mut v = Vec::with_capacity(len);
    for _ in 0..len {
        x = xs(x);
        let o = x.wrapping_mul(0x2545F4914F6CDD1D);
        let sel = (o >> 48) & 0xFF;
        let b = if sel < density {
            if (o >> 40) & 1 == 0 {
                0xFE
            } else {
                0xFD
            }
        } else {
            (o >> 56) as u8
        };
        v.push(b);
    }
    v
}

pub fn parse_payload(s: &str) -> Option<Vec<u8>> {
    if let Some(rest) = s.strip_prefix("gen:") {
        let p: Vec<&str> = rest.split(':').collect();
        if p.len() != 3 {
            return None;
        }
        return Some(gen_bytes(p[0].parse().ok()?, p[1].parse().ok()?, p[2].parse().ok()?));
    }
    from_hex(s)
}

enum Codec {
    None,
    Enc(Encoder<'static>),
    VEnc(VerifEncoder<'static>),
    Dec(Decoder<'static>),
    VDec(VerifDecoder<'static>),
    /// finished: the iovec stays observable
    Done(OwningIovec<'static>),
    Failed,
}

pub struct CodecWFamily;

pub(crate) struct CodecWExec {
    codec: Codec,
    /// a second arena, not the codec's own: source of "foreign" anchored input
    foreign: Option<ByteArena>,
    bufs: Vec<Box<[u8]>>,
    base_ordinal: u64,
    base_chunks: usize,
    base_bytes: usize,
    pub(crate) limits: (usize, usize),
    pub(crate) is_enc: bool,
    pub(crate) failed: bool,
    max_lag: usize,
    max_live: usize,
    fed: usize,
    /// everything logically fed so far (payloads, and the bytes readers actually delivered)
    pub(crate) logical_input: Vec<u8>,
    /// everything drained so far
    pub(crate) drained: Vec<u8>,
    /// what the iovec handed to `new_from_iovec` already held
    pub(crate) prefill: Vec<u8>,
    /// a feed has not been followed by `drain_all` yet
    undrained: bool,
    /// every feed so far was followed by `drain_all` before the next one (the streaming regime of C10)
    streaming: bool,
    // ---- (helper decw) decoder session shadow state for the direct oracle
    /// wire bytes of the current message: everything fed since `dec_new` / the last `Err`
    dec_msg: Vec<u8>,
    /// what the decoder had output (drained ++ buffered) when the current message started
    dec_held: Vec<u8>,
    /// a call returned `Err`: the next `describe` re-bases `dec_held`
    dec_rebase: bool,
    /// number of `Err`s so far
    dec_errors: usize,
    /// drained ++ stable bytes after the previous op (C09 prefix clause, checked op by op)
    prev_out: Vec<u8>,
    /// (track apileft-prefill) bookkeeping of `enc_from2` / `dec_from2` cases
    pre: PreTrack,
}

/// (helper decw) Reference HCOBS decoder for the direct oracle of the decoder session: a plain
/// length-prefixed walk written from the format description (first header one byte <= `mi` <= 252, later
/// headers two little-endian radix-253 digits <= `ms`; a chunk shorter than its limit owes `FE FD` unless it
/// is the last one; the last chunk must be short).  `None` = not a complete well-formed message.
fn ref_decode_w(mi: usize, ms: usize, wire: &[u8]) -> Option<Vec<u8>> {
    let mut out = Vec::new();
    let mut pos = 0usize;
    let mut first = true;
    let mut prev_short = false;
    loop {
        if pos == wire.len() {
            return if !first && prev_short { Some(out) } else { None };
        }
        let (n, limit) = if first {
            let n = wire[pos] as usize;
            pos += 1;
            if n > 252 || n > mi {
                return None;
            }
            (n, mi)
        } else {
            if pos + 2 > wire.len() {
                return None;
            }
            let (d0, d1) = (wire[pos] as usize, wire[pos + 1] as usize);
            pos += 2;
            if d0 >= 253 || d1 >= 253 || d0 + 253 * d1 > ms {
                return None;
            }
            (d0 + 253 * d1, ms)
        };
        if !first && prev_short {
            out.extend_from_slice(&[0xFE, 0xFD]);
        }
        if wire.len() - pos < n {
            return None;
        }
        out.extend_from_slice(&wire[pos..pos + n]);
        pos += n;
        prev_short = n < limit;
        first = false;
    }
}

fn err_name(e: &DecodingError) -> String {
    match e {
        DecodingError::InvalidInitialSizeHeader(b) => format!("InvalidInitialSizeHeader {}", b),
        DecodingError::InvalidHeaderByte((second, b)) => format!("InvalidHeaderByte {} {}", *second as u8, b),
        DecodingError::InvalidSubsequentSizeHeader(n) => format!("InvalidSubsequentSizeHeader {}", n),
        DecodingError::CutShort => "CutShort".into(),
        DecodingError::MissingImplicitTerminator => "MissingImplicitTerminator".into(),
        _ => "Other".into(),
    }
}

impl CodecWExec {
    fn add_buf(&mut self, bytes: Vec<u8>) -> &'static [u8] {
        let b: Box<[u8]> = bytes.into_boxed_slice();
        let s: &'static [u8] = unsafe { std::slice::from_raw_parts(b.as_ptr(), b.len()) };
        self.bufs.push(b);
        s
    }

    fn canon(&self, ptr: usize, len: usize, live: &[(usize, usize, u64)]) -> Option<String> {
        for (addr, clen, ord) in live {
            if *addr <= ptr && ptr + len <= addr + clen && *ord >= self.base_ordinal {
                return Some(format!("c{}:{}+{}", ord - self.base_ordinal, ptr - addr, len));
            }
        }
        for (id, b) in self.bufs.iter().enumerate() {
            let a = b.as_ptr() as usize;
            if a <= ptr && ptr + len <= a + b.len() && !b.is_empty() {
                return Some(format!("e{}:{}+{}", id, ptr - a, len));
            }
        }
        None
    }

    /// At `finish` of an encoder: drained ++ remaining must equal what a fresh real encoder
    /// produces for the logical input in one call ("a failed or short read leaves the output
    /// unaffected apart from the bytes actually read"; also split/method independence).
    fn end_to_end(&mut self, so: &mut StepOut, v: &OwningIovec<'static>) {
        if self.pre.active {
            // (track apileft-prefill) a caller placeholder may legitimately still be pending
            let flat = v.flatten();
            self.pre_final(so, flat);
            return;
        }
        let mut all = self.drained.clone();
        match v.flatten() {
            Ok(rest) => all.extend_from_slice(&rest),
            Err(_) => so.violations.push("C04 placeholder still pending after finish".into()),
        }
        let reference = if self.limits == (PROD_INIT, PROD_SUB) {
            let mut e = Encoder::new();
            e.encode_copy(&self.logical_input);
            e.finish().flatten().unwrap_or_default()
        } else {
            let Some(mut e) = VerifEncoder::new_from_iovec(OwningIovec::new(), self.limits.0, self.limits.1) else { return };
            e.encode_copy(&self.logical_input);
            e.finish().flatten().unwrap_or_default()
        };
        let mut want = self.prefill.clone();
        want.extend_from_slice(&reference);
        if all != want {
            so.violations.push(
                "C17 encoder output (drained ++ final) differs from a one-call encoding of the payloads plus the bytes the readers delivered".into(),
            );
            so.violations.push("C02 encoder output depends on how the input was fed".into());
            if !self.prefill.is_empty() {
                // (track apileft-prefill)
                so.violations.push("C01 new_from_iovec: drained ++ final differs from prefill ++ reference encoding".into());
                so.violations.push("C09 new_from_iovec: drained ++ final differs from prefill ++ reference encoding".into());
            }
        }
    }

    /// (helper decw) One decoder call returned: `wire` entered the state machine, verdict `ok`.
    /// An `Err` must be justified (no completion... at least: what was fed is not a well-formed message),
    /// and re-bases the session: the decoder is fresh over the same iovec.
    fn dec_note_call(&mut self, so: &mut StepOut, wire: &[u8], ok: bool) {
        self.dec_msg.extend_from_slice(wire);
        if !ok {
            if ref_decode_w(self.limits.0, self.limits.1, &self.dec_msg).is_some() {
                so.violations.push(format!(
                    "C07 decoder returned Err on a well-formed chunk sequence (after {} earlier error(s))",
                    self.dec_errors
                ));
            }
            self.dec_errors += 1;
            self.dec_rebase = true;
        }
    }

    /// (helper decw) `finish` / `take_iovec` of a decoder: `all` = drained ++ flatten of the returned iovec.
    /// After any number of failed messages, the bytes of the last message are exactly its decoding,
    /// appended to what the iovec held when it started (resynchronisation by the caller).
    fn dec_finish_oracle(&mut self, so: &mut StepOut, verdict_ok: bool, v: Option<&OwningIovec<'static>>) {
        let want = ref_decode_w(self.limits.0, self.limits.1, &self.dec_msg);
        match (verdict_ok, &want) {
            (true, None) => so.violations.push(format!(
                "C07 decoder accepted an ill-formed chunk sequence at finish (after {} error(s))",
                self.dec_errors
            )),
            (false, Some(_)) => so.violations.push(format!(
                "C07 decoder rejected a well-formed chunk sequence at finish (after {} error(s))",
                self.dec_errors
            )),
            _ => {}
        }
        // (merge of helpers decw + prefill) a caller placeholder registered before `new_from_iovec` and still
        // pending hides everything the decoder pushed (C04): `flatten` is `Err` by design and the prefilled-case
        // oracle (`pre_final`) checks what is visible; the session comparison needs the whole output
        if self.pre.caller_pending() {
            return;
        }
        if let (true, Some(d), Some(v)) = (verdict_ok, &want, v) {
            let mut all = self.drained.clone();
            match v.flatten() {
                Ok(rest) => all.extend_from_slice(&rest),
                Err(_) => so.violations.push("C04 decoder iovec has a pending placeholder".into()),
            }
            let mut expect = self.dec_held.clone();
            expect.extend_from_slice(d);
            if all != expect {
                let msg = format!(
                    "decoder output (drained ++ final) is not [what the iovec held when the message started] ++ decode(message), after {} error(s): got {} bytes, want {} + {}",
                    self.dec_errors,
                    all.len(),
                    self.dec_held.len(),
                    d.len()
                );
                so.violations.push(format!("C01 {}", msg));
                so.violations.push(format!("C07 {}", msg));
                so.violations.push(format!("C09 {}", msg));
            }
        }
    }

    pub(crate) fn with_consumer<R>(&mut self, f: impl FnOnce(&mut ConsumingIovec<'_>) -> R) -> Option<R> {
        match &mut self.codec {
            Codec::Enc(e) => Some(f(&mut e.consumer())),
            Codec::VEnc(e) => Some(f(&mut e.consumer())),
            Codec::Dec(d) => Some(f(&mut d.consumer())),
            Codec::VDec(d) => Some(f(&mut d.consumer())),
            Codec::Done(v) => Some(f(&mut v.consumer())),
            _ => None,
        }
    }

    fn describe(&mut self, so: &mut StepOut) {
        let (live, _) = ByteArena::verif_live_chunks();
        let info = self.with_consumer(|c| {
            let stable: Vec<(usize, usize)> = c.stable_prefix().iter().map(|s: &IoSlice<'_>| (s.as_ptr() as usize, s.len())).collect();
            let mut bytes = Vec::new();
            for s in c.stable_prefix() {
                bytes.extend_from_slice(s);
            }
            (stable, bytes, c.total_size(), c.has_pending_backrefs(), c.len(), c.arena().remaining())
        });
        if let Some((stable, bytes, size, pend, nslices, rem)) = info {
            let mut addrs = Vec::new();
            for (p, l) in &stable {
                if *l == 0 {
                    so.violations.push("C03 codec output exposes an empty slice".into());
                }
                match self.canon(*p, *l, &live) {
                    Some(a) => addrs.push(a),
                    None => {
                        so.violations.push("C05 codec output exposes a slice outside live memory".into());
                        addrs.push("DEAD".into());
                    }
                }
            }
            let shown = if bytes.len() <= 16 { to_hex(&bytes) } else { format!("#{}:{:016x}", bytes.len(), fnv64(&bytes)) };
            so.obs.push(format!("A v0 size={} pend={} stable={}", size, pend as u8, shown));
            so.obs.push(format!(
                "S v0 n={} stable={} rem={}",
                nslices,
                if addrs.is_empty() { "-".to_string() } else { addrs.join(",") },
                rem
            ));
            let lag = size - bytes.len();
            self.max_lag = self.max_lag.max(lag);
            // ---- (helper decw) C09 prefix clause, op by op: what was consumable (drained ++ stable) stays a
            // prefix of what is consumable later, errors or not (a failed call only appends)
            {
                let mut out = self.drained.clone();
                out.extend_from_slice(&bytes);
                if !out.starts_with(&self.prev_out) {
                    let msg = "bytes that were drained or consumable are no longer a prefix of drained ++ consumable";
                    so.violations.push(format!("C09 {}", msg));
                    if !self.is_enc {
                        so.violations.push(format!("C07 {} (decoder, {} error(s) so far)", msg, self.dec_errors));
                    }
                }
                if self.dec_rebase {
                    // the decoder registers no placeholder: stable = everything buffered
                    self.dec_rebase = false;
                    self.dec_held = out.clone();
                    self.dec_msg.clear();
                }
                self.prev_out = out;
            }
            // ---- C09 oracle: lag bounded by one arena chunk + one HCOBS chunk and its header
            let bound = if self.is_enc { MAX_CHUNK + self.limits.1.max(self.limits.0) + 2 } else { 0 };
            if lag > bound && !self.pre.caller_pending() {
                so.violations.push(format!(
                    "C09 {} bytes produced but not consumable exceed the bound {} ({})",
                    lag,
                    bound,
                    if self.is_enc { "encoder" } else { "decoder" }
                ));
            }
            let mut mine: Vec<(u64, usize)> = live
                .iter()
                .filter(|(_, _, o)| *o >= self.base_ordinal)
                .map(|(_, l, o)| (*o - self.base_ordinal, *l))
                .collect();
            mine.sort();
            if let Some(a) = self.foreign.as_ref() {
                so.obs.push(format!("S a0 rem={}", a.remaining()));
            }
            so.obs.push(format!(
                "L live={}",
                if mine.is_empty() { "-".to_string() } else { mine.iter().map(|(o, _)| format!("c{}", o)).collect::<Vec<_>>().join(",") }
            ));
            so.obs.push(format!("G lag={}", lag));
            self.pre_note(&bytes, so); // track apileft-prefill
            let live_bytes: usize = mine.iter().map(|(_, l)| *l).sum();
            self.max_live = self.max_live.max(live_bytes);
        } else {
            let mut mine: Vec<(u64, usize)> = live
                .iter()
                .filter(|(_, _, o)| *o >= self.base_ordinal)
                .map(|(_, l, o)| (*o - self.base_ordinal, *l))
                .collect();
            mine.sort();
            if let Some(a) = self.foreign.as_ref() {
                so.obs.push(format!("S a0 rem={}", a.remaining()));
            }
            so.obs.push(format!(
                "L live={}",
                if mine.is_empty() { "-".to_string() } else { mine.iter().map(|(o, _)| format!("c{}", o)).collect::<Vec<_>>().join(",") }
            ));
        }
    }
}

fn parse_limits(w: &[&str]) -> Option<Option<(usize, usize)>> {
    match w {
        ["prod"] => Some(None),
        [a, b] => Some(Some((a.parse().ok()?, b.parse().ok()?))),
        _ => None,
    }
}

impl Exec for CodecWExec {
    fn step(&mut self, w: &[&str]) -> StepOut {
        let mut so = StepOut::default();
        match w {
            ["enc_default"] => {
                self.is_enc = true;
                self.limits = (PROD_INIT, PROD_SUB);
                self.codec = Codec::Enc(Encoder::default());
            }
            ["dec_default"] => {
                self.is_enc = false;
                self.limits = (PROD_INIT, PROD_SUB);
                self.codec = Codec::Dec(Decoder::default());
            }
            [op @ ("enc_from" | "dec_from"), prefill, rest @ ..] => {
                let (Some(pre), Some(lim)) = (from_hex(prefill), parse_limits(rest)) else { return StepOut::bad() };
                self.is_enc = *op == "enc_from";
                self.prefill = pre.clone();
                self.dec_held = pre.clone(); // (helper decw)
                let mut iov = OwningIovec::new();
                let s = self.add_buf(pre);
                iov.push(s);
                self.limits = lim.unwrap_or((PROD_INIT, PROD_SUB));
                self.codec = match (self.is_enc, lim) {
                    (true, None) => Codec::Enc(Encoder::new_from_iovec(iov)),
                    (true, Some((a, b))) => {
                        let Some(e) = VerifEncoder::new_from_iovec(iov, a, b) else { return StepOut::bad() };
                        Codec::VEnc(e)
                    }
                    (false, None) => Codec::Dec(Decoder::new_from_iovec(iov)),
                    (false, Some((a, b))) => {
                        let Some(d) = VerifDecoder::new_from_iovec(iov, a, b) else { return StepOut::bad() };
                        Codec::VDec(d)
                    }
                };
            }
            // >>> track apileft-prefill
            [op @ ("enc_from2" | "dec_from2"), script, rest @ ..] => {
                if !self.step_from2(op, script, rest) {
                    return StepOut::bad();
                }
            }
            ["post_fill", k, hex] => {
                if !self.step_post_fill(k, hex, &mut so) {
                    return StepOut::bad();
                }
            }
            // <<< track apileft-prefill
            ["take_iovec"] => {
                if self.failed {
                    return StepOut::bad();
                }
                let old = std::mem::replace(&mut self.codec, Codec::None);
                self.codec = match old {
                    Codec::Dec(d) => {
                        so.obs.push("R ok".into());
                        Codec::Done(d.take_iovec())
                    }
                    other => {
                        self.codec = other;
                        return StepOut::bad();
                    }
                };
            }
            ["enc_new", rest @ ..] => {
                let Some(lim) = parse_limits(rest) else { return StepOut::bad() };
                self.is_enc = true;
                match lim {
                    None => {
                        self.limits = (PROD_INIT, PROD_SUB);
                        self.codec = Codec::Enc(Encoder::new());
                    }
                    Some((a, b)) => {
                        self.limits = (a, b);
                        let Some(e) = VerifEncoder::new_from_iovec(OwningIovec::new(), a, b) else { return StepOut::bad() };
                        self.codec = Codec::VEnc(e);
                    }
                }
            }
            ["dec_new", rest @ ..] => {
                let Some(lim) = parse_limits(rest) else { return StepOut::bad() };
                self.is_enc = false;
                match lim {
                    None => {
                        self.limits = (PROD_INIT, PROD_SUB);
                        self.codec = Codec::Dec(Decoder::new());
                    }
                    Some((a, b)) => {
                        self.limits = (a, b);
                        let Some(d) = VerifDecoder::new_from_iovec(OwningIovec::new(), a, b) else { return StepOut::bad() };
                        self.codec = Codec::VDec(d);
                    }
                }
            }
            ["feed", m, payload] => {
                if self.failed {
                    return StepOut::bad();
                }
                let Some(bytes) = parse_payload(payload) else { return StepOut::bad() };
                if matches!(*m, "sb" | "sc") && !matches!(self.codec, Codec::Enc(_)) {
                    return StepOut::bad();
                }
                self.fed += bytes.len();
                if self.undrained {
                    self.streaming = false;
                }
                self.undrained = true;
                self.logical_input.extend_from_slice(&bytes);
                let att = NonZeroUsize::new(4).unwrap();
                let n = bytes.len();
                let res: Option<Result<(), DecodingError>> = match *m {
                    // `ZeroCopySink for hcobs::Encoder`, called through a trait object
                    "sb" | "sc" => {
                        let s = if *m == "sb" { self.add_buf(bytes) } else { unsafe { std::slice::from_raw_parts(bytes.as_ptr(), bytes.len()) } };
                        match &mut self.codec {
                            Codec::Enc(e) => {
                                let d: &mut dyn ZeroCopySink<'static> = e;
                                if *m == "sb" {
                                    d.append_borrow(s)
                                } else {
                                    d.append_copy(s)
                                }
                                None
                            }
                            _ => return StepOut::bad(),
                        }
                    }
                    "b" => {
                        let s = self.add_buf(bytes);
                        match &mut self.codec {
                            Codec::Enc(e) => {
                                e.encode(s);
                                None
                            }
                            Codec::VEnc(e) => {
                                e.encode(s);
                                None
                            }
                            Codec::Dec(d) => Some(d.decode(s)),
                            Codec::VDec(d) => Some(d.decode(s)),
                            _ => return StepOut::bad(),
                        }
                    }
                    "c" => match &mut self.codec {
                        Codec::Enc(e) => {
                            e.encode_copy(&bytes);
                            None
                        }
                        Codec::VEnc(e) => {
                            e.encode_copy(&bytes);
                            None
                        }
                        Codec::Dec(d) => Some(d.decode_copy(&bytes)),
                        Codec::VDec(d) => Some(d.decode_copy(&bytes)),
                        _ => return StepOut::bad(),
                    },
                    "f" => {
                        let mut rd = &bytes[..];
                        let a = if n == 0 {
                            owning_iovec::AnchoredSlice::default()
                        } else {
                            self.foreign.get_or_insert_with(ByteArena::new).read_n(&mut rd, n, att).expect("slice reader")
                        };
                        match &mut self.codec {
                            Codec::Enc(e) => {
                                e.encode_anchored(a);
                                None
                            }
                            Codec::VEnc(e) => {
                                e.encode_anchored(a);
                                None
                            }
                            Codec::Dec(d) => Some(d.decode_anchored(a)),
                            Codec::VDec(d) => Some(d.decode_anchored(a)),
                            _ => return StepOut::bad(),
                        }
                    }
                    "a" => {
                        let mut rd = &bytes[..];
                        match &mut self.codec {
                            Codec::Enc(e) => {
                                let got = e.encode_read(&mut rd, n, att).unwrap_or(usize::MAX);
                                if got != n {
                                    so.violations.push("C17 encode_read from a slice did not read everything".into());
                                }
                                None
                            }
                            Codec::VEnc(e) => {
                                let a = e.read_n(&mut rd, n, att).expect("slice reader");
                                e.encode_anchored(a);
                                None
                            }
                            Codec::Dec(d) => {
                                let a = d.read_n(&mut rd, n, att).expect("slice reader");
                                Some(d.decode_anchored(a))
                            }
                            Codec::VDec(d) => {
                                let a = d.read_n(&mut rd, n, att).expect("slice reader");
                                Some(d.decode_anchored(a))
                            }
                            _ => return StepOut::bad(),
                        }
                    }
                    _ => return StepOut::bad(),
                };
                match res {
                    None => {}
                    Some(Ok(())) => so.obs.push("R ok".into()),
                    Some(Err(e)) => {
                        so.obs.push(format!("R err {}", err_name(&e)));
                        // (helper decw) the decoder object lives on in `InitialState` over the same iovec
                    }
                }
                // (helper decw) direct oracle for the decoder: session shadow state
                if !self.is_enc {
                    let verdict = match &res {
                        Some(Err(_)) => Some(false),
                        Some(Ok(())) => Some(true),
                        None => None,
                    };
                    if let Some(ok) = verdict {
                        let wire = self.logical_input[self.logical_input.len() - n..].to_vec();
                        self.dec_note_call(&mut so, &wire, ok);
                    }
                }
            }
            ["foreign_flush"] => {
                if let Some(a) = self.foreign.as_mut() {
                    a.flush_cache();
                }
            }
            ["arena_flush"] => {
                if self.with_consumer(|c| c.arena().flush_cache()).is_none() {
                    return StepOut::bad();
                }
            }
            ["arena_take_drop"] => {
                if self.with_consumer(|c| drop(c.take_arena())).is_none() {
                    return StepOut::bad();
                }
            }
            ["drain_all"] | ["drain_slices", _] | ["drain_bytes", _] => {
                let k = if w.len() == 2 {
                    let Ok(k) = w[1].parse::<usize>() else { return StepOut::bad() };
                    k
                } else {
                    1_000_000_000
                };
                let by_bytes = w[0] == "drain_bytes";
                if w[0] == "drain_all" {
                    self.undrained = false;
                }
                let Some((n, took)) = self.with_consumer(|c| {
                    let mut snap = Vec::new();
                    for s in c.stable_prefix() {
                        snap.extend_from_slice(s);
                    }
                    let before = c.total_size();
                    let n = if by_bytes { c.advance_slices(k) } else { c.consume(k) };
                    let removed = before - c.total_size();
                    snap.truncate(removed.min(snap.len()));
                    (n, (snap, removed))
                }) else {
                    return StepOut::bad();
                };
                if took.0.len() != took.1 {
                    so.violations.push("C04 drained more bytes than were consumable".into());
                }
                self.drained.extend_from_slice(&took.0);
                so.obs.push(format!("R {}", n));
            }
            // (helper decw) `consumer().read(&mut buf[..k])`: `impl Read for ConsumingIovec`
            ["drain_read", k] => {
                let Ok(k) = k.parse::<usize>() else { return StepOut::bad() };
                if k > (1 << 24) {
                    return StepOut::bad();
                }
                let Some((got, snap, removed)) = self.with_consumer(|c| {
                    use std::io::Read;
                    let mut snap = Vec::new();
                    for s in c.stable_prefix() {
                        snap.extend_from_slice(s);
                    }
                    let before = c.total_size();
                    // poisoned destination: bytes beyond the returned count must stay untouched
                    let mut buf = vec![0xA5u8; k + 3];
                    let n = c.read(&mut buf[..k]).expect("ConsumingIovec::read never fails");
                    let removed = before - c.total_size();
                    ((buf, n), snap, removed)
                }) else {
                    return StepOut::bad();
                };
                let (buf, n) = got;
                // ---- direct oracle (C03/C04/C09): exactly the first min(k, consumable) consumable bytes come
                // out, in order; as many bytes leave the iovec as were copied; nothing else is written
                // (a SHORT read - fewer than min(k, consumable) bytes - is allowed by `io::Read` and loses nothing:
                // it is left to the correspondence with the model, which fills the buffer like the code does)
                if n > k || n > snap.len() {
                    so.violations.push(format!("C09 read(buf[..{}]) returned {} with {} bytes consumable", k, n, snap.len()));
                }
                if n > k || buf[..n.min(k)] != snap[..n.min(snap.len()).min(k)] {
                    so.violations.push("C09 read() returned other bytes than the head of the stable prefix".into());
                }
                if removed != n {
                    so.violations.push(format!("C09 read() copied {} bytes but consumed {}", n, removed));
                }
                if buf[n.min(k)..].iter().any(|b| *b != 0xA5) {
                    so.violations.push("C09 read() wrote beyond the bytes it reported".into());
                }
                self.drained.extend_from_slice(&buf[..n.min(k)]);
                let shown = if n <= 16 { if n == 0 { "-".to_string() } else { to_hex(&buf[..n]) } } else { format!("#{}:{:016x}", n, fnv64(&buf[..n])) };
                so.obs.push(format!("R {} {}", n, shown));
            }
            ["feed_read", count, attempts, src, script] => {
                if self.failed {
                    return StepOut::bad();
                }
                let (Ok(count), Ok(attempts), Some(src), Some(script)) =
                    (count.parse::<usize>(), attempts.parse::<usize>(), from_hex(src), parse_script(script))
                else {
                    return StepOut::bad();
                };
                let Some(att) = NonZeroUsize::new(attempts) else { return StepOut::bad() };
                let mut reader = ScriptedReader::new(src, script);
                // Ok(n) / Err(io kind) / decoding error (reported by decode_read as ErrorKind::Other with a DecodingError inside)
                enum R {
                    Ok(usize),
                    Io(usize),
                    Dec(DecodingError),
                }
                let r = match &mut self.codec {
                    Codec::Enc(e) => match e.encode_read(&mut reader, count, att) {
                        Ok(n) => R::Ok(n),
                        Err(e) => R::Io(kind_index(e.kind())),
                    },
                    Codec::VEnc(e) => match e.read_n(&mut reader, count, att) {
                        Ok(a) => {
                            let n = a.slice().len();
                            e.encode_anchored(a);
                            R::Ok(n)
                        }
                        Err(e) => R::Io(kind_index(e.kind())),
                    },
                    Codec::Dec(d) => match d.decode_read(&mut reader, count, att) {
                        Ok(n) => R::Ok(n),
                        Err(e) => match e.get_ref().and_then(|x| x.downcast_ref::<DecodingError>()) {
                            Some(de) => R::Dec(*de),
                            None => R::Io(kind_index(e.kind())),
                        },
                    },
                    Codec::VDec(d) => match d.read_n(&mut reader, count, att) {
                        Ok(a) => {
                            let n = a.slice().len();
                            match d.decode_anchored(a) {
                                Ok(()) => R::Ok(n),
                                Err(de) => R::Dec(de),
                            }
                        }
                        Err(e) => R::Io(kind_index(e.kind())),
                    },
                    _ => return StepOut::bad(),
                };
                let reqs: Vec<usize> = reader
                    .calls
                    .iter()
                    .map(|c| match c {
                        Call::Delivered(a, _) => *a,
                        Call::Failed(a, _) => *a,
                    })
                    .collect();
                let delivered: Vec<u8> = reader
                    .calls
                    .iter()
                    .flat_map(|c| match c {
                        Call::Delivered(_, b) => b.clone(),
                        Call::Failed(_, _) => vec![],
                    })
                    .collect();
                // C17 on the codec-level entry points: same reader discipline as ByteArena::read_n ...
                let as_result: Result<Vec<u8>, usize> = match &r {
                    R::Ok(_) | R::Dec(_) => Ok(delivered.clone()),
                    R::Io(k) => Err(*k),
                };
                so.violations.extend(oracle_c17(count, attempts, &reader.calls, &as_result));
                enum R2 {
                    Ok,
                    Other,
                }
                let r2 = if matches!(r, R::Ok(_)) { R2::Ok } else { R2::Other };
                match r {
                    R::Ok(n) => {
                        if n != delivered.len() {
                            so.violations.push(format!("C17 encode_read/decode_read reported {} bytes but the reader delivered {}", n, delivered.len()));
                        }
                        // ... and exactly the delivered bytes enter the codec (checked at finish against a one-shot run)
                        self.logical_input.extend_from_slice(&delivered);
                        so.obs.push(format!("R ok {} reqs={}", n, nat_list(&reqs)));
                    }
                    R::Io(k) => so.obs.push(format!("R ioerr {} reqs={}", k, nat_list(&reqs))),
                    R::Dec(de) => {
                        self.logical_input.extend_from_slice(&delivered);
                        so.obs.push(format!("R err {} reqs={}", err_name(&de), nat_list(&reqs)));
                        // (helper decw) the decoder object lives on
                        if !self.is_enc {
                            self.dec_note_call(&mut so, &delivered, false);
                        }
                    }
                }
                if !self.is_enc {
                    if let R2::Ok = r2 {
                        self.dec_note_call(&mut so, &delivered, true);
                    }
                }
            }
            ["finish"] => {
                if self.failed {
                    return StepOut::bad();
                }
                let old = std::mem::replace(&mut self.codec, Codec::None);
                self.codec = match old {
                    Codec::Enc(e) => {
                        so.obs.push("R ok".into());
                        let v = e.finish();
                        self.end_to_end(&mut so, &v);
                        Codec::Done(v)
                    }
                    Codec::VEnc(e) => {
                        so.obs.push("R ok".into());
                        let v = e.finish();
                        self.end_to_end(&mut so, &v);
                        Codec::Done(v)
                    }
                    Codec::Dec(d) => match d.finish() {
                        Ok(v) => {
                            so.obs.push("R ok".into());
                            self.dec_finish_oracle(&mut so, true, Some(&v));
                            self.dec_final(&mut so, &v); // track apileft-prefill
                            Codec::Done(v)
                        }
                        Err(e) => {
                            so.obs.push(format!("R err {}", err_name(&e)));
                            self.dec_finish_oracle(&mut so, false, None);
                            self.failed = true;
                            Codec::Failed
                        }
                    },
                    Codec::VDec(d) => match d.finish() {
                        Ok(v) => {
                            so.obs.push("R ok".into());
                            self.dec_finish_oracle(&mut so, true, Some(&v));
                            self.dec_final(&mut so, &v); // track apileft-prefill
                            Codec::Done(v)
                        }
                        Err(e) => {
                            so.obs.push(format!("R err {}", err_name(&e)));
                            self.dec_finish_oracle(&mut so, false, None);
                            self.failed = true;
                            Codec::Failed
                        }
                    },
                    _ => return StepOut::bad(),
                };
            }
            _ => return StepOut::bad(),
        }
        self.describe(&mut so);
        so
    }

    fn finish(&mut self) -> StepOut {
        let mut so = StepOut::default();
        self.foreign = None;
        // ---- C10 streaming oracle: footprint independent of the amount streamed
        // (three chunks of the largest size the arena allocates for codec requests, plus slack)
        if self.fed > 0 {
            so.tags.push(format!("maxlive_le_{}MiB", (self.max_live + (1 << 20) - 1) >> 20));
            if self.streaming {
                so.tags.push("streaming_regime".into());
                // the current cache, the chunk holding the blocked header, and at most one more chunk
                // that the <= 64008+2 not-yet-consumable bytes spilled into
                let bound = 3 * MAX_CHUNK + 2 * (PROD_SUB + 2);
                if self.max_live > bound {
                    so.violations.push(format!(
                        "C10 live arena bytes reached {} while streaming {} bytes with the consumer draining after every call (bound {})",
                        self.max_live, self.fed, bound
                    ));
                }
            }
        }
        self.codec = Codec::None;
        let chunks = ByteArena::num_live_chunks();
        let bytes = ByteArena::num_live_bytes();
        if chunks != self.base_chunks || bytes != self.base_bytes {
            so.violations.push(format!(
                "C10 after dropping the codec {} chunks / {} bytes are still live (baseline {} / {})",
                chunks, bytes, self.base_chunks, self.base_bytes
            ));
        }
        so
    }

    fn panic_violation(&self, w: &[&str]) -> Option<String> {
        Some(format!("C07 unexpected panic in {}", w.first().copied().unwrap_or("?")))
    }

    fn as_any_mut(&mut self) -> Option<&mut dyn std::any::Any> {
        Some(self)
    }
}

impl CodecWExec {
    fn fresh() -> CodecWExec {
        let (_, next) = ByteArena::verif_live_chunks();
        CodecWExec {
            codec: Codec::None,
            foreign: None,
            bufs: vec![],
            base_ordinal: next,
            base_chunks: ByteArena::num_live_chunks(),
            base_bytes: ByteArena::num_live_bytes(),
            limits: (PROD_INIT, PROD_SUB),
            is_enc: true,
            failed: false,
            max_lag: 0,
            max_live: 0,
            fed: 0,
            logical_input: vec![],
            drained: vec![],
            prefill: vec![],
            undrained: false,
            streaming: true,
            dec_msg: vec![],
            dec_held: vec![],
            dec_rebase: false,
            dec_errors: 0,
            prev_out: vec![],
            pre: PreTrack::default(),
        }

    }
}

/// No op of this vocabulary is specified to panic (`panic_violation`): every op may run while the
/// thread is unwinding (track traits, `unwind.rs`).
impl crate::unwind::Probe for CodecWExec {
    fn unwind_safe(&self, _w: &[&str]) -> bool {
        true
    }
}

impl Family for CodecWFamily {
    fn name(&self) -> &'static str {
        "codecw"
    }

    fn new_exec(&self) -> Box<dyn Exec> {
        crate::unwind::UnwindExec::boxed(CodecWExec::fresh)
    }

    fn enumerated(&self, _thorough: bool) -> Vec<Vec<String>> {
        let mut cases = prefill_enumerated(); // track apileft-prefill
        // a held-back FE across a read that FAILS (hard error, EINTR exhaustion, EOF, short read),
        // then a piece starting with FD / FE / something else: the failed read contributes nothing,
        // so the FE FD must still end the chunk (seed C02-5 flushed the FE on the failed read)
        for limits in ["prod", "3 5"] {
            for first in ["c 6162fe", "b 6162fe", "c fe", "b 61fefdfe"] {
                for (count, att, src, script) in [("4", "2", "aabbccdd", "x3"), ("4", "2", "aabbccdd", "x0,x0"), ("4", "3", "aabbccdd", "e"),
                                                  ("4", "3", "fdbbccdd", "x0,d1,x2"), ("0", "1", "aa", "-")] {
                    for next in ["b fd6364", "c fd", "c fe", "b 63", "a fd63"] {
                        cases.push(vec![
                            format!("enc_new {}", limits),
                            format!("feed {}", first),
                            format!("feed_read {} {} {} {}", count, att, src, script),
                            format!("feed {}", next),
                            "finish".to_string(),
                            "drain_all".to_string(),
                        ]);
                    }
                }
            }
        }
        // round-6 seed C10-6: anchored decoder input that yields NO output (an invalid first header, or
        // a call on a decoder already in error) leaves a zero-count anchor on an iovec holding no slice;
        // the next consume - even of nothing - must drop it.  Blocks large enough that the arena rolls
        // to a new chunk between calls, so a retained anchor shows in the live-chunk lines.
        for (block, rounds) in [(3000usize, 4usize), (2500, 5), (70000, 3)] {
            for drain in ["drain_all", "drain_slices 1", "drain_bytes 7", "drain_read 9"] {
                for good_first in [false, true] {
                    let mut ops = vec!["dec_new prod".to_string()];
                    if good_first {
                        ops.push("feed a 0261fefd".to_string());
                        ops.push(drain.to_string());
                    }
                    for r in 0..rounds {
                        let mut src = vec![0xffu8];
                        src.extend((1..block).map(|k| (k as u8).wrapping_mul(31).wrapping_add(r as u8) % 250));
                        ops.push(format!("feed_read {} 2 {} d100000", block, to_hex(&src)));
                        ops.push(drain.to_string());
                    }
                    ops.push("drain_all".to_string());
                    cases.push(ops);
                }
            }
        }
        // the same shape long enough for the direct C10 streaming oracle (bound ~3.1 MiB): 60 anchored
        // pieces of 70000 bytes, all FE/FD (so each starts with an invalid header and decodes to nothing;
        // the decoder is fresh again after each error), the consumer draining after every call
        for drain in ["drain_all", "drain_slices 1"] {
            let mut ops = vec!["dec_new prod".to_string()];
            for r in 0..60 {
                ops.push(format!("feed a gen:70000:{}:256", 77 + r));
                ops.push(drain.to_string());
            }
            cases.push(ops);
        }
        cases
    }

    fn gen_case(&self, rng: &mut Rng, idx: u64, thorough: bool) -> Vec<String> {
        // track traits: some calls made while the thread is unwinding; now and then a second (short)
        // history whose codec is owned by a scope that panics
        let mut ops = self.gen_plain(rng, idx, thorough);
        if rng.chance(1, 5) {
            ops = crate::unwind::sprinkle(rng, ops, 1, 3, |_| true);
        }
        if idx % 8 != 0 && rng.chance(1, 8) {
            let mut inner = self.gen_plain(rng, 1, false);
            inner.truncate(6);
            ops.push(format!("scoped_panic {}", inner.join(" ; ")));
        }
        ops
    }
}

impl CodecWFamily {
    fn gen_plain(&self, rng: &mut Rng, idx: u64, thorough: bool) -> Vec<String> {
        if idx % 8 == 3 {
            return gen_prefill_case(rng); // track apileft-prefill (idx % 4 == 1 are helper decw's sessions)
        }
        let mut ops = Vec::new();
        let tiny = rng.chance(2, 3);
        let lim = if tiny {
            let (a, b) = *rng.pick(&[(3usize, 5usize), (1, 1), (2, 7), (4, 300), (252, 600)]);
            format!("{} {}", a, b)
        } else {
            "prod".to_string()
        };
        // ---- (helper decw) BEGIN: decoder SESSIONS - messages separated by errors; the caller resynchronises
        // by feeding a complete valid message after an `Err`; all input methods, all drains incl. `drain_read`
        if idx % 4 == 1 {
            return gen_dec_session(rng);
        }
        // ---- (helper decw) END
        let decoder = rng.chance(1, 4);
        // streaming soak cases: many medium pieces, drain everything after each call
        let soak = !decoder && !tiny && (idx % 8 == 0);
        if decoder && rng.chance(1, 4) {
            // a valid record whose bytes arrive as ONE anchored slice from a FOREIGN arena: a short chunk
            // (copied, plus the owed stuff sequence) and then a long chunk that is borrowed; afterwards
            // every other holder of the foreign chunk goes away and the consumer drains only part
            ops.push("dec_new prod".to_string());
            let head = rng.range(0, 40) as usize;
            let tail = rng.range(257, 700) as usize;
            let mut payload: Vec<u8> = (0..head).map(|k| (k as u8).wrapping_mul(7) | 1).collect();
            payload.extend([0xFE, 0xFD]);
            payload.extend((0..tail).map(|k| ((k as u8).wrapping_mul(11)) & 0x7F));
            let mut e = Encoder::new();
            e.encode_copy(&payload);
            let wire = e.finish().flatten().unwrap_or_default();
            ops.push(format!("feed f {}", to_hex(&wire)));
            ops.push("foreign_flush".into());
            match rng.below(3) {
                0 => ops.push("drain_slices 1".into()),
                1 => ops.push(format!("drain_bytes {}", head + 2)),
                _ => ops.push(format!("drain_bytes {}", rng.range(1, 45))),
            }
            ops.push("arena_flush".into());
            ops.push("finish".into());
            ops.push("drain_bytes 100".into());
            return ops;
        }
        if decoder && rng.chance(1, 3) {
            // an anchored piece that decodes a long (borrowed) payload run and THEN hits a bad header
            // byte, after which the arena lets go of its chunk: the output must stay readable
            // (a FULL first chunk owes no stuff sequence, so nothing is copied into the arena chunk
            // before the bad header byte: the borrowed payload is then the only user of that chunk)
            let (lim, big) = match rng.below(4) {
                0 | 1 => ("prod".to_string(), 252usize),
                2 => ("prod".to_string(), rng.range(65, 252) as usize),
                _ => ("4 300".to_string(), rng.range(65, 299) as usize),
            };
            ops.push(format!("dec_new {}", lim));
            let mut wire: Vec<u8> = Vec::new();
            if lim == "prod" {
                wire.push(big as u8);
                wire.extend((0..big).map(|k| (k as u8).wrapping_mul(3)));
            } else {
                wire.extend([2u8, 7, 7]);
                wire.extend([(big % 253) as u8, (big / 253) as u8]);
                wire.extend((0..big).map(|k| (k as u8).wrapping_mul(5)));
            }
            match rng.below(3) {
                0 => wire.push(0xFF),                  // bad first header digit of the next chunk
                1 => wire.extend([1u8, 0xFE]),         // bad second digit
                _ => wire.extend([0u8, 0u8, 0xFD]),    // empty chunk, then a bad digit
            }
            let split = if rng.chance(1, 2) { 0 } else { rng.range(0, 3) as usize };
            ops.push(format!("feed a {}", to_hex(&wire[..split.min(wire.len())])));
            ops.push(format!("feed a {}", to_hex(&wire[split.min(wire.len())..])));
            ops.push(rng.pick(&["arena_flush", "arena_take_drop"]).to_string());
            ops.push("drain_bytes 10".into());
            return ops;
        }
        // (track apigaps) constructors: `new`, `Default`, `new_from_iovec` on an iovec that already holds bytes
        let prefill = |rng: &mut Rng| {
            let n = *rng.pick(&[0usize, 1, 3, 64, 65, 300]);
            to_hex(&(0..n).map(|k| 0xA0u8.wrapping_add(k as u8)).collect::<Vec<u8>>())
        };
        let ctor = |rng: &mut Rng, what: &str| match rng.below(6) {
            0 => format!("{}_from {} {}", what, prefill(rng), lim),
            1 if !tiny => format!("{}_default", what),
            _ => format!("{}_new {}", what, lim),
        };
        if decoder {
            ops.push(ctor(rng, "dec"));
            // build a plausible encoded stream with the reference of what the real encoder does:
            // just feed random bytes with small header-ish values; errors are part of the game
            let n = rng.range(1, 10);
            for _ in 0..n {
                let len = rng.range(0, if tiny { 12 } else { 400 }) as usize;
                let v: Vec<u8> = (0..len).map(|_| if rng.chance(1, 3) { rng.range(0, 5) as u8 } else { rng.next() as u8 }).collect();
                ops.push(format!("feed {} {}", rng.pick(&["b", "c", "a", "f"]), to_hex(&v)));
                if rng.chance(1, 3) {
                    ops.push("drain_all".into());
                }
                // (helper decw) `impl Read for ConsumingIovec`
                if rng.chance(1, 5) {
                    ops.push(format!("drain_read {}", rng.range(0, 40)));
                }
            }
            // `take_iovec` hands the iovec over without the end-of-record check
            if !tiny && rng.chance(1, 3) {
                ops.push("take_iovec".into());
                ops.push("drain_bytes 7".into());
            } else {
                ops.push("finish".into());
            }
            return ops;
        }
        ops.push(ctor(rng, "enc"));
        let pieces = if soak { if thorough { 400 } else { 60 } } else { rng.range(1, 10) };
        for _ in 0..pieces {
            let len = if soak {
                *rng.pick(&[1000u64, 4000, 30000, 64008, 70000, 100000])
            } else if tiny {
                rng.range(0, 40)
            } else {
                match rng.below(6) {
                    0 => rng.range(0, 3),
                    1 => rng.range(250, 256),
                    2 => rng.range(64000, 64016),
                    3 => rng.range(1, 5000),
                    4 => rng.range(60, 300),
                    _ => rng.range(1, 100),
                }
            };
            // the List-based model re-scans a 64008-byte window per chunk: keep FE/FD-dense payloads
            // short under production limits (tiny limits cover the dense cases)
            let dens = if !tiny && len > 1500 { *rng.pick(&[0u64, 0, 1, 8]) } else { *rng.pick(&[0u64, 0, 1, 8, 64, 200, 256]) };
            let seed = rng.next() >> 16;
            let m = if soak {
                *rng.pick(&["c", "c", "c", "b", "a"])
            } else if !tiny && rng.chance(1, 3) {
                // `ZeroCopySink for Encoder` through `dyn` (production encoder only)
                *rng.pick(&["sb", "sc"])
            } else {
                *rng.pick(&["b", "c", "a", "f"])
            };
            ops.push(format!("feed {} gen:{}:{}:{}", m, len, seed, if soak { dens.min(1) } else { dens }));
            if !soak && rng.chance(1, 4) {
                let count = rng.range(0, 12) as usize;
                let src: Vec<u8> = (0..count + 3).map(|_| if rng.chance(1, 3) { *rng.pick(&[0xFEu8, 0xFD]) } else { rng.next() as u8 }).collect();
                let script = *rng.pick(&["d1,d2,d9", "x0,d3,e", "x0,x0,x0,x0", "x3", "d2,x4,d5", "e", "d1,x0,x0,d1,d1", "-", "d40"]);
                ops.push(format!("feed_read {} {} {} {}", count, rng.range(1, 5), to_hex(&src), script));
            }
            match rng.below(if soak { 1 } else { 4 }) {
                0 => ops.push("drain_all".into()),
                1 => ops.push(format!("drain_slices {}", rng.range(0, 3))),
                2 => ops.push(format!("drain_bytes {}", rng.range(0, 300))),
                _ => {}
            }
            // (helper decw) `impl Read for ConsumingIovec`, mixed with the other drains
            if !soak && rng.chance(1, 5) {
                ops.push(format!("drain_read {}", *rng.pick(&[0u64, 1, 2, 3, 7, 64, 65, 300, 5000])));
            }
        }
        ops.push("finish".into());
        // (helper decw) sometimes read the tail out through `Read` (short and long destination buffers)
        if rng.chance(1, 3) {
            ops.push(format!("drain_read {}", *rng.pick(&[1u64, 5, 100, 70000])));
        }
        ops.push("drain_all".into());
        ops
    }
}

// ---- (helper decw) decoder sessions -------------------------------------------------------------------

/// Offsets of the size headers of a well-formed wire message (first: 1 byte, later: 2 bytes).
fn header_positions(mi: usize, ms: usize, wire: &[u8]) -> Vec<usize> {
    let mut v = Vec::new();
    let mut pos = 0usize;
    let mut first = true;
    while pos < wire.len() {
        v.push(pos);
        let n = if first {
            let n = wire[pos] as usize;
            pos += 1;
            n.min(mi)
        } else {
            if pos + 2 > wire.len() {
                break;
            }
            let n = wire[pos] as usize + 253 * wire[pos + 1] as usize;
            pos += 2;
            n.min(ms)
        };
        pos += n;
        first = false;
    }
    v
}

fn real_encode(lim: Option<(usize, usize)>, payload: &[u8]) -> Vec<u8> {
    match lim {
        None => {
            let mut e = Encoder::new();
            e.encode_copy(payload);
            e.finish().flatten().unwrap_or_default()
        }
        Some((a, b)) => {
            let mut e = VerifEncoder::new_from_iovec(OwningIovec::new(), a, b).expect("limits");
            e.encode_copy(payload);
            e.finish().flatten().unwrap_or_default()
        }
    }
}

/// One decoder object, several messages.  Every message but (possibly) the last ends in a call that
/// returns `Err` (a corrupted header somewhere in the message, in the middle of a multi-piece feed); the
/// caller then drops the rest of that message and feeds the next one: a complete valid message decodes
/// to exactly its payload, appended after whatever the failed messages had already pushed.
fn gen_dec_session(rng: &mut Rng) -> Vec<String> {
    let mut ops = Vec::new();
    let lim: Option<(usize, usize)> = if rng.chance(2, 3) { Some(*rng.pick(&[(3usize, 5usize), (1, 1), (2, 7), (4, 300), (252, 600)])) } else { None };
    let (mi, ms) = lim.unwrap_or((PROD_INIT, PROD_SUB));
    let lim_s = match lim {
        Some((a, b)) => format!("{} {}", a, b),
        None => "prod".to_string(),
    };
    if rng.chance(1, 4) {
        let n = *rng.pick(&[1usize, 3, 64, 65, 300]);
        ops.push(format!("dec_from {} {}", to_hex(&(0..n).map(|k| 0xA0u8.wrapping_add(k as u8)).collect::<Vec<u8>>()), lim_s));
    } else {
        ops.push(format!("dec_new {}", lim_s));
    }
    let drain = |rng: &mut Rng, ops: &mut Vec<String>| match rng.below(8) {
        0 => ops.push("drain_all".into()),
        1 => ops.push(format!("drain_slices {}", rng.range(0, 3))),
        2 => ops.push(format!("drain_bytes {}", rng.range(0, 80))),
        3 | 4 => ops.push(format!("drain_read {}", *rng.pick(&[0u64, 1, 2, 3, 5, 9, 64, 65, 300]))),
        _ => {}
    };
    let feed = |rng: &mut Rng, ops: &mut Vec<String>, piece: &[u8]| {
        if rng.chance(1, 5) {
            // `decode_read` with a scripted reader that delivers everything (after hiccups)
            let script = *rng.pick(&["d100000", "x0,d100000", "d1,x0,d100000"]);
            ops.push(format!("feed_read {} 4 {} {}", piece.len(), to_hex(piece), script));
        } else {
            ops.push(format!("feed {} {}", rng.pick(&["b", "c", "a", "f"]), to_hex(piece)));
        }
    };
    let nmsgs = rng.range(1, 4) as usize;
    let mut ended = false;
    for j in 0..nmsgs {
        let last = j + 1 == nmsgs;
        // payload: short pieces around the chunk limits, FE/FD runs, and (production limits) a long run
        let plen = match rng.below(5) {
            0 => 0,
            1 => mi.min(300) + rng.range(0, 3) as usize,
            2 if lim.is_none() => rng.range(253, 700) as usize,
            _ => rng.range(1, 40) as usize,
        };
        let payload: Vec<u8> = (0..plen).map(|_| if rng.chance(1, 4) { *rng.pick(&[0xFEu8, 0xFD]) } else { rng.next() as u8 }).collect();
        let wire = real_encode(lim, &payload);
        let fail = !last || rng.chance(1, 4);
        if fail && (last && rng.chance(1, 2)) {
            // the last message is cut short: no call fails, `finish` reports it
            let cut = rng.range(0, wire.len() as u64) as usize;
            let mut at = 0usize;
            while at < cut {
                let n = (rng.range(1, 9) as usize).min(cut - at);
                feed(rng, &mut ops, &wire[at..at + n]);
                drain(rng, &mut ops);
                at += n;
            }
            break;
        }
        let body: Vec<u8> = if fail {
            // corrupt one header: everything before it is valid and gets decoded (and stays in the iovec)
            let hp = header_positions(mi, ms, &wire);
            let h = rng.below(hp.len() as u64) as usize;
            let mut b = wire[..hp[h]].to_vec();
            if h == 0 {
                b.push(if mi < 252 && rng.chance(1, 2) { (mi + 1) as u8 } else { *rng.pick(&[253u8, 254, 255]) });
            } else {
                match rng.below(3) {
                    0 => b.push(*rng.pick(&[253u8, 254, 255])),
                    1 => b.extend([rng.range(0, 252) as u8, *rng.pick(&[253u8, 254, 255])]),
                    _ if ms + 1 < 253 * 253 => b.extend([((ms + 1) % 253) as u8, ((ms + 1) / 253) as u8]),
                    _ => b.push(0xFF),
                }
            }
            // junk after the rejected byte, in the same call: never looked at
            for _ in 0..rng.below(3) {
                b.push(rng.next() as u8);
            }
            b
        } else {
            wire.clone()
        };
        // 1..3 pieces; for a failing message the LAST piece contains the corrupted header
        let npieces = rng.range(1, 3) as usize;
        let mut cuts: Vec<usize> = (0..npieces - 1).map(|_| rng.range(0, body.len() as u64) as usize).collect();
        if fail {
            let hp = header_positions(mi, ms, &wire);
            // the corrupted header starts at the largest header offset <= its position in `body`
            let bad_at = hp.iter().copied().filter(|p| *p < body.len()).max().unwrap_or(0);
            for c in cuts.iter_mut() {
                *c = (*c).min(bad_at);
            }
        }
        cuts.sort();
        cuts.push(body.len());
        let mut at = 0usize;
        for (k, c) in cuts.iter().enumerate() {
            feed(rng, &mut ops, &body[at..*c]);
            at = *c;
            if k + 1 < cuts.len() || !fail || rng.chance(1, 2) {
                drain(rng, &mut ops);
            }
        }
        if fail && last {
            // nothing after the error
            if rng.chance(1, 2) {
                // `finish` right after an `Err`: the error is not remembered (InitialState => CutShort)
                ops.push("finish".into());
                ended = true;
            }
        }
    }
    if !ended {
        if lim.is_none() && rng.chance(1, 6) {
            ops.push("take_iovec".into());
        } else {
            ops.push("finish".into());
        }
    }
    match rng.below(3) {
        0 => ops.push("drain_read 100000".into()),
        1 => ops.push("drain_all".into()),
        _ => {
            ops.push("drain_read 3".into());
            ops.push("drain_bytes 100000".into());
        }
    }
    ops
}

// ======================================================================================================
// >>> track apileft-prefill: `Encoder::new_from_iovec` / `Decoder::new_from_iovec` on a richer PRE-FILLED
// iovec (audit gap 15).
//
// `enc_from2 <script> <limits…>` / `dec_from2 <script> <limits…>`: the caller builds the iovec through real
// `OwningIovec` calls and only then hands it over.  Script = comma list of `p<hex>` (`push`), `b<hex>`
// (`push_borrowed`), `c<hex>` (`push_copy`), `r<n>` (`register_patch(&[0; n])`, the `Backref` is kept as
// caller token number = order of registration), `f<k>:<hex>` (`backfill_or_panic(token k, …)`), `d<k>`
// (`consumer().consume(k)`), `a<k>` (`consumer().advance_slices(k)`); `-` = empty script.
// `post_fill <k> <hex>`: the caller fills a placeholder that was still pending at the hand-over.  The codec
// exposes only the READ side of its iovec (`consumer()`), so from safe code this is possible only once the
// iovec is handed back (`finish` / `take_iovec`).
//
// Direct oracle (independent of the model): drained ++ flatten == prefill bytes (with the caller's fills) ++
// reference encoding (decoding) of the whole input, as soon as no caller placeholder is pending; while one is
// pending, nothing at or behind it is consumable (everything the codec produced is hidden: the lag is
// unbounded by design and the constant-bound oracle is suspended) and what is consumable is a prefix of the
// prefill; every drained ++ stable snapshot taken along the way is a prefix of the final output.

#[derive(Default)]
struct PreTrack {
    active: bool,
    /// caller tokens in registration order (bit-copied at every use: `Backref` is not `Clone`)
    tokens: Vec<Backref>,
    /// caller placeholders: (offset in `prefill`, length, still pending)
    holes: Vec<(usize, usize, bool)>,
    /// drained ++ stable after every op
    snapshots: Vec<Vec<u8>>,
    /// the codec finished: the logical input is complete
    whole_input: bool,
    /// a drain inside the caller's script removed more than the stable prefix held
    overdrain: bool,
}

impl PreTrack {
    fn caller_pending(&self) -> bool {
        self.holes.iter().any(|h| h.2)
    }
    fn first_pending(&self) -> Option<usize> {
        self.holes.iter().filter(|h| h.2).map(|h| h.0).min()
    }
}

enum PreItem {
    Push(Vec<u8>),
    PushBorrowed(Vec<u8>),
    PushCopy(Vec<u8>),
    Register(usize),
    Fill(usize, Vec<u8>),
    Consume(usize),
    Advance(usize),
}

fn parse_pre_script(s: &str) -> Option<Vec<PreItem>> {
    if s == "-" {
        return Some(vec![]);
    }
    let mut out = Vec::new();
    for t in s.split(',') {
        let (c, arg) = (t.chars().next()?, &t[1..]);
        out.push(match c {
            'p' => PreItem::Push(from_hex(arg)?),
            'b' => PreItem::PushBorrowed(from_hex(arg)?),
            'c' => PreItem::PushCopy(from_hex(arg)?),
            'r' => PreItem::Register(arg.parse().ok()?),
            'd' => PreItem::Consume(arg.parse().ok()?),
            'a' => PreItem::Advance(arg.parse().ok()?),
            'f' => {
                let (k, hex) = arg.split_once(':')?;
                if hex.contains(':') {
                    return None;
                }
                PreItem::Fill(k.parse().ok()?, from_hex(hex)?)
            }
            _ => return None,
        });
    }
    Some(out)
}

/// `consume(k)` / `advance_slices(k)` with the bytes that left: (return value, removed bytes, removed count)
fn drain_on(c: &mut ConsumingIovec<'_>, k: usize, by_bytes: bool) -> (usize, Vec<u8>, usize) {
    let mut snap = Vec::new();
    for s in c.stable_prefix() {
        snap.extend_from_slice(s);
    }
    let before = c.total_size();
    let n = if by_bytes { c.advance_slices(k) } else { c.consume(k) };
    let removed = before - c.total_size();
    snap.truncate(removed.min(snap.len()));
    (n, snap, removed)
}

impl CodecWExec {
    fn step_from2(&mut self, op: &str, script: &str, rest: &[&str]) -> bool {
        let (Some(items), Some(lim)) = (parse_pre_script(script), parse_limits(rest)) else { return false };
        // a fill must name a token registered earlier in the script
        let mut regs = 0usize;
        for it in &items {
            match it {
                PreItem::Register(_) => regs += 1,
                PreItem::Fill(k, _) if *k >= regs => return false,
                _ => {}
            }
        }
        self.is_enc = op == "enc_from2";
        self.pre.active = true;
        self.streaming = false;
        let mut iov: OwningIovec<'static> = OwningIovec::new();
        for it in items {
            match it {
                PreItem::Push(bytes) => {
                    self.prefill.extend_from_slice(&bytes);
                    let s = self.add_buf(bytes);
                    iov.push(s);
                }
                PreItem::PushBorrowed(bytes) => {
                    self.prefill.extend_from_slice(&bytes);
                    let s = self.add_buf(bytes);
                    iov.push_borrowed(s);
                }
                PreItem::PushCopy(bytes) => {
                    self.prefill.extend_from_slice(&bytes);
                    iov.push_copy(&bytes);
                }
                PreItem::Register(n) => {
                    let off = self.prefill.len();
                    let pat = vec![0u8; n];
                    self.prefill.extend_from_slice(&pat);
                    let tok = iov.register_patch(&pat);
                    self.pre.tokens.push(tok);
                    self.pre.holes.push((off, n, n > 0));
                }
                PreItem::Fill(k, bytes) => {
                    let tok: Backref = unsafe { std::ptr::read(&self.pre.tokens[k]) };
                    iov.backfill_or_panic(tok, &bytes); // wrong size / not pending: the documented panic
                    let (off, n, _) = self.pre.holes[k];
                    self.prefill[off..off + n].copy_from_slice(&bytes);
                    self.pre.holes[k].2 = false;
                }
                PreItem::Consume(k) | PreItem::Advance(k) => {
                    let by_bytes = matches!(it, PreItem::Advance(_));
                    let (_, took, removed) = drain_on(&mut iov.consumer(), k, by_bytes);
                    if took.len() != removed {
                        self.pre.overdrain = true; // reported by `pre_note`
                    }
                    self.drained.extend_from_slice(&took);
                }
            }
        }
        self.limits = lim.unwrap_or((PROD_INIT, PROD_SUB));
        self.codec = match (self.is_enc, lim) {
            (true, None) => Codec::Enc(Encoder::new_from_iovec(iov)),
            (true, Some((a, b))) => match VerifEncoder::new_from_iovec(iov, a, b) {
                Some(e) => Codec::VEnc(e),
                None => return false,
            },
            (false, None) => Codec::Dec(Decoder::new_from_iovec(iov)),
            (false, Some((a, b))) => match VerifDecoder::new_from_iovec(iov, a, b) {
                Some(d) => Codec::VDec(d),
                None => return false,
            },
        };
        // (merge of helpers decw + prefill) the decoder session oracle measures each message against what the
        // iovec had output when the message started: here the whole prefill (drained part included)
        self.dec_held = self.prefill.clone();
        self.dec_msg.clear();
        true
    }

    fn step_post_fill(&mut self, k: &str, hex: &str, so: &mut StepOut) -> bool {
        let (Ok(k), Some(bytes)) = (k.parse::<usize>(), from_hex(hex)) else { return false };
        if k >= self.pre.tokens.len() {
            return false;
        }
        let Codec::Done(v) = &mut self.codec else { return false };
        let tok: Backref = unsafe { std::ptr::read(&self.pre.tokens[k]) };
        v.backfill_or_panic(tok, &bytes);
        let (off, n, _) = self.pre.holes[k];
        self.prefill[off..off + n].copy_from_slice(&bytes);
        self.pre.holes[k].2 = false;
        if !self.failed {
            let flat = match &self.codec {
                Codec::Done(v) => v.flatten(),
                _ => return false,
            };
            if self.pre.whole_input {
                self.pre_final(so, flat);
            }
        }
        true
    }

    /// What the codec alone makes of the whole logical input (a fresh real codec, one call).
    fn pre_reference(&self) -> Option<Vec<u8>> {
        let prod = self.limits == (PROD_INIT, PROD_SUB);
        if self.is_enc {
            if prod {
                let mut e = Encoder::new();
                e.encode_copy(&self.logical_input);
                e.finish().flatten().ok()
            } else {
                let mut e = VerifEncoder::new_from_iovec(OwningIovec::new(), self.limits.0, self.limits.1)?;
                e.encode_copy(&self.logical_input);
                e.finish().flatten().ok()
            }
        } else if prod {
            let mut d = Decoder::new();
            d.decode_copy(&self.logical_input).ok()?;
            d.finish().ok()?.flatten().ok()
        } else {
            let mut d = VerifDecoder::new_from_iovec(OwningIovec::new(), self.limits.0, self.limits.1)?;
            d.decode_copy(&self.logical_input).ok()?;
            d.finish().ok()?.flatten().ok()
        }
    }

    /// The codec is done (`finish` succeeded): compare everything that came out with prefill ++ reference.
    fn pre_final(&mut self, so: &mut StepOut, flat: Result<Vec<u8>, Vec<u8>>) {
        self.pre.whole_input = true;
        let what = if self.is_enc { "encoding" } else { "decoding" };
        let Some(reference) = self.pre_reference() else {
            so.violations.push(format!("C01 new_from_iovec: the codec finished but a fresh codec rejects the same input ({})", what));
            return;
        };
        let mut want = self.prefill.clone();
        want.extend_from_slice(&reference);
        let mut all = self.drained.clone();
        match flat {
            Ok(rest) => {
                if self.pre.caller_pending() {
                    so.violations.push("C04 flatten() succeeded while a caller placeholder registered before new_from_iovec is pending".into());
                }
                all.extend_from_slice(&rest);
                if all != want {
                    for p in ["C01", "C09", "C02", "C17"] {
                        so.violations.push(format!(
                            "{} new_from_iovec: drained ++ final ({} bytes) differs from prefill ++ reference {} ({} bytes)",
                            p, all.len(), what, want.len()
                        ));
                    }
                }
                for s in &self.pre.snapshots {
                    if s.len() > all.len() || s[..] != all[..s.len()] {
                        so.violations.push("C09 new_from_iovec: a drained ++ stable snapshot is not a prefix of the final output".into());
                        break;
                    }
                }
            }
            Err(stable) => {
                if !self.pre.caller_pending() {
                    so.violations.push("C04 placeholder still pending after finish although the caller has none pending".into());
                }
                all.extend_from_slice(&stable);
                let cut = self.pre.first_pending().unwrap_or(0);
                if all.len() > cut || all[..] != want[..all.len().min(want.len())] {
                    for p in ["C01", "C09", "C04"] {
                        so.violations.push(format!(
                            "{} new_from_iovec: with a caller placeholder pending at offset {}, drained ++ stable ({} bytes) is not a prefix of the prefill before it",
                            p, cut, all.len()
                        ));
                    }
                }
            }
        }
    }

    fn dec_final(&mut self, so: &mut StepOut, v: &OwningIovec<'static>) {
        // (merge of helpers decw + prefill) the decoder object lives on after an `Err`: once a call has failed,
        // "a fresh decoder fed the WHOLE input" is no longer the reference (the session oracle of helper decw,
        // `dec_finish_oracle`, compares the last message against what the iovec held when it started)
        if self.dec_errors > 0 {
            return;
        }
        if self.pre.active || !self.prefill.is_empty() {
            let flat = v.flatten();
            self.pre_final(so, flat);
        }
    }

    /// After every op of a prefilled case: what is consumable so far.
    fn pre_note(&mut self, stable: &[u8], so: &mut StepOut) {
        if !self.pre.active {
            return;
        }
        if self.pre.overdrain {
            self.pre.overdrain = false;
            so.violations.push("C04 a drain in the caller's script removed more bytes than were consumable".into());
        }
        let mut snap = self.drained.clone();
        snap.extend_from_slice(stable);
        if let Some(cut) = self.pre.first_pending() {
            if snap.len() > cut || snap[..] != self.prefill[..snap.len().min(self.prefill.len())] {
                for p in ["C09", "C04"] {
                    so.violations.push(format!(
                        "{} new_from_iovec: bytes at or behind the caller placeholder pending at offset {} are consumable ({} drained ++ stable)",
                        p, cut, snap.len()
                    ));
                }
            }
        }
        if self.pre.snapshots.len() < 64 && snap.len() <= 1 << 16 {
            self.pre.snapshots.push(snap);
        }
    }
}

fn pre_limits(lim: &str) -> Option<(usize, usize)> {
    let mut it = lim.split(' ');
    Some((it.next()?.parse().ok()?, it.next()?.parse().ok()?))
}

/// The wire image of `payload` under `lim` (`prod` or `a b`), from the real encoder.
fn pre_wire(lim: &str, payload: &[u8]) -> Vec<u8> {
    match pre_limits(lim) {
        None => {
            let mut e = Encoder::new();
            e.encode_copy(payload);
            e.finish().flatten().unwrap_or_default()
        }
        Some((a, b)) => match VerifEncoder::new_from_iovec(OwningIovec::new(), a, b) {
            Some(mut e) => {
                e.encode_copy(payload);
                e.finish().flatten().unwrap_or_default()
            }
            None => vec![],
        },
    }
}

/// The ops after the constructor of a prefilled case: feeds (for a decoder: a valid wire image cut in
/// pieces), drains, `finish`, then the caller fills what it left pending, drains.
fn pre_tail(ops: &mut Vec<String>, decoder: bool, lim: &str, payload: &[u8], cuts: &[usize], methods: &[&str], drains: &[&str], pending: &[(usize, usize)]) {
    pre_tail_x(ops, decoder, lim, payload, cuts, methods, drains, pending, None)
}

/// `damage`: (position, xor mask) applied to the wire image of a decoder case (the error paths: the
/// decoder is consumed by the error, the iovec - and with it the caller's pending placeholders - is gone).
#[allow(clippy::too_many_arguments)]
fn pre_tail_x(ops: &mut Vec<String>, decoder: bool, lim: &str, payload: &[u8], cuts: &[usize], methods: &[&str], drains: &[&str], pending: &[(usize, usize)], damage: Option<(usize, u8)>) {
    let mut data = if decoder { pre_wire(lim, payload) } else { payload.to_vec() };
    if let (true, Some((pos, mask))) = (decoder, damage) {
        if !data.is_empty() {
            let k = pos % data.len();
            data[k] ^= mask;
        }
    }
    let mut pos = 0usize;
    let mut k = 0usize;
    let mut cuts: Vec<usize> = cuts.iter().map(|c| (*c).min(data.len())).collect();
    cuts.push(data.len());
    cuts.sort();
    for c in cuts {
        let piece = &data[pos..c];
        pos = c;
        ops.push(format!("feed {} {}", methods[k % methods.len()], to_hex(piece)));
        let d = drains[k % drains.len()];
        if !d.is_empty() {
            ops.push(d.to_string());
        }
        k += 1;
    }
    ops.push("finish".into());
    ops.push("drain_bytes 3".into());
    for (j, (tok, n)) in pending.iter().enumerate() {
        ops.push(format!("post_fill {} {}", tok, to_hex(&(0..*n).map(|x| 0xC0u8.wrapping_add((16 * j + x) as u8)).collect::<Vec<u8>>())));
        if j % 2 == 0 {
            ops.push("drain_slices 1".into());
        }
    }
    ops.push("drain_all".into());
}

/// Fixed prefill shapes (script, caller tokens still pending at the hand-over as (token, length)).
fn prefill_enumerated() -> Vec<Vec<String>> {
    let shapes: Vec<(&str, Vec<(usize, usize)>)> = vec![
        ("-", vec![]),
        ("p0102", vec![]),
        ("b~10x70", vec![]),
        ("c~20x5", vec![]),
        ("p~30x65,d1", vec![]),
        ("c~40x10,a4", vec![]),
        ("b~10x70,c0102,p~50x300,d1,a7", vec![]),
        ("c01,r2,f0:aabb", vec![]),
        ("r2,f0:0102,d1", vec![]),
        ("c0304,r2", vec![(0, 2)]),
        ("r1", vec![(0, 1)]),
        ("b~10x70,r3,c0506", vec![(0, 3)]),
        ("c01,r1,r2,f1:0708", vec![(0, 1)]),
        ("b~10x70,c0102,d1,r1,p~60x65", vec![(0, 1)]),
        ("r0,c01,f0:-", vec![]),
        ("c~70x64,r8,b~80x257,r1", vec![(1, 1), (0, 8)]),
    ];
    let payload: Vec<u8> = vec![0x31, 0x32, 0x33, 0x34, 0xFE, 0xFE, 0xFD, 0x35, 0xFE, 0xFD];
    let mut out = Vec::new();
    for (k, (script, pending)) in shapes.iter().enumerate() {
        for decoder in [false, true] {
            let lim = match k % 4 {
                0 | 1 => "3 5",
                2 => "2 7",
                _ => "prod",
            };
            let mut ops = vec![format!("{}_from2 {} {}", if decoder { "dec" } else { "enc" }, script, lim)];
            let methods: &[&str] = match k % 3 {
                0 => &["c", "b"],
                1 => &["b", "a", "c"],
                _ => &["f", "c"],
            };
            let drains: &[&str] = match k % 3 {
                0 => &["drain_all", ""],
                1 => &["", "drain_slices 1", "drain_bytes 2"],
                _ => &["drain_bytes 70", "drain_all"],
            };
            pre_tail(&mut ops, decoder, lim, &payload, &[1 + k % 5, 6], methods, drains, pending);
            out.push(ops);
        }
    }
    out
}

/// A random prefilled case: a random script of caller calls, then the usual call mix.
fn gen_prefill_case(rng: &mut Rng) -> Vec<String> {
    let lim = rng.pick(&["3 5", "3 5", "1 1", "2 7", "4 300", "252 600", "prod", "prod"]).to_string();
    let decoder = rng.chance(1, 3);
    let n_items = rng.range(1, 7);
    let mut items: Vec<String> = Vec::new();
    // (token, length) of caller placeholders still pending
    let mut pending: Vec<(usize, usize)> = Vec::new();
    let mut regs = 0usize;
    for _ in 0..n_items {
        match rng.below(9) {
            0 | 1 | 2 | 3 => {
                let n = *rng.pick(&[0usize, 1, 3, 63, 64, 65, 200, 256, 257, 300]);
                let kind = *rng.pick(&["p", "b", "c"]);
                items.push(format!("{}{}", kind, run_token(rng.range(0, 200) as u8, n)));
            }
            4 | 5 => {
                let n = *rng.pick(&[1usize, 1, 2, 3, 8, 0]);
                items.push(format!("r{}", n));
                if n > 0 {
                    pending.push((regs, n));
                } else {
                    items.push(format!("f{}:-", regs));
                }
                regs += 1;
            }
            6 => {
                if !pending.is_empty() {
                    let j = rng.below(pending.len() as u64) as usize;
                    let (tok, n) = pending.remove(j);
                    items.push(format!("f{}:{}", tok, run_token(0xD0 + tok as u8, n)));
                }
            }
            7 => items.push(format!("d{}", rng.range(0, 3))),
            _ => items.push(format!("a{}", *rng.pick(&[0usize, 1, 5, 64, 70, 400]))),
        }
    }
    let script = if items.is_empty() { "-".to_string() } else { items.join(",") };
    let mut ops = vec![format!("{}_from2 {} {}", if decoder { "dec" } else { "enc" }, script, lim)];
    let tiny = lim != "prod" && lim != "252 600";
    let len = if tiny { rng.range(0, 30) } else { *rng.pick(&[0u64, 3, 251, 252, 253, 300, 700]) } as usize;
    let dens = *rng.pick(&[0u64, 8, 64, 200]);
    let payload = gen_bytes(len, rng.next() >> 16, dens);
    let ncuts = rng.range(0, 4) as usize;
    let cuts: Vec<usize> = (0..ncuts).map(|_| rng.range(0, (len + 4) as u64) as usize).collect();
    let methods: Vec<&str> = (0..4).map(|_| *rng.pick(&["b", "c", "a", "f"])).collect();
    let drains: Vec<&str> = (0..3).map(|_| *rng.pick(&["", "drain_all", "drain_slices 1", "drain_bytes 5", "drain_bytes 70"])).collect();
    // the caller fills what it left pending in a random order
    let mut order = pending.clone();
    for i in (1..order.len()).rev() {
        let j = rng.below((i + 1) as u64) as usize;
        order.swap(i, j);
    }
    let damage = if decoder && rng.chance(1, 4) { Some((rng.next() as usize, *rng.pick(&[0x01u8, 0x80, 0xFF, 0xFD]))) } else { None };
    pre_tail_x(&mut ops, decoder, &lim, &payload, &cuts, &methods, &drains, &order, damage);
    ops
}
// <<< track apileft-prefill

//! Family `codecw`: HCOBS Encoder / Decoder histories observed *structurally*
//! (slice placement, live chunks, lag), for C09 (lag bound), C10 (streaming
//! footprint, leak), C05 (codec-owned memory).
//!
//! Ops: `enc_new prod|<maxInit> <maxSub>`, `dec_new …`, `feed b|c|a <payload>`,
//! `drain_all`, `drain_slices k`, `drain_bytes k`, `finish`.
//! `<payload>` = hex or `gen:<len>:<seed>:<density>`.
use crate::fam_iovec::fnv64;
use crate::util::*;
use hcobs::verif::{VerifDecoder, VerifEncoder};
use hcobs::{Decoder, DecodingError, Encoder};
use owning_iovec::{ByteArena, ConsumingIovec, OwningIovec};
use std::io::IoSlice;
use std::num::NonZeroUsize;

const PROD_INIT: usize = 252;
const PROD_SUB: usize = 64008;
/// Largest chunk the arena allocates for requests below 1 MiB.
const MAX_CHUNK: usize = 1 << 20;

fn xs(mut x: u64) -> u64 {
    x ^= x >> 12;
    x ^= x << 25;
    x ^= x >> 27;
    x
}

pub fn gen_bytes(len: usize, seed: u64, density: u64) -> Vec<u8> {
    let mut x = if seed == 0 { 0x9E3779B97F4A7C15 } else { seed };
    let mut v = Vec::with_capacity(len);
    for _ in 0..len {
        x = xs(x);
        let o = x.wrapping_mul(0x2545F4914F6CDD1D);
        let sel = (o >> 48) & 0xFF;
        let b = if sel < density {
            if (o >> 40) & 1 == 0 {
                0xFE
            } else {
                0xFD
            }
        } else {
            (o >> 56) as u8
        };
        v.push(b);
    }
    v
}

pub fn parse_payload(s: &str) -> Option<Vec<u8>> {
    if let Some(rest) = s.strip_prefix("gen:") {
        let p: Vec<&str> = rest.split(':').collect();
        if p.len() != 3 {
            return None;
        }
        return Some(gen_bytes(p[0].parse().ok()?, p[1].parse().ok()?, p[2].parse().ok()?));
    }
    from_hex(s)
}

enum Codec {
    None,
    Enc(Encoder<'static>),
    VEnc(VerifEncoder<'static>),
    Dec(Decoder<'static>),
    VDec(VerifDecoder<'static>),
    /// finished: the iovec stays observable
    Done(OwningIovec<'static>),
    Failed,
}

pub struct CodecWFamily;

struct CodecWExec {
    codec: Codec,
    bufs: Vec<Box<[u8]>>,
    base_ordinal: u64,
    base_chunks: usize,
    base_bytes: usize,
    limits: (usize, usize),
    is_enc: bool,
    failed: bool,
    max_lag: usize,
    max_live: usize,
    fed: usize,
}

fn err_name(e: &DecodingError) -> String {
    match e {
        DecodingError::InvalidInitialSizeHeader(b) => format!("InvalidInitialSizeHeader {}", b),
        DecodingError::InvalidHeaderByte((second, b)) => format!("InvalidHeaderByte {} {}", *second as u8, b),
        DecodingError::InvalidSubsequentSizeHeader(n) => format!("InvalidSubsequentSizeHeader {}", n),
        DecodingError::CutShort => "CutShort".into(),
        DecodingError::MissingImplicitTerminator => "MissingImplicitTerminator".into(),
        _ => "Other".into(),
    }
}

impl CodecWExec {
    fn add_buf(&mut self, bytes: Vec<u8>) -> &'static [u8] {
        let b: Box<[u8]> = bytes.into_boxed_slice();
        let s: &'static [u8] = unsafe { std::slice::from_raw_parts(b.as_ptr(), b.len()) };
        self.bufs.push(b);
        s
    }

    fn canon(&self, ptr: usize, len: usize, live: &[(usize, usize, u64)]) -> Option<String> {
        for (addr, clen, ord) in live {
            if *addr <= ptr && ptr + len <= addr + clen && *ord >= self.base_ordinal {
                return Some(format!("c{}:{}+{}", ord - self.base_ordinal, ptr - addr, len));
            }
        }
        for (id, b) in self.bufs.iter().enumerate() {
            let a = b.as_ptr() as usize;
            if a <= ptr && ptr + len <= a + b.len() && !b.is_empty() {
                return Some(format!("e{}:{}+{}", id, ptr - a, len));
            }
        }
        None
    }

    fn with_consumer<R>(&mut self, f: impl FnOnce(&mut ConsumingIovec<'_>) -> R) -> Option<R> {
        match &mut self.codec {
            Codec::Enc(e) => Some(f(&mut e.consumer())),
            Codec::VEnc(e) => Some(f(&mut e.consumer())),
            Codec::Dec(d) => Some(f(&mut d.consumer())),
            Codec::VDec(d) => Some(f(&mut d.consumer())),
            Codec::Done(v) => Some(f(&mut v.consumer())),
            _ => None,
        }
    }

    fn describe(&mut self, so: &mut StepOut) {
        let (live, _) = ByteArena::verif_live_chunks();
        let info = self.with_consumer(|c| {
            let stable: Vec<(usize, usize)> = c.stable_prefix().iter().map(|s: &IoSlice<'_>| (s.as_ptr() as usize, s.len())).collect();
            let mut bytes = Vec::new();
            for s in c.stable_prefix() {
                bytes.extend_from_slice(s);
            }
            (stable, bytes, c.total_size(), c.has_pending_backrefs(), c.len(), c.arena().remaining())
        });
        if let Some((stable, bytes, size, pend, nslices, rem)) = info {
            let mut addrs = Vec::new();
            for (p, l) in &stable {
                if *l == 0 {
                    so.violations.push("C03 codec output exposes an empty slice".into());
                }
                match self.canon(*p, *l, &live) {
                    Some(a) => addrs.push(a),
                    None => {
                        so.violations.push("C05 codec output exposes a slice outside live memory".into());
                        addrs.push("DEAD".into());
                    }
                }
            }
            let shown = if bytes.len() <= 16 { to_hex(&bytes) } else { format!("#{}:{:016x}", bytes.len(), fnv64(&bytes)) };
            so.obs.push(format!("A v0 size={} pend={} stable={}", size, pend as u8, shown));
            so.obs.push(format!(
                "S v0 n={} stable={} rem={}",
                nslices,
                if addrs.is_empty() { "-".to_string() } else { addrs.join(",") },
                rem
            ));
            let lag = size - bytes.len();
            self.max_lag = self.max_lag.max(lag);
            // ---- C09 oracle: lag bounded by one arena chunk + one HCOBS chunk and its header
            let bound = if self.is_enc { MAX_CHUNK + self.limits.1.max(self.limits.0) + 2 } else { 0 };
            if lag > bound {
                so.violations.push(format!(
                    "C09 {} bytes produced but not consumable exceed the bound {} ({})",
                    lag,
                    bound,
                    if self.is_enc { "encoder" } else { "decoder" }
                ));
            }
            let mut mine: Vec<(u64, usize)> = live
                .iter()
                .filter(|(_, _, o)| *o >= self.base_ordinal)
                .map(|(_, l, o)| (*o - self.base_ordinal, *l))
                .collect();
            mine.sort();
            so.obs.push(format!(
                "L live={}",
                if mine.is_empty() { "-".to_string() } else { mine.iter().map(|(o, _)| format!("c{}", o)).collect::<Vec<_>>().join(",") }
            ));
            so.obs.push(format!("G lag={}", lag));
            let live_bytes: usize = mine.iter().map(|(_, l)| *l).sum();
            self.max_live = self.max_live.max(live_bytes);
        } else {
            let mut mine: Vec<(u64, usize)> = live
                .iter()
                .filter(|(_, _, o)| *o >= self.base_ordinal)
                .map(|(_, l, o)| (*o - self.base_ordinal, *l))
                .collect();
            mine.sort();
            so.obs.push(format!(
                "L live={}",
                if mine.is_empty() { "-".to_string() } else { mine.iter().map(|(o, _)| format!("c{}", o)).collect::<Vec<_>>().join(",") }
            ));
        }
    }
}

fn parse_limits(w: &[&str]) -> Option<Option<(usize, usize)>> {
    match w {
        ["prod"] => Some(None),
        [a, b] => Some(Some((a.parse().ok()?, b.parse().ok()?))),
        _ => None,
    }
}

impl Exec for CodecWExec {
    fn step(&mut self, w: &[&str]) -> StepOut {
        let mut so = StepOut::default();
        match w {
            ["enc_new", rest @ ..] => {
                let Some(lim) = parse_limits(rest) else { return StepOut::bad() };
                self.is_enc = true;
                match lim {
                    None => {
                        self.limits = (PROD_INIT, PROD_SUB);
                        self.codec = Codec::Enc(Encoder::new());
                    }
                    Some((a, b)) => {
                        self.limits = (a, b);
                        let Some(e) = VerifEncoder::new_from_iovec(OwningIovec::new(), a, b) else { return StepOut::bad() };
                        self.codec = Codec::VEnc(e);
                    }
                }
            }
            ["dec_new", rest @ ..] => {
                let Some(lim) = parse_limits(rest) else { return StepOut::bad() };
                self.is_enc = false;
                match lim {
                    None => {
                        self.limits = (PROD_INIT, PROD_SUB);
                        self.codec = Codec::Dec(Decoder::new());
                    }
                    Some((a, b)) => {
                        self.limits = (a, b);
                        let Some(d) = VerifDecoder::new_from_iovec(OwningIovec::new(), a, b) else { return StepOut::bad() };
                        self.codec = Codec::VDec(d);
                    }
                }
            }
            ["feed", m, payload] => {
                if self.failed {
                    return StepOut::bad();
                }
                let Some(bytes) = parse_payload(payload) else { return StepOut::bad() };
                self.fed += bytes.len();
                let att = NonZeroUsize::new(4).unwrap();
                let n = bytes.len();
                let res: Option<Result<(), DecodingError>> = match *m {
                    "b" => {
                        let s = self.add_buf(bytes);
                        match &mut self.codec {
                            Codec::Enc(e) => {
                                e.encode(s);
                                None
                            }
                            Codec::VEnc(e) => {
                                e.encode(s);
                                None
                            }
                            Codec::Dec(d) => Some(d.decode(s)),
                            Codec::VDec(d) => Some(d.decode(s)),
                            _ => return StepOut::bad(),
                        }
                    }
                    "c" => match &mut self.codec {
                        Codec::Enc(e) => {
                            e.encode_copy(&bytes);
                            None
                        }
                        Codec::VEnc(e) => {
                            e.encode_copy(&bytes);
                            None
                        }
                        Codec::Dec(d) => Some(d.decode_copy(&bytes)),
                        Codec::VDec(d) => Some(d.decode_copy(&bytes)),
                        _ => return StepOut::bad(),
                    },
                    "a" => {
                        let mut rd = &bytes[..];
                        match &mut self.codec {
                            Codec::Enc(e) => {
                                let got = e.encode_read(&mut rd, n, att).unwrap_or(usize::MAX);
                                if got != n {
                                    so.violations.push("C17 encode_read from a slice did not read everything".into());
                                }
                                None
                            }
                            Codec::VEnc(e) => {
                                let a = e.read_n(&mut rd, n, att).expect("slice reader");
                                e.encode_anchored(a);
                                None
                            }
                            Codec::Dec(d) => {
                                let a = d.read_n(&mut rd, n, att).expect("slice reader");
                                Some(d.decode_anchored(a))
                            }
                            Codec::VDec(d) => {
                                let a = d.read_n(&mut rd, n, att).expect("slice reader");
                                Some(d.decode_anchored(a))
                            }
                            _ => return StepOut::bad(),
                        }
                    }
                    _ => return StepOut::bad(),
                };
                match res {
                    None => {}
                    Some(Ok(())) => so.obs.push("R ok".into()),
                    Some(Err(e)) => {
                        so.obs.push(format!("R err {}", err_name(&e)));
                        // keep the output observable, stop decoding
                        self.failed = true;
                    }
                }
            }
            ["drain_all"] => {
                let Some(n) = self.with_consumer(|c| c.consume(1_000_000_000)) else { return StepOut::bad() };
                so.obs.push(format!("R {}", n));
            }
            ["drain_slices", k] => {
                let Ok(k) = k.parse::<usize>() else { return StepOut::bad() };
                let Some(n) = self.with_consumer(|c| c.consume(k)) else { return StepOut::bad() };
                so.obs.push(format!("R {}", n));
            }
            ["drain_bytes", k] => {
                let Ok(k) = k.parse::<usize>() else { return StepOut::bad() };
                let Some(n) = self.with_consumer(|c| c.advance_slices(k)) else { return StepOut::bad() };
                so.obs.push(format!("R {}", n));
            }
            ["finish"] => {
                if self.failed {
                    return StepOut::bad();
                }
                let old = std::mem::replace(&mut self.codec, Codec::None);
                self.codec = match old {
                    Codec::Enc(e) => {
                        so.obs.push("R ok".into());
                        Codec::Done(e.finish())
                    }
                    Codec::VEnc(e) => {
                        so.obs.push("R ok".into());
                        Codec::Done(e.finish())
                    }
                    Codec::Dec(d) => match d.finish() {
                        Ok(v) => {
                            so.obs.push("R ok".into());
                            Codec::Done(v)
                        }
                        Err(e) => {
                            so.obs.push(format!("R err {}", err_name(&e)));
                            self.failed = true;
                            Codec::Failed
                        }
                    },
                    Codec::VDec(d) => match d.finish() {
                        Ok(v) => {
                            so.obs.push("R ok".into());
                            Codec::Done(v)
                        }
                        Err(e) => {
                            so.obs.push(format!("R err {}", err_name(&e)));
                            self.failed = true;
                            Codec::Failed
                        }
                    },
                    _ => return StepOut::bad(),
                };
            }
            _ => return StepOut::bad(),
        }
        self.describe(&mut so);
        so
    }

    fn finish(&mut self) -> StepOut {
        let mut so = StepOut::default();
        // ---- C10 streaming oracle: footprint independent of the amount streamed
        // (three chunks of the largest size the arena allocates for codec requests, plus slack)
        if self.fed > 0 {
            so.tags.push(format!("maxlive_le_{}MiB", (self.max_live + (1 << 20) - 1) >> 20));
        }
        self.codec = Codec::None;
        let chunks = ByteArena::num_live_chunks();
        let bytes = ByteArena::num_live_bytes();
        if chunks != self.base_chunks || bytes != self.base_bytes {
            so.violations.push(format!(
                "C10 after dropping the codec {} chunks / {} bytes are still live (baseline {} / {})",
                chunks, bytes, self.base_chunks, self.base_bytes
            ));
        }
        so
    }

    fn panic_violation(&self, w: &[&str]) -> Option<String> {
        Some(format!("C07 unexpected panic in {}", w.first().copied().unwrap_or("?")))
    }
}

impl Family for CodecWFamily {
    fn name(&self) -> &'static str {
        "codecw"
    }

    fn new_exec(&self) -> Box<dyn Exec> {
        let (_, next) = ByteArena::verif_live_chunks();
        Box::new(CodecWExec {
            codec: Codec::None,
            bufs: vec![],
            base_ordinal: next,
            base_chunks: ByteArena::num_live_chunks(),
            base_bytes: ByteArena::num_live_bytes(),
            limits: (PROD_INIT, PROD_SUB),
            is_enc: true,
            failed: false,
            max_lag: 0,
            max_live: 0,
            fed: 0,
        })
    }

    fn gen_case(&self, rng: &mut Rng, idx: u64, thorough: bool) -> Vec<String> {
        let mut ops = Vec::new();
        let tiny = rng.chance(2, 3);
        let lim = if tiny {
            let (a, b) = *rng.pick(&[(3usize, 5usize), (1, 1), (2, 7), (4, 300), (252, 600)]);
            format!("{} {}", a, b)
        } else {
            "prod".to_string()
        };
        let decoder = rng.chance(1, 4);
        // streaming soak cases: many medium pieces, drain everything after each call
        let soak = !decoder && !tiny && (idx % 8 == 0);
        if decoder {
            ops.push(format!("dec_new {}", lim));
            // build a plausible encoded stream with the reference of what the real encoder does:
            // just feed random bytes with small header-ish values; errors are part of the game
            let n = rng.range(1, 10);
            for _ in 0..n {
                let len = rng.range(0, if tiny { 12 } else { 400 }) as usize;
                let v: Vec<u8> = (0..len).map(|_| if rng.chance(1, 3) { rng.range(0, 5) as u8 } else { rng.next() as u8 }).collect();
                ops.push(format!("feed {} {}", rng.pick(&["b", "c", "a"]), to_hex(&v)));
                if rng.chance(1, 3) {
                    ops.push("drain_all".into());
                }
            }
            ops.push("finish".into());
            return ops;
        }
        ops.push(format!("enc_new {}", lim));
        let pieces = if soak { if thorough { 400 } else { 60 } } else { rng.range(1, 10) };
        for _ in 0..pieces {
            let len = if soak {
                *rng.pick(&[1000u64, 4000, 30000, 64008, 70000, 100000])
            } else if tiny {
                rng.range(0, 40)
            } else {
                match rng.below(6) {
                    0 => rng.range(0, 3),
                    1 => rng.range(250, 256),
                    2 => rng.range(64000, 64016),
                    3 => rng.range(1, 5000),
                    4 => rng.range(60, 300),
                    _ => rng.range(1, 100),
                }
            };
            // the List-based model re-scans a 64008-byte window per chunk: keep FE/FD-dense payloads
            // short under production limits (tiny limits cover the dense cases)
            let dens = if !tiny && len > 1500 { *rng.pick(&[0u64, 0, 1, 8]) } else { *rng.pick(&[0u64, 0, 1, 8, 64, 200, 256]) };
            let seed = rng.next() >> 16;
            let m = if soak { *rng.pick(&["c", "c", "c", "b", "a"]) } else { *rng.pick(&["b", "c", "a"]) };
            ops.push(format!("feed {} gen:{}:{}:{}", m, len, seed, if soak { dens.min(1) } else { dens }));
            match rng.below(if soak { 1 } else { 4 }) {
                0 => ops.push("drain_all".into()),
                1 => ops.push(format!("drain_slices {}", rng.range(0, 3))),
                2 => ops.push(format!("drain_bytes {}", rng.range(0, 300))),
                _ => {}
            }
        }
        ops.push("finish".into());
        ops.push("drain_all".into());
        ops
    }
}

//! Standard-trait methods of `SlidingDeque` over several object instances (track traits).
//!
//! A case holds, next to the current deque `cur` (every op of the parent module acts on it), a
//! list of further objects `d0, d1, …`; each object is the triple (Vec-backed real deque,
//! SmallVec-backed real deque, reference `VecDeque`).  Handle ops (the Lean driver runs
//! `DequeTraits.mstep` for them):
//!
//!   dnew             d<n> = SlidingDeque::new()
//!   ddefault         d<n> = Default::default()
//!   dstore k         d<k> = cur.clone()                 (k = number of objects: appends)
//!   dload k          cur = d<k>.clone()
//!   dswap k          mem::swap(&mut cur, &mut d<k>)     (a move: lets every op reach every object)
//!   dclone_from k    cur.clone_from(&d<k>)              (Clone::clone_from, NOT `cur = d<k>.clone()`)
//!   dclone_into k    d<k>.clone_from(&cur)
//!   dtake k          cur = mem::take(&mut d<k>)         (leaves Default::default() behind)
//!   ddebug           format!("{:?}") / format!("{:#?}") of cur must not panic; `Deref` / `DerefMut` /
//!                    `len` / `is_empty` / `first` / `last` / `get` / `iter` agree with each other
//!
//! Observation: the view of the object the op wrote (`vec () view=… len=…`, `small …`), `nohandle`
//! for a handle that does not exist.  Oracle (C15): after every handle op EVERY object's real
//! deques show exactly their own reference deque (so `clone_from` is assignment whatever state the
//! destination was in, the source is unchanged, and no two objects share state), and the space
//! bound holds on every object.
use super::*;

#[derive(Clone, Copy, Debug)]
pub enum MOp {
    New,
    Default,
    Store(usize),
    Load(usize),
    Swap(usize),
    CloneFrom(usize),
    CloneInto(usize),
    Take(usize),
    Debug,
}

pub fn parse_mop(w: &[&str]) -> Option<MOp> {
    Some(match w {
        ["dnew"] => MOp::New,
        ["ddefault"] => MOp::Default,
        ["dstore", k] => MOp::Store(k.parse().ok()?),
        ["dload", k] => MOp::Load(k.parse().ok()?),
        ["dswap", k] => MOp::Swap(k.parse().ok()?),
        ["dclone_from", k] => MOp::CloneFrom(k.parse().ok()?),
        ["dclone_into", k] => MOp::CloneInto(k.parse().ok()?),
        ["dtake", k] => MOp::Take(k.parse().ok()?),
        ["ddebug"] => MOp::Debug,
        _ => return None,
    })
}

fn obs_of(d: &[u32]) -> String {
    fmt_obs("()", d)
}

/// the ways of reading a deque must agree with each other
fn reads_agree<C>(which: &str, d: &mut SlidingDeque<C>, v: &mut Vec<String>)
where
    C: PushTruncateContainer<Item = u32> + Clone + Default + Debug,
{
    let plain = format!("{:?}", d);
    let pretty = format!("{:#?}", d);
    if plain.is_empty() || pretty.is_empty() {
        v.push(format!("C15 {}: empty Debug output", which));
    }
    let by_deref: Vec<u32> = std::ops::Deref::deref(d).to_vec();
    let by_deref_mut: Vec<u32> = std::ops::DerefMut::deref_mut(d).to_vec();
    let by_iter: Vec<u32> = d.iter().copied().collect();
    let by_get: Vec<u32> = (0..d.len()).filter_map(|i| d.get(i).copied()).collect();
    if by_deref != by_deref_mut || by_deref != by_iter || by_deref != by_get {
        v.push(format!(
            "C15 {}: Deref {:?}, DerefMut {:?}, iter {:?} and get(i) {:?} disagree",
            which, by_deref, by_deref_mut, by_iter, by_get
        ));
    }
    if d.len() != by_deref.len()
        || d.is_empty() != by_deref.is_empty()
        || d.first().copied() != d.front().copied()
        || d.last().copied() != d.back().copied()
        || d.get(d.len()).is_some()
    {
        v.push(format!("C15 {}: len / is_empty / first / last / get(len) disagree with the slice view {:?}", which, by_deref));
    }
}

impl SdExec {
    /// every object against its own reference deque
    fn check_all(&self, text: &str, so: &mut StepOut) {
        let all = std::iter::once(("cur".to_string(), &self.cur)).chain(self.objs.iter().enumerate().map(|(i, o)| (format!("d{}", i), o)));
        for (name, st) in all {
            let want: Vec<u32> = st.r.iter().copied().collect();
            let a: &[u32] = &st.v;
            let b: &[u32] = &st.s;
            if a != &want[..] {
                so.violations.push(format!(
                    "C15 vec: after `{}` object {} shows [{}] but its reference deque holds [{}]",
                    text, name, u32_list(a), u32_list(&want)
                ));
            }
            if b != &want[..] {
                so.violations.push(format!(
                    "C15 smallvec: after `{}` object {} shows [{}] but its reference deque holds [{}]",
                    text, name, u32_list(b), u32_list(&want)
                ));
            }
            space_oracle("vec", &st.v, want.len(), &mut so.violations, &mut so.tags);
            space_oracle("smallvec", &st.s, want.len(), &mut so.violations, &mut so.tags);
        }
    }

    pub(super) fn step_traits(&mut self, w: &[&str]) -> Option<StepOut> {
        let op = parse_mop(w)?;
        if self.dead {
            return Some(StepOut::obs("dead"));
        }
        let text = w.join(" ");
        let mut so = StepOut::default();
        so.tags.push(format!("op_{}", w[0]));
        let n = self.objs.len();
        let handle_ok = match op {
            MOp::New | MOp::Default | MOp::Debug => true,
            MOp::Store(k) => k <= n,
            MOp::Load(k) | MOp::Swap(k) | MOp::CloneFrom(k) | MOp::CloneInto(k) | MOp::Take(k) => k < n,
        };
        if !handle_ok {
            so.obs.push("nohandle".into());
            return Some(so);
        }
        let cur = &mut self.cur;
        let objs = &mut self.objs;
        // the real trait methods (debug assertions are on: a `check_rep` failure is a panic)
        let real = catch_unwind(AssertUnwindSafe(|| -> (Vec<u32>, Vec<u32>) {
            match op {
                MOp::New => {
                    objs.push(St::new());
                    (objs[n].v.to_vec(), objs[n].s.to_vec())
                }
                MOp::Default => {
                    objs.push(St { v: Default::default(), s: Default::default(), r: VecDeque::new() });
                    (objs[n].v.to_vec(), objs[n].s.to_vec())
                }
                MOp::Store(k) => {
                    let c = St { v: cur.v.clone(), s: cur.s.clone(), r: cur.r.clone() };
                    if k == n {
                        objs.push(c);
                    } else {
                        objs[k] = c;
                    }
                    (objs[k].v.to_vec(), objs[k].s.to_vec())
                }
                MOp::Load(k) => {
                    *cur = St { v: objs[k].v.clone(), s: objs[k].s.clone(), r: objs[k].r.clone() };
                    (cur.v.to_vec(), cur.s.to_vec())
                }
                MOp::Swap(k) => {
                    std::mem::swap(cur, &mut objs[k]);
                    (cur.v.to_vec(), cur.s.to_vec())
                }
                MOp::CloneFrom(k) => {
                    cur.v.clone_from(&objs[k].v);
                    cur.s.clone_from(&objs[k].s);
                    cur.r = objs[k].r.clone(); // the reference: assignment
                    (cur.v.to_vec(), cur.s.to_vec())
                }
                MOp::CloneInto(k) => {
                    objs[k].v.clone_from(&cur.v);
                    objs[k].s.clone_from(&cur.s);
                    objs[k].r = cur.r.clone();
                    (objs[k].v.to_vec(), objs[k].s.to_vec())
                }
                MOp::Take(k) => {
                    cur.v = std::mem::take(&mut objs[k].v);
                    cur.s = std::mem::take(&mut objs[k].s);
                    cur.r = std::mem::take(&mut objs[k].r);
                    (cur.v.to_vec(), cur.s.to_vec())
                }
                MOp::Debug => {
                    let mut viol = Vec::new();
                    reads_agree("vec", &mut cur.v, &mut viol);
                    reads_agree("smallvec", &mut cur.s, &mut viol);
                    so.violations.append(&mut viol);
                    (cur.v.to_vec(), cur.s.to_vec())
                }
            }
        }));
        match real {
            Err(_) => {
                self.dead = true;
                so.obs.push("panic".into());
                so.violations.push(format!(
                    "C15 panic in `{}` (no operation sequence may panic, Clone / Default / Debug included; debug assertions are on)",
                    text
                ));
            }
            Ok((a, b)) => {
                // the deque views may already be wrong: `check_all` says so; it may itself hit a slice
                // index panic on a corrupted deque
                let checked = catch_unwind(AssertUnwindSafe(|| {
                    let mut tmp = StepOut::default();
                    self.check_all(&text, &mut tmp);
                    tmp
                }));
                match checked {
                    Ok(mut tmp) => {
                        so.violations.append(&mut tmp.violations);
                        so.tags.append(&mut tmp.tags);
                        so.obs.push(format!("vec {}", obs_of(&a)));
                        so.obs.push(format!("small {}", obs_of(&b)));
                    }
                    Err(_) => {
                        self.dead = true;
                        so.obs.push("panic".into());
                        so.violations.push(format!("C15 panic while reading the objects after `{}` (Deref slice out of range)", text));
                    }
                }
            }
        }
        Some(so)
    }
}

// ------------------------------------------------------------------ generators

/// Ways to bring a deque into an interesting state (applied to `cur`); `base` keeps values distinct.
pub fn prep(i: usize, base: u32) -> Vec<String> {
    let push = |n: u32| -> Vec<String> { (0..n).map(|j| format!("push {}", base + j)).collect() };
    let mut ops = Vec::new();
    match i {
        0 => {}                                                                                  // fresh
        1 => { ops.extend(push(3)); ops.push("clear".into()); }                                  // cleared
        2 => { ops.extend(push(6)); ops.push("pop_front".into()); }                              // consumed 1 of 6, no slide
        3 => { ops.extend(push(6)); ops.push("advance 3".into()); }                              // consumed exactly half
        4 => { ops.extend(push(6)); ops.push("advance 3".into()); ops.push("slide".into()); }    // just slid
        5 => { ops.extend(push(9)); }                                                            // SmallVec spilled
        6 => { ops.extend(push(9)); ops.push("advance 4".into()); }                              // spilled + consumed
        7 => { ops.extend(push(2)); ops.push("pop_front".into()); ops.push("pop_front".into()); } // emptied by pops
        8 => { ops.push(format!("from {},{},{},{},{}", base, base + 1, base + 2, base + 3, base + 4)); ops.push("pop_front".into()); ops.push("pop_front".into()); }
        9 => { ops.extend(push(4)); ops.push("pop_back".into()); ops.push("pop_front".into()); }
        10 => { ops.extend(push(1)); }                                                           // shorter than most stale cursors
        _ => { ops.extend(push(12)); ops.push("advance 6".into()); ops.push("pop_back".into()); ops.push("pop_back".into()); }
    }
    ops
}
pub const NPREP: usize = 12;

/// source state x destination state x the method: `clone_from` onto `cur`, `clone_from` onto a
/// handle, `clone`, `take`; then both objects are used independently.
pub fn clone_matrix_case(src: usize, dst: usize, how: usize, unwinding: bool) -> Vec<String> {
    let mut ops = prep(src, 100);
    ops.push("dstore 0".into()); // d0 = source (a clone of it; cur still is the original)
    ops.push("dnew".into()); // d1 fresh
    ops.push("dswap 1".into()); // cur = fresh, d1 = the original source
    ops.extend(prep(dst, 200)); // cur = destination state
    let u = |s: &str| if unwinding { format!("unwinding {}", s) } else { s.to_string() };
    match how {
        0 => ops.push(u("dclone_from 0")),
        1 => {
            // destination behind a handle
            ops.push("dswap 0".into()); // cur = source clone, d0 = destination
            ops.push(u("dclone_into 0"));
            ops.push("dswap 0".into()); // cur = the overwritten destination
        }
        2 => ops.push(u("dload 0")),
        _ => {
            ops.push(u("dtake 0"));
            ops.push("dstore 0".into());
        }
    }
    // use the destination ...
    ops.extend(["ddebug", "front", "back", "pop_front", "push 901", "advance 2", "push 902", "slide", "pop_back"].iter().map(|s| s.to_string()));
    // ... then the source (it must not have noticed), then the original
    ops.push("dswap 0".into());
    ops.extend(["front", "pop_front", "push 903", "wfront 904"].iter().map(|s| s.to_string()));
    ops.push("dswap 1".into());
    ops.extend(["front", "pop_front", "push 905"].iter().map(|s| s.to_string()));
    // and once more in the other direction
    ops.push(u("dclone_from 0"));
    ops.push("pop_front".into());
    ops.push(u("dclone_into 1"));
    ops
}

/// A random handle op; `st[0]` is the generator's shadow of `cur`, `st[1..]` those of the objects.
pub fn gen_mop<T: Clone + Default>(rng: &mut Rng, st: &mut Vec<T>) -> String {
    let n = st.len() - 1;
    let k = if n == 0 || rng.chance(1, 30) { n + rng.below(2) as usize } else { rng.below(n as u64) as usize };
    let pick = if n == 0 { rng.below(3) } else { 3 + rng.below(12) };
    match pick {
        0 => {
            st.push(T::default());
            "dnew".into()
        }
        1 => {
            st.push(T::default());
            "ddefault".into()
        }
        2 | 3 | 4 => {
            let k = if rng.chance(1, 3) { n } else { k };
            if k < n {
                st[k + 1] = st[0].clone();
            } else if k == n {
                let c = st[0].clone();
                st.push(c);
            }
            format!("dstore {}", k)
        }
        5 => {
            if k < n {
                st[0] = st[k + 1].clone();
            }
            format!("dload {}", k)
        }
        6 | 7 | 8 => {
            if k < n {
                st.swap(0, k + 1);
            }
            format!("dswap {}", k)
        }
        9 | 10 | 11 => {
            if k < n {
                st[0] = st[k + 1].clone();
            }
            format!("dclone_from {}", k)
        }
        12 | 13 => {
            if k < n {
                st[k + 1] = st[0].clone();
            }
            format!("dclone_into {}", k)
        }
        _ => {
            if rng.chance(1, 2) {
                return "ddebug".into();
            }
            if k < n {
                st[0] = std::mem::take(&mut st[k + 1]);
            }
            format!("dtake {}", k)
        }
    }
}

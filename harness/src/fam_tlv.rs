//! Families `tlv` (C11: MessageWrapper -> sinks -> MessageView) and `tlvview`
//! (C12: MessageView on arbitrary bytes).  64-bit `usize` is assumed.
//!
//! `tlvview`:  `view <hex> <lookups>`
//!             `viewt <hex> <lookups>`   same oracle, terse observation (digests) for messages with hundreds of pairs
//!             `viewit <iter|tags> <hex> <script>`  iterator-protocol script (`iterscript.rs`) on `iter()` / `tags().iter()`
//! `tlv`:      `msg <new|sorted|slice> <cow|str|ref|h> <tag:kind:payload,...|->`
//!             (kinds: b/o = borrowed/owned bytes, m = message in slot <payload>, v = MessageView of that slot's encoding,
//!              f = value whose rough_tlv_len reports <payload>, never encoded)
//!             `msgrun <ctor> <vt> <L> <defect>`  the same on a generated list (`msgrun_items`: L pairs, empty values,
//!              ascending tags, ONE defect at a chosen position) - the single-defect sweeps
//!             `enc <slot> <iov|hcobs>`  (answers `calls <b|c><len>,...`: every `ZeroCopySink` call `encode` made on the
//!              sink, in order, method + length, recorded by a pass-through sink wrapper; sink `hcobs` also `wire <hex>`,
//!              the bytes the real `hcobs::Encoder` sink holds after `finish`)
use crate::util::*;
use owning_iovec::{OwningIovec, ZeroCopySink};
use rough_tlv::{DecodingError, EncodingError, MessageView, MessageWrapper, Tag, ToRoughTLV};
use std::borrow::Cow;
use std::panic::{catch_unwind, AssertUnwindSafe};
use std::rc::Rc;

const I32MAX: u128 = i32::MAX as u128;

// --------------------------------------------------------------------------- view observations + C12 oracle

fn opt_hex(v: Option<&[u8]>) -> String {
    match v {
        None => "none".into(),
        Some(b) => to_hex(b),
    }
}

fn pair_str(t: Tag, v: &[u8]) -> String {
    format!("{}:{}", t.value(), to_hex(v))
}

fn dec_err_str(e: &DecodingError) -> String {
    match e {
        DecodingError::ImpossibleHeader(s) => format!("impossibleHeader {}", s),
        DecodingError::TruncatedHeader((n, s)) => format!("truncatedHeader {} {}", n, s),
        DecodingError::NonMonotonicOffsets((i, a, b)) => format!("nonMonotonicOffsets {} {} {}", i, a, b),
        DecodingError::NonMonotonicTags((i, a, b)) => format!("nonMonotonicTags {} {} {}", i, a, b),
        DecodingError::TruncatedPayload((t, s)) => format!("truncatedPayload {} {}", t, s),
        _ => "unknown-error".into(),
    }
}

fn rd32(d: &[u8], word: usize) -> u64 {
    u32::from_le_bytes([d[4 * word], d[4 * word + 1], d[4 * word + 2], d[4 * word + 3]]) as u64
}

/// The acceptance criterion of the format, written from the property text (not from the code).
pub fn ref_accepts(d: &[u8]) -> bool {
    if d.len() < 4 {
        return false;
    }
    let n = rd32(d, 0);
    if 8 * n > d.len() as u64 {
        return false;
    }
    let n = n as usize;
    // offsets: words 1..n-1 ; tags: words n..2n-1
    for i in 1..n.saturating_sub(1) {
        if rd32(d, i) > rd32(d, i + 1) {
            return false;
        }
    }
    for i in n..(2 * n).saturating_sub(1) {
        if rd32(d, i) > rd32(d, i + 1) {
            return false;
        }
    }
    if n >= 2 && 8 * n as u64 + rd32(d, n - 1) > d.len() as u64 {
        return false;
    }
    true
}

fn lookup_list(lookups: &[u32]) -> Vec<Tag> {
    lookups.iter().map(|t| Tag::new_from_u32(*t)).collect()
}

/// Runs `MessageView::new` and every accessor; returns the observation lines and the C12 oracle's verdicts.
fn view_obs_inner(d: &[u8], lookups: &[u32], tags_out: &mut Vec<String>) -> (Vec<String>, Vec<String>) {
    let mut obs = Vec::new();
    let mut viol = Vec::new();
    let mut bad = |s: String| viol.push(format!("C12 {}", s));
    let want = ref_accepts(d);
    let msg = match MessageView::new(Cow::Borrowed(d)) {
        Err(e) => {
            if want {
                bad(format!("rejected a well-formed message ({})", dec_err_str(&e)));
            }
            tags_out.push(format!("new_{}", dec_err_str(&e).split(' ').next().unwrap()));
            obs.push(format!("new err {}", dec_err_str(&e)));
            return (obs, viol);
        }
        Ok(m) => m,
    };
    if !want {
        bad("accepted a malformed message".into());
    }
    let n = msg.len();
    tags_out.push(format!("new_ok_n{}", n.min(5)));
    obs.push(format!("new ok n={} empty={}", n, msg.is_empty() as u8));
    let tags: Vec<Tag> = msg.tags().to_vec();
    let m1 = msg.tags_match_exactly(tags.iter().copied());
    let m2 = msg.tags_match_exactly(lookup_list(lookups));
    obs.push(format!(
        "tags {} match={},{}",
        nat_list(&tags.iter().map(|t| t.value() as usize).collect::<Vec<_>>()),
        m1 as u8,
        m2 as u8
    ));
    let it: Vec<(Tag, &[u8])> = msg.iter().collect();
    obs.push(format!(
        "iter {}",
        if it.is_empty() { "-".to_string() } else { it.iter().map(|(t, v)| pair_str(*t, v)).collect::<Vec<_>>().join(";") }
    ));
    let mut idxs: Vec<usize> = (0..n + 2).collect();
    idxs.push(4294967296);
    idxs.push(usize::MAX);
    obs.push(format!(
        "get {}",
        idxs.iter()
            .map(|i| format!("{}={}", i, match msg.get(*i) { None => "none".to_string(), Some((t, v)) => pair_str(t, v) }))
            .collect::<Vec<_>>()
            .join(" ")
    ));
    obs.push(format!(
        "getv {}",
        idxs.iter().map(|i| format!("{}={}", i, opt_hex(msg.get_value(*i)))).collect::<Vec<_>>().join(" ")
    ));
    let finds: Vec<String> = lookups
        .iter()
        .map(|w| {
            format!(
                "{}={}/{}",
                w,
                match msg.find_tag(*w) { None => "none".to_string(), Some(i) => i.to_string() },
                opt_hex(msg.find(*w))
            )
        })
        .collect();
    obs.push(format!("find {}", if finds.is_empty() { "-".to_string() } else { finds.join(" ") }));
    // `inner()` / `into_inner()` (track apigaps): the bytes the view was built from, untouched
    let inner_now: Vec<u8> = msg.inner().to_vec();
    if inner_now != d {
        bad("inner() differs from the bytes the view was built from".into());
    }
    let into = MessageView::new(Cow::Borrowed(d)).map(|m| m.into_inner().into_owned());
    obs.push(format!("inner {} {}", to_hex(&inner_now), (into.as_ref().ok() == Some(&inner_now)) as u8));
    if into.ok().as_deref() != Some(d) {
        bad("into_inner() differs from the bytes the view was built from".into());
    }

    // ---- the property, on the real accessors
    if !m1 {
        bad("tags_match_exactly(own tags) is false".into());
    }
    // `tags_match_exactly` takes ANY IntoIterator: the answer must not depend on the iterator's
    // size_hint (exact for slices / Vec / arrays, a mere lower bound for filter / from_fn / chains)
    {
        let own = || tags.iter().copied();
        let extra = Tag::from(0x7fff_fff0u32);
        let mut k = 0usize;
        let shapes: Vec<(&str, bool, bool)> = vec![
            ("vec", true, msg.tags_match_exactly(tags.clone())),
            ("filter(all)", true, msg.tags_match_exactly(own().filter(|_| true))),
            ("from_fn", true, msg.tags_match_exactly(std::iter::from_fn(|| { let r = tags.get(k).copied(); k += 1; r }))),
            ("flat_map", true, msg.tags_match_exactly(own().flat_map(|t| std::iter::once(t)))),
            ("own+extra", false, msg.tags_match_exactly(own().chain(std::iter::once(extra)))),
            ("own+filtered extra", false, msg.tags_match_exactly(own().chain([extra].into_iter().filter(|_| true)))),
            ("all but last", n == 0, msg.tags_match_exactly(own().take(n.saturating_sub(1)))),
            ("all but last (filter)", n == 0, msg.tags_match_exactly(own().take(n.saturating_sub(1)).filter(|_| true))),
            ("skip first", n == 0, msg.tags_match_exactly(own().skip(1).filter(|_| true))),
        ];
        for (name, want, got) in shapes {
            if want != got {
                bad(format!("tags_match_exactly({}) = {} for a message with {} tags", name, got, n));
            }
        }
    }
    if tags.len() != n {
        bad(format!("tags().len()={} but len()={}", tags.len(), n));
    }
    if msg.is_empty() != (n == 0) {
        bad("is_empty disagrees with len".into());
    }
    if tags.windows(2).any(|w| w[0] > w[1]) {
        bad("accepted tags are not sorted".into());
    }
    let mut tiled: Vec<u8> = Vec::new();
    for i in 0..n.min(tags.len()) {
        match msg.get_value(i) {
            None => bad(format!("get_value({}) is None with n={}", i, n)),
            Some(v) => {
                // in order and contiguous: each value starts where the previous one ended
                let expect_start = 8 * n + tiled.len();
                let start = (v.as_ptr() as usize).wrapping_sub(d.as_ptr() as usize);
                if start != expect_start {
                    bad(format!("value {} starts at byte {} instead of {}", i, start, expect_start));
                }
                tiled.extend_from_slice(v);
                if msg.get(i) != Some((tags[i], v)) {
                    bad(format!("get({}) disagrees with tags()/get_value", i));
                }
                if it.get(i) != Some(&(tags[i], v)) {
                    bad(format!("iter()[{}] disagrees with tags()/get_value", i));
                }
            }
        }
    }
    if n >= 1 && tiled != d[8 * n..] {
        bad("values do not tile the bytes after the header".into());
    }
    if it.len() != n {
        bad(format!("iter() yields {} items, n={}", it.len(), n));
    }
    for i in idxs.iter().filter(|i| **i >= n) {
        if msg.get_value(*i).is_some() || msg.get(*i).is_some() {
            bad(format!("index {} >= n={} yields something", i, n));
        }
    }
    for w in lookups {
        let present = tags.iter().any(|t| t.value() == *w);
        let ft = msg.find_tag(*w);
        let f = msg.find(*w);
        match ft {
            Some(i) => {
                if i >= n || tags[i].value() != *w {
                    bad(format!("find_tag({}) = {} which does not hold that tag", w, i));
                } else if f != msg.get_value(i) {
                    bad(format!("find({}) differs from get_value(find_tag)", w));
                }
            }
            None => {
                if f.is_some() {
                    bad(format!("find({}) is Some but find_tag is None", w));
                }
            }
        }
        if present != f.is_some() {
            bad(format!("find({}) is {} although the tag is {}", w, if f.is_some() { "Some" } else { "None" }, if present { "present" } else { "absent" }));
        }
        if let Some(v) = f {
            let ok = (0..n).any(|i| tags[i].value() == *w && msg.get_value(i).map(|x| (x.as_ptr(), x.len())) == Some((v.as_ptr(), v.len())));
            if !ok {
                bad(format!("find({}) returned bytes not stored under that tag", w));
            }
        }
    }
    (obs, viol)
}

fn view_obs(d: &[u8], lookups: &[u32], tags_out: &mut Vec<String>) -> (Vec<String>, Vec<String>, bool) {
    match catch_unwind(AssertUnwindSafe(|| {
        let mut t = Vec::new();
        let r = view_obs_inner(d, lookups, &mut t);
        (r, t)
    })) {
        Ok(((o, v), t)) => {
            tags_out.extend(t);
            (o, v, false)
        }
        Err(_) => (vec!["panic".into()], vec!["C12 MessageView panicked on untrusted bytes".into()], true),
    }
}

fn parse_u32_list(s: &str) -> Option<Vec<u32>> {
    if s == "-" {
        return Some(vec![]);
    }
    s.split(',').map(|t| t.parse::<u32>().ok()).collect()
}

pub struct TlvViewFamily;
struct TlvViewExec;

/// `viewit <iter|tags> <hex> <script>`: `MessageView::new`, then an iterator-protocol script
/// (`iterscript.rs`) on `iter()` (forward-only) or on `tags().iter()` (a slice iterator:
/// double-ended, exact size), against a `Vec` of the pairs / tags obtained through `get(i)`.
fn view_iter_script(src: &str, d: &[u8], steps: &[crate::iterscript::Step], script: &str) -> StepOut {
    use crate::iterscript as its;
    let mut so = StepOut::default();
    let msg = match MessageView::new(Cow::Borrowed(d)) {
        Err(e) => {
            if ref_accepts(d) {
                so.violations.push(format!("C12 rejected a well-formed message ({})", dec_err_str(&e)));
            }
            so.obs.push(format!("new err {}", dec_err_str(&e)));
            return so;
        }
        Ok(m) => m,
    };
    if !ref_accepts(d) {
        so.violations.push("C12 accepted a malformed message".into());
    }
    let n = msg.len();
    let mut items: Vec<String> = Vec::with_capacity(n);
    for i in 0..n {
        match msg.get(i) {
            Some((t, v)) => items.push(if src == "iter" { pair_str(t, v) } else { t.value().to_string() }),
            None => {
                so.violations.push(format!("C12 get({}) is None with n={}", i, n));
                break;
            }
        }
    }
    let (obs, diff) = if src == "iter" {
        let real = its::forward(msg.iter(), |p: (Tag, &[u8])| pair_str(p.0, p.1), its::cap_for(n));
        its::run_both("C12", "MessageView::iter() against get(i)", steps, script, real, items, false)
    } else {
        let real = its::double_ended(msg.tags().iter(), |t: &Tag| t.value().to_string(), its::cap_for(n));
        its::run_both("C12", "MessageView::tags().iter() against get(i)", steps, script, real, items, true)
    };
    so.obs.push(obs);
    so.violations.extend(diff);
    so.tags.push(format!("viewit_{}_n{}", src, n.min(6)));
    so
}

/// FNV-1a, 64 bit (the Lean driver computes the same over the same text).
fn fnv64(bytes: &[u8]) -> u64 {
    let mut h: u64 = 0xcbf29ce484222325;
    for b in bytes {
        h ^= *b as u64;
        h = h.wrapping_mul(0x100000001b3);
    }
    h
}

/// The terse observation of `viewt` (for messages with hundreds of pairs, where the full `view`
/// observation is quadratic in N): the `new` line; then count + FNV-1a digest of the `tags` and
/// `iter` texts of the full observation, `get` / `getv` at a handful of indices, `find` of the lookups.
fn view_terse(d: &[u8], lookups: &[u32]) -> Vec<String> {
    let msg = match MessageView::new(Cow::Borrowed(d)) {
        Err(e) => return vec![format!("new err {}", dec_err_str(&e))],
        Ok(m) => m,
    };
    let n = msg.len();
    let mut obs = vec![format!("new ok n={} empty={}", n, msg.is_empty() as u8)];
    let tags_text = nat_list(&msg.tags().iter().map(|t| t.value() as usize).collect::<Vec<_>>());
    obs.push(format!("tags #{}:{:016x}", msg.tags().len(), fnv64(tags_text.as_bytes())));
    let it: Vec<String> = msg.iter().map(|(t, v)| pair_str(t, v)).collect();
    let it_text = if it.is_empty() { "-".to_string() } else { it.join(";") };
    obs.push(format!("iter #{}:{:016x}", it.len(), fnv64(it_text.as_bytes())));
    let mut idxs: Vec<usize> = vec![0, n / 2, n.saturating_sub(1), n, n + 1, 4294967296, usize::MAX];
    idxs.dedup();
    obs.push(format!(
        "get {}",
        idxs.iter()
            .map(|i| format!("{}={}/{}", i, match msg.get(*i) { None => "none".to_string(), Some((t, v)) => pair_str(t, v) }, opt_hex(msg.get_value(*i))))
            .collect::<Vec<_>>()
            .join(" ")
    ));
    let finds: Vec<String> = lookups
        .iter()
        .map(|w| format!("{}={}/{}", w, match msg.find_tag(*w) { None => "none".to_string(), Some(i) => i.to_string() }, opt_hex(msg.find(*w))))
        .collect();
    obs.push(format!("find {}", if finds.is_empty() { "-".to_string() } else { finds.join(" ") }));
    obs
}

impl Exec for TlvViewExec {
    fn flush_before(&self, w: &[&str]) -> bool {
        matches!(w, ["viewit", ..])
    }
    fn step(&mut self, w: &[&str]) -> StepOut {
        match w {
            ["viewit", src @ ("iter" | "tags"), hex, script] => {
                let (Some(d), Some(steps)) = (from_hex(hex), crate::iterscript::parse(script)) else { return StepOut::bad() };
                match catch_unwind(AssertUnwindSafe(|| view_iter_script(src, &d, &steps, script))) {
                    Ok(so) => so,
                    Err(_) => {
                        let mut so = StepOut::obs("panic");
                        so.violations.push(format!("C12 MessageView or its iterator panicked in script `{}`", script));
                        so
                    }
                }
            }
            ["viewt", hex, lk] => {
                // same oracle as `view` (every accessor, every index), terse observation
                let (Some(d), Some(lookups)) = (from_hex(hex), parse_u32_list(lk)) else { return StepOut::bad() };
                let mut so = StepOut::default();
                let (_, v, panicked) = view_obs(&d, &lookups, &mut so.tags);
                so.violations.extend(v);
                if panicked {
                    so.obs.push("panic".into());
                    return so;
                }
                match catch_unwind(AssertUnwindSafe(|| view_terse(&d, &lookups))) {
                    Ok(o) => so.obs = o,
                    Err(_) => {
                        so.obs.push("panic".into());
                        so.violations.push("C12 MessageView panicked on untrusted bytes".into());
                    }
                }
                so.tags.push("viewt".into());
                so
            }
            ["view", hex, lk] => {
                let (Some(d), Some(lookups)) = (from_hex(hex), parse_u32_list(lk)) else { return StepOut::bad() };
                let mut so = StepOut::default();
                let (o, v, _) = view_obs(&d, &lookups, &mut so.tags);
                // The result must not depend on where the bytes live: repeat on copies placed at every
                // alignment of an 8-byte-aligned buffer and require identical observations.
                let mut backing: Vec<u64> = vec![0u64; d.len() / 8 + 3];
                let base = backing.as_mut_ptr() as *mut u8;
                for shift in 1..8usize {
                    let shifted: &mut [u8] = unsafe { std::slice::from_raw_parts_mut(base.add(shift), d.len()) };
                    shifted.copy_from_slice(&d);
                    let mut tags2 = Vec::new();
                    let r = std::panic::catch_unwind(std::panic::AssertUnwindSafe(|| view_obs(shifted, &lookups, &mut tags2)));
                    match r {
                        Ok((o2, _, _)) if o2 == o => {}
                        Ok(_) => so.violations.push(format!(
                            "C12 MessageView behaves differently on the same bytes at address offset {} mod 8 than on an aligned copy",
                            shift
                        )),
                        Err(_) => so.violations.push(format!("C12 MessageView panicked on a copy of the bytes at address offset {} mod 8", shift)),
                    }
                }
                so.obs = o;
                so.violations.extend(v);
                so
            }
            // `Tag`: every conversion and the ordering (track apigaps)
            ["tag", a, b] => {
                let (Ok(x), Ok(y)) = (a.parse::<u32>(), b.parse::<u32>()) else { return StepOut::bad() };
                let mut so = StepOut::default();
                let mut bad = |s: &str| {
                    so.violations.push(format!("C12 Tag: {}", s));
                    so.violations.push(format!("C11 Tag: {}", s));
                };
                let mk = |v: u32| -> (Tag, bool) {
                    let t: Tag = v.into();
                    let le = v.to_le_bytes();
                    let same = t == Tag::new_from_u32(v)
                        && t == Tag::from(&v)
                        && t == Tag::new(&le)
                        && t == Tag::from(le)
                        && t == Tag::from(&le)
                        && t.bytes == le
                        && u32::from(t) == v
                        && u32::from(&t) == v
                        && t.value() == v;
                    (t, same)
                };
                let ((ta, oka), (tb, okb)) = (mk(x), mk(y));
                if !oka || !okb {
                    bad("the conversions between u32, [u8; 4] and Tag disagree");
                }
                let c = ta.cmp(&tb);
                if c != x.cmp(&y) {
                    bad("Ord does not compare the little-endian values");
                }
                if ta.partial_cmp(&tb) != Some(c) || (ta < tb) != (x < y) || (ta == tb) != (x == y) || tb.cmp(&ta) != c.reverse() {
                    bad("PartialOrd / Eq / Ord are inconsistent");
                }
                // track traits: Hash agrees with Eq, Clone / Copy give equal values, `ne` is `!eq`, min / max / clamp
                // follow Ord, Debug does not panic, hashed and ordered collections see one key per value
                {
                    use std::hash::{Hash, Hasher};
                    let h = |t: &Tag| {
                        let mut s = std::collections::hash_map::DefaultHasher::new();
                        t.hash(&mut s);
                        s.finish()
                    };
                    if (ta == tb) && h(&ta) != h(&tb) {
                        bad("equal tags hash differently");
                    }
                    let tc = ta.clone();
                    let td = ta;
                    if tc != ta || td != ta || h(&tc) != h(&ta) || tc.cmp(&ta) != std::cmp::Ordering::Equal {
                        bad("a clone / copy of a tag is not equal to it");
                    }
                    if (ta != tb) == (ta == tb) {
                        bad("`!=` is not the negation of `==`");
                    }
                    if ta.max(tb).value() != x.max(y) || ta.min(tb).value() != x.min(y) || (ta <= tb) != (x <= y) || (ta >= tb) != (x >= y) || (ta > tb) != (x > y) {
                        bad("min / max / comparison operators do not follow the little-endian values");
                    }
                    let hs: std::collections::HashSet<Tag> = [ta, tb, tc].into_iter().collect();
                    let bs: std::collections::BTreeSet<Tag> = [ta, tb, tc].into_iter().collect();
                    let want = if x == y { 1 } else { 2 };
                    if hs.len() != want || bs.len() != want {
                        bad("HashSet / BTreeSet do not see one key per tag value");
                    }
                    if format!("{:?}", ta).is_empty() || format!("{:#?}", tb).is_empty() {
                        bad("empty Debug output");
                    }
                }
                let ord = |o: std::cmp::Ordering| match o {
                    std::cmp::Ordering::Less => "lt",
                    std::cmp::Ordering::Equal => "eq",
                    std::cmp::Ordering::Greater => "gt",
                };
                so.obs.push(format!(
                    "tag a={}:{} b={}:{} cmp={} pcmp={} new={}",
                    ta.value(),
                    to_hex(&ta.bytes),
                    tb.value(),
                    to_hex(&tb.bytes),
                    ord(c),
                    ta.partial_cmp(&tb).map(ord).unwrap_or("none"),
                    Tag::new(&ta.bytes).value()
                ));
                so.tags.push(format!("tag_{}", ord(c)));
                so
            }
            _ => StepOut::bad(),
        }
    }
}

fn lookups_for(d: &[u8]) -> String {
    let mut l: Vec<u32> = Vec::new();
    let mut push = |x: u32| {
        if !l.contains(&x) && l.len() < 12 {
            l.push(x)
        }
    };
    for i in 0..d.len() / 4 {
        let w = rd32(d, i) as u32;
        push(w);
        push(w.wrapping_add(1));
    }
    let mut l2 = l;
    for x in [0u32, u32::MAX] {
        if !l2.contains(&x) {
            l2.push(x);
        }
    }
    l2.iter().map(|x| x.to_string()).collect::<Vec<_>>().join(",")
}

fn view_op(d: &[u8]) -> String {
    format!("view {} {}", to_hex(d), lookups_for(d))
}

/// A well-formed message with `n` pairs.
fn gen_valid(rng: &mut Rng, n: usize) -> Vec<u8> {
    let mut lens: Vec<usize> = (0..n).map(|_| if rng.chance(1, 3) { 0 } else { rng.range(0, 5) as usize }).collect();
    if n > 0 && rng.chance(1, 4) {
        lens[n - 1] = 0;
    }
    let mut tags: Vec<u32> = (0..n)
        .map(|_| match rng.below(4) {
            0 => rng.below(4) as u32,
            1 => u32::MAX - rng.below(2) as u32,
            2 => rng.next() as u32,
            _ => rng.below(3) as u32 + 5,
        })
        .collect();
    tags.sort();
    let mut d = Vec::new();
    d.extend_from_slice(&(n as u32).to_le_bytes());
    let mut acc = 0u32;
    for i in 0..n.saturating_sub(1) {
        acc += lens[i] as u32;
        d.extend_from_slice(&acc.to_le_bytes());
    }
    for t in &tags {
        d.extend_from_slice(&t.to_le_bytes());
    }
    for l in &lens {
        for _ in 0..*l {
            d.push(rng.next() as u8);
        }
    }
    d
}

/// `n` pairs with tags `10 + 2j` and one-byte values `j` (offsets 1, 2, ..): everything strictly ascending.
fn sweep_message(n: usize) -> Vec<u8> {
    let mut d = Vec::with_capacity(9 * n + 4);
    d.extend_from_slice(&(n as u32).to_le_bytes());
    for j in 1..n {
        d.extend_from_slice(&(j as u32).to_le_bytes());
    }
    for j in 0..n {
        d.extend_from_slice(&(10 + 2 * j as u32).to_le_bytes());
    }
    d.extend((0..n).map(|j| j as u8));
    d
}

/// `(N, every position?)` of the single-defect sweep of `MessageView::new`.
fn view_sweep_sizes(thorough: bool) -> Vec<(usize, bool)> {
    let mut v: Vec<(usize, bool)> = (2..=24).map(|n| (n, true)).collect();
    v.extend((63..=66).map(|n| (n, true)));
    v.extend((127..=130).map(|n| (n, true)));
    if thorough {
        v.extend((25..=62).map(|n| (n, true)));
        v.extend((255..=258).map(|n| (n, true)));
        v.push((300, true));
        v.extend((511..=514).map(|n| (n, false)));
    } else {
        v.extend((256..=257).map(|n| (n, false)));
    }
    v
}

fn put32(d: &mut [u8], word: usize, v: u32) {
    if 4 * word + 4 <= d.len() {
        d[4 * word..4 * word + 4].copy_from_slice(&v.to_le_bytes());
    }
}

impl Family for TlvViewFamily {
    fn name(&self) -> &'static str {
        "tlvview"
    }
    fn new_exec(&self) -> Box<dyn Exec> {
        Box::new(TlvViewExec)
    }

    /// (a) every byte string of length <= 8 (thorough: 10) over {00,01,02,FF};
    /// (b) every string of <= 5 (thorough: 6) words over {0,1,2,3,4,FFFFFFFF} followed by 0..3 bytes `01`.
    fn enumerated(&self, thorough: bool) -> Vec<Vec<String>> {
        let mut ops: Vec<String> = Vec::new();
        let alpha = [0u8, 1, 2, 0xFF];
        let maxlen = if thorough { 10 } else { 8 };
        let mut frontier: Vec<Vec<u8>> = vec![vec![]];
        ops.push(view_op(&[]));
        for _ in 0..maxlen {
            let mut next = Vec::with_capacity(frontier.len() * 4);
            for s in &frontier {
                for a in alpha {
                    let mut t = s.clone();
                    t.push(a);
                    ops.push(view_op(&t));
                    next.push(t);
                }
            }
            frontier = next;
        }
        let walpha = [0u32, 1, 2, 3, 4, u32::MAX];
        let maxw = if thorough { 6 } else { 5 };
        let mut frontier: Vec<Vec<u8>> = vec![vec![]];
        for _ in 0..maxw {
            let mut next = Vec::with_capacity(frontier.len() * 6);
            for s in &frontier {
                for a in walpha {
                    let mut t = s.clone();
                    t.extend_from_slice(&a.to_le_bytes());
                    for tail in 0..4 {
                        let mut u = t.clone();
                        u.extend(std::iter::repeat(1u8).take(tail));
                        ops.push(view_op(&u));
                    }
                    next.push(t);
                }
            }
            frontier = next;
        }
        let mut cases: Vec<Vec<String>> = ops.chunks(256).map(|c| c.to_vec()).collect();
        // (c) pair counts beyond one byte (256 +- 1, and 300 in thorough): a well-formed message, the same with its
        // last offset one past the payload, and with one byte cut off (thresholds that depend on a large N)
        let mut rng = Rng::new(0xC12_B16);
        for n in if thorough { vec![255usize, 256, 257, 300] } else { vec![255usize, 256, 257] } {
            let d = gen_valid(&mut rng, n);
            let mut over = d.clone();
            let payload = (d.len() - 8 * n) as u32;
            put32(&mut over, n - 1, payload + 1);
            let cut = d[..d.len() - 1].to_vec();
            // few lookups: the observation is quadratic in N already
            let lk = |x: &[u8]| format!("view {} {},{},0,4294967295", to_hex(x), rd32(x, n), rd32(x, 2 * n - 1));
            cases.push(vec![lk(&d), lk(&over), lk(&cut)]);
        }
        // (c') SINGLE-DEFECT SWEEP (track gen3) of the two "all neighbours are ordered" scans of `new`: for N
        // pairs (values of one byte each, so offsets 1, 2, ... and tags 10, 12, ... are strictly ascending)
        // exactly one descent at EVERY position of the offsets and of the tags, plus equal neighbours and a
        // last offset beyond the payload; terse observation (`viewt`).
        for (n, every) in view_sweep_sizes(thorough) {
            let base = sweep_message(n);
            let lookups = format!("{},{},{},11,0,4294967295", 10, 10 + 2 * (n / 2), 10 + 2 * (n - 1));
            let mut ops: Vec<String> = vec![format!("viewt {} {}", to_hex(&base), lookups)];
            let positions = |count: usize| -> Vec<usize> {
                if every {
                    (0..count).collect()
                } else {
                    let mut p: Vec<usize> = vec![0, 1, count / 2, count.saturating_sub(2), count.saturating_sub(1)];
                    p.extend((1..=count / 32).flat_map(|k| [32 * k - 2, 32 * k - 1, 32 * k, 32 * k + 1]));
                    p.retain(|i| *i < count);
                    p.sort_unstable();
                    p.dedup();
                    p
                }
            };
            // offsets are words 1..=n-1 (n-1 of them): descents at word pairs (1+i, 2+i)
            for i in positions(n.saturating_sub(2)) {
                let mut d = base.clone();
                let (a, b) = (rd32(&d, 1 + i) as u32, rd32(&d, 2 + i) as u32);
                put32(&mut d, 1 + i, b);
                put32(&mut d, 2 + i, a);
                ops.push(format!("viewt {} {}", to_hex(&d), lookups));
            }
            // tags are words n..=2n-1
            for i in positions(n - 1) {
                let mut d = base.clone();
                let (a, b) = (rd32(&d, n + i) as u32, rd32(&d, n + i + 1) as u32);
                put32(&mut d, n + i, b);
                put32(&mut d, n + i + 1, a);
                ops.push(format!("viewt {} {}", to_hex(&d), lookups));
                if i % 7 == 0 {
                    // equal neighbours: still sorted
                    let mut e = base.clone();
                    put32(&mut e, n + i + 1, a);
                    ops.push(format!("viewt {} {}", to_hex(&e), lookups));
                }
            }
            if n >= 2 {
                let mut d = base.clone();
                put32(&mut d, n - 1, n as u32 + 1);
                ops.push(format!("viewt {} {}", to_hex(&d), lookups));
                let cut = base[..base.len() - 1].to_vec();
                ops.push(format!("viewt {} {}", to_hex(&cut), lookups));
            }
            cases.extend(ops.chunks(128).map(|c| c.to_vec()));
        }
        // (d) iterator protocol (track gen3): every script of <= 2 (thorough: 3) non-consuming steps over a
        // small alphabet, alone and followed by each consuming step, on iter() and tags().iter() of messages
        // with 5, 2, 1 and 0 pairs
        let mut rng = Rng::new(0xC12_17E4);
        for (k, n) in [5usize, 2, 1, 0].into_iter().enumerate() {
            let d = gen_valid(&mut rng, n);
            let depth = if k == 0 { if thorough { 3 } else { 2 } } else { if thorough { 2 } else { 1 } };
            let mut ops: Vec<String> = Vec::new();
            for sc in crate::iterscript::enum_scripts(depth, false, n + 2) {
                ops.push(format!("viewit iter {} {}", to_hex(&d), sc));
            }
            for sc in crate::iterscript::enum_scripts(depth, true, n + 2) {
                ops.push(format!("viewit tags {} {}", to_hex(&d), sc));
            }
            cases.extend(ops.chunks(256).map(|c| c.to_vec()));
        }
        cases
    }

    fn gen_case(&self, rng: &mut Rng, _idx: u64, _thorough: bool) -> Vec<String> {
        if rng.chance(1, 8) {
            // iterator protocol on a well-formed message (now and then on a mutated one: the op then only
            // answers the `new` line)
            let n = match rng.below(6) {
                0 => rng.range(0, 2) as usize,
                1 => rng.range(30, 70) as usize,
                _ => rng.range(2, 12) as usize,
            };
            let mut d = gen_valid(rng, n);
            if rng.chance(1, 12) && !d.is_empty() {
                let i = rng.below(d.len() as u64) as usize;
                d[i] = d[i].wrapping_add(1);
            }
            let mut ops = Vec::new();
            for _ in 0..rng.range(2, 8) {
                if rng.chance(3, 4) {
                    let de = rng.chance(1, 30);
                    ops.push(format!("viewit iter {} {}", to_hex(&d), crate::iterscript::gen_script(rng, n, de)));
                } else {
                    ops.push(format!("viewit tags {} {}", to_hex(&d), crate::iterscript::gen_script(rng, n, true)));
                }
            }
            return ops;
        }
        let mut ops = Vec::new();
        if rng.chance(1, 3) {
            // `Tag` pairs: equal, adjacent, and pairs whose little-endian VALUE order differs from the
            // order of their byte arrays (low byte vs high byte)
            let a = match rng.below(5) {
                0 => *rng.pick(&[0u32, 1, 255, 256, 0x544f4f52, 0x0047_4953, 0x8000_0000, u32::MAX]),
                1 => (rng.next() as u32) & 0xFFFF,
                _ => rng.next() as u32,
            };
            let b = match rng.below(6) {
                0 => a,
                1 => a.wrapping_add(1),
                2 => a.swap_bytes(),
                3 => a.rotate_left(8),
                4 => a ^ (1 << (8 * rng.below(4) as u32)),
                _ => rng.next() as u32,
            };
            ops.push(format!("tag {} {}", a, b));
        }
        let n = match rng.below(8) {
            0 => 0,
            1 => 1,
            2 => 2,
            7 => rng.range(7, 20) as usize,
            _ => rng.range(2, 6) as usize,
        };
        let mut d = gen_valid(rng, n);
        let nwords = d.len() / 4;
        match rng.below(14) {
            0 => {} // valid as is
            1 => {
                // truncation at every length
                for k in 0..d.len() {
                    ops.push(view_op(&d[..k]));
                }
            }
            2 => {
                // trailing bytes
                for _ in 0..rng.range(1, 9) {
                    d.push(rng.next() as u8);
                }
            }
            3 => {
                // N near the buffer size
                let k = (d.len() / 8) as i64 + rng.range(0, 2) as i64 - 1;
                put32(&mut d, 0, k.max(0) as u32);
            }
            4 => {
                // N near 2^32 / where 8N or 4N wraps in 32 bits
                let k = *rng.pick(&[u32::MAX, u32::MAX - 1, 0x8000_0000, 0x8000_0001, 0x2000_0000, 0x2000_0001, 0x4000_0000, 0x4000_0001, 0x1fff_ffff]);
                put32(&mut d, 0, k);
            }
            5 if n >= 3 => {
                // decreasing / equal offsets
                let i = 1 + rng.below(n as u64 - 2) as usize;
                let a = rd32(&d, i) as u32;
                let b = rd32(&d, i + 1) as u32;
                if rng.chance(1, 2) {
                    put32(&mut d, i, b.wrapping_add(1));
                } else {
                    put32(&mut d, i + 1, a);
                    put32(&mut d, i, a);
                }
            }
            6 if n >= 2 => {
                // decreasing / equal tags
                let i = n + rng.below(n as u64 - 1) as usize;
                let b = rd32(&d, i + 1) as u32;
                if rng.chance(2, 3) {
                    put32(&mut d, i, b.wrapping_add(1).max(1));
                } else {
                    put32(&mut d, i, b);
                }
            }
            7 if n >= 2 => {
                // last offset at / just beyond the payload
                let payload = d.len() - 8 * n;
                let delta = rng.range(0, 2) as u32;
                for i in 1..n {
                    let cur = rd32(&d, i) as u32;
                    if i == n - 1 {
                        put32(&mut d, i, payload as u32 + delta);
                    } else if rng.chance(1, 2) {
                        put32(&mut d, i, cur.min(payload as u32));
                    }
                }
            }
            8 if n >= 2 => {
                // an offset with high bits set (wraps in 32-bit arithmetic)
                let i = 1 + rng.below(n as u64 - 1) as usize;
                put32(&mut d, i, *rng.pick(&[u32::MAX, 0x8000_0000, 0xFFFF_FFF8, 0xFFFF_FFF0]));
                if rng.chance(1, 2) {
                    for j in i + 1..n {
                        put32(&mut d, j, u32::MAX);
                    }
                }
            }
            9 => {
                // all tags equal (binary search among duplicates)
                let t = rng.below(3) as u32;
                for i in n..2 * n {
                    put32(&mut d, i, t);
                }
            }
            10 => {
                // one random word overwritten
                if nwords > 0 {
                    let i = rng.below(nwords as u64) as usize;
                    let v = match rng.below(3) {
                        0 => rng.below(6) as u32,
                        1 => rng.next() as u32,
                        _ => u32::MAX,
                    };
                    put32(&mut d, i, v);
                }
            }
            11 => {
                // cut to a random length, then maybe pad
                let k = rng.below(d.len() as u64 + 1) as usize;
                d.truncate(k);
            }
            12 => {
                // runs of equal tags
                let mut t = 0u32;
                for i in n..2 * n {
                    if rng.chance(1, 3) {
                        t += 1;
                    }
                    put32(&mut d, i, t);
                }
            }
            _ => {}
        }
        ops.push(view_op(&d));
        ops
    }
}

// --------------------------------------------------------------------------- tlv: MessageWrapper

/// The harness's own value type: bytes, a nested message, or a value that only reports a length.
enum HVal {
    B(Cow<'static, [u8]>),
    M(Rc<Slot>),
    /// a received message re-used as a value (`impl ToRoughTLV for MessageView`)
    W(MessageView<'static>),
    F(usize),
}

impl ToRoughTLV<'static> for HVal {
    fn to_rough_tlv<'dst, Sink>(&self, sink: &mut Sink)
    where
        'static: 'dst,
        Sink: ZeroCopySink<'dst> + ?Sized,
    {
        match self {
            HVal::B(c) => c.to_rough_tlv(sink),
            HVal::M(s) => s.msg.write(sink),
            HVal::W(v) => v.to_rough_tlv(sink),
            HVal::F(_) => panic!("a fake-length value must never be encoded"),
        }
    }
    fn rough_tlv_len(&self) -> usize {
        match self {
            HVal::B(c) => c.rough_tlv_len(),
            HVal::M(s) => s.msg.tlv_len(),
            HVal::W(v) => v.rough_tlv_len(),
            HVal::F(n) => *n,
        }
    }
}

/// A wrapper together with the slice it may borrow (dropped after it).
struct Held<V: ToRoughTLV<'static> + 'static> {
    w: MessageWrapper<'static, 'static, V>,
    _backing: Option<Box<[(Tag, V)]>>,
}

enum AnyMsg {
    Cow(Held<Cow<'static, [u8]>>),
    Str(Held<Cow<'static, str>>),
    Ref(Held<&'static [u8]>),
    H(Held<HVal>),
}

impl AnyMsg {
    fn write<'dst, Sink>(&self, sink: &mut Sink)
    where
        Sink: ZeroCopySink<'dst> + ?Sized,
    {
        match self {
            AnyMsg::Cow(h) => (&h.w).to_rough_tlv(sink),
            AnyMsg::Str(h) => (&h.w).to_rough_tlv(sink),
            AnyMsg::Ref(h) => (&h.w).to_rough_tlv(sink),
            AnyMsg::H(h) => (&h.w).to_rough_tlv(sink),
        }
    }
    fn tlv_len(&self) -> usize {
        match self {
            AnyMsg::Cow(h) => h.w.rough_tlv_len(),
            AnyMsg::Str(h) => h.w.rough_tlv_len(),
            AnyMsg::Ref(h) => (&h.w).rough_tlv_len(),
            AnyMsg::H(h) => h.w.rough_tlv_len(),
        }
    }
}

/// What the direct oracle knows about a slot, computed from the op line alone.
struct Slot {
    msg: AnyMsg,
    /// the pairs in the order the message must hold them (stable by tag), with the bytes each value must write
    pairs: Vec<(u32, Option<Vec<u8>>)>,
    /// the reference encoding (None if some value is a fake)
    reference: Option<Vec<u8>>,
}

fn build<V: ToRoughTLV<'static> + 'static>(ctor: &str, items: Vec<(Tag, V)>) -> Option<Result<Held<V>, EncodingError>> {
    match ctor {
        "new" => Some(MessageWrapper::new(items).map(|w| Held { w, _backing: None })),
        "sorted" => {
            let mut b = items.into_boxed_slice();
            let p: *mut [(Tag, V)] = &mut *b;
            // The box outlives the wrapper (field order of `Held`) and its heap block never moves.
            let s: &'static [(Tag, V)] = unsafe { &*p };
            Some(MessageWrapper::new_from_sorted(s).map(|w| Held { w, _backing: Some(b) }))
        }
        "slice" => {
            let mut b = items.into_boxed_slice();
            let p: *mut [(Tag, V)] = &mut *b;
            let s: &'static mut [(Tag, V)] = unsafe { &mut *p };
            Some(MessageWrapper::new_from_slice(s).map(|w| Held { w, _backing: Some(b) }))
        }
        _ => None,
    }
}

fn enc_err_str(e: &EncodingError) -> String {
    match e {
        EncodingError::NonMonotonicTags((i, a, b)) => format!("nonMonotonicTags {} {} {}", i, a, b),
        EncodingError::TooManyElements(n) => format!("tooManyElements {}", n),
        EncodingError::ValueTooLarge((r, s)) => format!("valueTooLarge {} {}", r, s),
        EncodingError::TotalTooLarge((c, s)) => format!("totalTooLarge {} {}", c, s),
        _ => "unknown-error".into(),
    }
}

/// One parsed item: tag, what the value must write (None = fake), what it must report as its length.
struct Item {
    tag: u32,
    kind: char,
    bytes: Option<Vec<u8>>,
    len: u128,
    slot: Option<Rc<Slot>>,
}

fn kind_allowed(vt: &str, k: &str) -> bool {
    match vt {
        "cow" | "str" => k == "b" || k == "o",
        "ref" => k == "b",
        "h" => matches!(k, "b" | "o" | "m" | "v" | "f"),
        _ => false,
    }
}

/// Reference layout, written from the format description.
fn reference_encoding(pairs: &[(u32, Option<Vec<u8>>)]) -> Option<Vec<u8>> {
    let mut out = Vec::new();
    out.extend_from_slice(&(pairs.len() as u32).to_le_bytes());
    let mut acc = 0u64;
    for (i, (_, v)) in pairs.iter().enumerate() {
        let v = v.as_ref()?;
        acc += v.len() as u64;
        if i + 1 < pairs.len() {
            out.extend_from_slice(&(acc as u32).to_le_bytes());
        }
    }
    for (t, _) in pairs {
        out.extend_from_slice(&t.to_le_bytes());
    }
    for (_, v) in pairs {
        out.extend_from_slice(v.as_ref()?);
    }
    Some(out)
}

/// Stable order by tag, by definition (not by calling a sort): for each tag in ascending order, the
/// pairs carrying it in their original order.
fn stable_by_tag<T: Clone>(items: &[(u32, T)]) -> Vec<(u32, T)> {
    let mut tags: Vec<u32> = items.iter().map(|x| x.0).collect();
    tags.sort();
    tags.dedup();
    let mut out = Vec::new();
    for t in tags {
        for it in items.iter().filter(|x| x.0 == t) {
            out.push(it.clone());
        }
    }
    out
}

/// A pass-through `ZeroCopySink` that records every call made on it (method, length) and the bytes
/// it was handed, then forwards the call unchanged to the real sink.
struct RecSink<'a, S: ZeroCopySink<'a>> {
    inner: S,
    calls: Vec<(char, usize)>,
    handed: Vec<u8>,
    /// every `append_borrow` argument as (address, length): zero-copy means the caller's own buffer
    borrowed: Vec<(usize, usize)>,
    _life: std::marker::PhantomData<&'a [u8]>,
}

impl<'a, S: ZeroCopySink<'a>> RecSink<'a, S> {
    fn new(inner: S) -> Self {
        RecSink { inner, calls: Vec::new(), handed: Vec::new(), borrowed: Vec::new(), _life: Default::default() }
    }
    fn calls_str(&self) -> String {
        if self.calls.is_empty() {
            "-".to_string()
        } else {
            self.calls.iter().map(|(k, n)| format!("{}{}", k, n)).collect::<Vec<_>>().join(",")
        }
    }
}

impl<'a, S: ZeroCopySink<'a>> ZeroCopySink<'a> for RecSink<'a, S> {
    fn append_copy(&mut self, bytes: &[u8]) {
        self.calls.push(('c', bytes.len()));
        self.handed.extend_from_slice(bytes);
        self.inner.append_copy(bytes)
    }
    fn append_borrow(&mut self, bytes: &'a [u8]) {
        self.calls.push(('b', bytes.len()));
        self.handed.extend_from_slice(bytes);
        self.borrowed.push((bytes.as_ptr() as usize, bytes.len()));
        self.inner.append_borrow(bytes)
    }
}

pub struct TlvFamily;

struct TlvExec {
    slots: Vec<Option<Rc<Slot>>>,
    // Declared after `slots`: dropped after every wrapper that borrows from it.
    bufs: Vec<Box<[u8]>>,
}

impl TlvExec {
    fn stash(&mut self, b: &[u8]) -> &'static [u8] {
        let bx: Box<[u8]> = b.to_vec().into_boxed_slice();
        let p: *const [u8] = &*bx;
        self.bufs.push(bx);
        // The box lives (unmoved on the heap) until the executor is dropped, after all slots.
        unsafe { &*p }
    }

    fn parse_item(&self, vt: &str, s: &str) -> Option<Item> {
        let parts: Vec<&str> = s.split(':').collect();
        let [tag, k, payload] = parts[..] else { return None };
        if !kind_allowed(vt, k) {
            return None;
        }
        let tag = tag.parse::<u32>().ok()?;
        match k {
            "b" | "o" => {
                let bs = from_hex(payload)?;
                if vt == "str" && bs.iter().any(|b| *b >= 128) {
                    return None;
                }
                Some(Item { tag, kind: k.chars().next().unwrap(), len: bs.len() as u128, bytes: Some(bs), slot: None })
            }
            "m" => {
                let i = payload.parse::<usize>().ok()?;
                let slot = self.slots.get(i)?.clone()?;
                Some(Item { tag, kind: 'm', len: slot.msg.tlv_len() as u128, bytes: slot.reference.clone(), slot: Some(slot) })
            }
            "v" => {
                // the view of the slot's encoding, as a value; only for encodable slots
                let i = payload.parse::<usize>().ok()?;
                let slot = self.slots.get(i)?.clone()?;
                let r = slot.reference.clone()?;
                Some(Item { tag, kind: 'v', len: r.len() as u128, bytes: Some(r), slot: Some(slot) })
            }
            _ => {
                let n = payload.parse::<usize>().ok()?;
                Some(Item { tag, kind: 'f', len: n as u128, bytes: None, slot: None })
            }
        }
    }

    fn do_msg(&mut self, ctor: &str, vt: &str, items: &str) -> StepOut {
        let mut parsed: Vec<Item> = Vec::new();
        if items != "-" {
            for it in items.split(',') {
                match self.parse_item(vt, it) {
                    Some(x) => parsed.push(x),
                    None => return StepOut::bad(),
                }
            }
        }
        if !matches!(ctor, "new" | "sorted" | "slice") {
            return StepOut::bad();
        }
        // ---- what the property says must happen (u128 arithmetic, independent of compute_len)
        let n = parsed.len() as u128;
        let total: u128 = 4 + 4 * n.saturating_sub(1) + 4 * n + parsed.iter().map(|x| x.len).sum::<u128>();
        let too_big = n > I32MAX || parsed.iter().any(|x| x.len > I32MAX) || total > I32MAX;
        let decreasing = parsed.windows(2).any(|w| w[0].tag > w[1].tag);
        let must_reject = too_big || (ctor == "sorted" && decreasing);
        let shadow: Vec<(u32, Option<Vec<u8>>)> = parsed.iter().map(|x| (x.tag, x.bytes.clone())).collect();
        let pairs = if ctor == "sorted" { shadow } else { stable_by_tag(&shadow) };

        // ---- the real constructor
        let built: Result<AnyMsg, EncodingError> = match vt {
            "cow" => {
                let mut v: Vec<(Tag, Cow<'static, [u8]>)> = Vec::new();
                for x in &parsed {
                    let b = x.bytes.as_ref().unwrap();
                    v.push((x.tag.into(), if x.kind == 'b' { Cow::Borrowed(self.stash(b)) } else { Cow::Owned(b.clone()) }));
                }
                build(ctor, v).unwrap().map(AnyMsg::Cow)
            }
            "str" => {
                let mut v: Vec<(Tag, Cow<'static, str>)> = Vec::new();
                for x in &parsed {
                    let b = x.bytes.as_ref().unwrap();
                    let s: &'static str = std::str::from_utf8(self.stash(b)).unwrap();
                    v.push((x.tag.into(), if x.kind == 'b' { Cow::Borrowed(s) } else { Cow::Owned(s.to_string()) }));
                }
                build(ctor, v).unwrap().map(AnyMsg::Str)
            }
            "ref" => {
                let mut v: Vec<(Tag, &'static [u8])> = Vec::new();
                for x in &parsed {
                    v.push((Tag::new(&x.tag.to_le_bytes()), self.stash(x.bytes.as_ref().unwrap())));
                }
                build(ctor, v).unwrap().map(AnyMsg::Ref)
            }
            _ => {
                let mut v: Vec<(Tag, HVal)> = Vec::new();
                for x in &parsed {
                    let val = match x.kind {
                        'b' => HVal::B(Cow::Borrowed(self.stash(x.bytes.as_ref().unwrap()))),
                        'o' => HVal::B(Cow::Owned(x.bytes.clone().unwrap())),
                        'm' => HVal::M(x.slot.clone().unwrap()),
                        'v' => {
                            // what a peer would do: receive the bytes (here: through the real encoder) and wrap them
                            let mut iov: OwningIovec<'static> = OwningIovec::new();
                            x.slot.as_ref().unwrap().msg.write(&mut iov);
                            let wire = iov.flatten().unwrap_or_else(|e| e);
                            match MessageView::new(Cow::Owned(wire)) {
                                Ok(v) => HVal::W(v),
                                Err(_) => {
                                    let mut so = StepOut::obs("view-rejects-encoder-output");
                                    so.violations.push("C11 MessageView rejects the encoder's output".into());
                                    return so;
                                }
                            }
                        }
                        _ => HVal::F(x.len as usize),
                    };
                    v.push((Tag::new_from_u32(x.tag), val));
                }
                build(ctor, v).unwrap().map(AnyMsg::H)
            }
        };
        let mut so = StepOut::default();
        let bad = |so: &mut StepOut, s: String| so.violations.push(format!("C11 {}", s));
        match built {
            Ok(msg) => {
                if must_reject {
                    bad(&mut so, format!("{} accepted a list the property says must be rejected (n={} total={})", ctor, n, total));
                }
                let len = msg.tlv_len();
                if !must_reject && len as u128 != total {
                    bad(&mut so, format!("rough_tlv_len()={} but the layout needs {} bytes", len, total));
                }
                so.obs.push(format!("ok {}", len));
                so.tags.push(format!("msg_ok_{}_{}", ctor, vt));
                so.tags.push(format!("msg_ok_n{}", parsed.len().min(6)));
                let reference = reference_encoding(&pairs);
                self.slots.push(Some(Rc::new(Slot { msg, pairs, reference })));
            }
            Err(e) => {
                if !must_reject {
                    bad(&mut so, format!("{} rejected an encodable list: {}", ctor, enc_err_str(&e)));
                }
                so.obs.push(format!("err {}", enc_err_str(&e)));
                so.tags.push(format!("msg_err_{}", enc_err_str(&e).split(' ').next().unwrap()));
                self.slots.push(None);
            }
        }
        so
    }

    fn do_enc(&mut self, slot: &str, sink: &str) -> StepOut {
        let Ok(i) = slot.parse::<usize>() else { return StepOut::bad() };
        let Some(Some(s)) = self.slots.get(i).cloned() else { return StepOut::bad() };
        let Some(reference) = s.reference.clone() else { return StepOut::bad() };
        let mut so = StepOut::default();
        let bad = |so: &mut StepOut, s: String| so.violations.push(format!("C11 {}", s));
        let mut wire_line: Option<String> = None;
        let (out, calls, handed, borrowed): (Vec<u8>, String, Vec<u8>, Vec<(usize, usize)>) = match sink {
            "iov" => {
                let mut rec: RecSink<'static, OwningIovec<'static>> = RecSink::new(OwningIovec::new());
                s.msg.write(&mut rec);
                let calls = rec.calls_str();
                let RecSink { inner: iov, handed, borrowed, .. } = rec;
                match iov.flatten() {
                    Ok(v) => (v, calls, handed, borrowed),
                    Err(_) => {
                        bad(&mut so, "the iovec has pending backreferences after to_rough_tlv".into());
                        return so;
                    }
                }
            }
            "hcobs" => {
                let mut rec: RecSink<'static, hcobs::Encoder<'static>> = RecSink::new(hcobs::Encoder::new());
                s.msg.write(&mut rec);
                let calls = rec.calls_str();
                let RecSink { inner: enc, handed, borrowed, .. } = rec;
                let wire = match enc.finish().flatten() {
                    Ok(v) => v,
                    Err(_) => {
                        bad(&mut so, "the HCOBS encoder's iovec has pending backreferences after finish".into());
                        return so;
                    }
                };
                wire_line = Some(format!("wire {}", to_hex(&wire)));
                // sink agnostic, on the real code: the wire bytes are the one-call encoding of the layout
                let mut one: hcobs::Encoder<'_> = hcobs::Encoder::new();
                one.encode_copy(&reference);
                if one.finish().flatten().ok().as_deref() != Some(&wire[..]) {
                    bad(&mut so, "the HCOBS sink's output differs from the HCOBS encoding of the layout in one call".into());
                }
                if wire.windows(2).any(|w| w == [0xFE, 0xFD]) {
                    bad(&mut so, "the HCOBS sink's output contains the stuff sequence".into());
                }
                let mut dec = hcobs::Decoder::new();
                match dec.decode_copy(&wire).and_then(|_| dec.finish()) {
                    Ok(iov) => (iov.flatten().unwrap_or_else(|e| e), calls, handed, borrowed),
                    Err(_) => {
                        bad(&mut so, "the real HCOBS decoder rejects what the encoder sink produced".into());
                        return so;
                    }
                }
            }
            _ => return StepOut::bad(),
        };
        so.tags.push(format!("enc_{}", sink));
        so.tags.push(format!("enc_borrows_{}", borrowed.len().min(3)));
        // ---- at the sink interface (any ZeroCopySink): what `encode` hands over, call by call, IS the layout
        if handed != reference {
            bad(&mut so, format!("the bytes handed to the sink differ from the Roughtime layout: got {} want {}", to_hex(&handed), to_hex(&reference)));
        }
        if handed.len() != s.msg.tlv_len() {
            bad(&mut so, format!("{} bytes were handed to the sink but rough_tlv_len() = {}", handed.len(), s.msg.tlv_len()));
        }
        // a borrowed value is handed over in place: the slice lies inside one of the buffers the harness lent
        for (addr, len) in &borrowed {
            let inside = *len == 0
                || self.bufs.iter().any(|b| {
                    let lo = b.as_ptr() as usize;
                    lo <= *addr && addr + len <= lo + b.len()
                });
            if !inside {
                bad(&mut so, format!("append_borrow was handed {} bytes that are not inside a caller-owned buffer", len));
            }
        }
        // ---- layout and length
        if out != reference {
            bad(&mut so, format!("emitted bytes differ from the Roughtime layout: got {} want {}", to_hex(&out), to_hex(&reference)));
        }
        if out.len() != s.msg.tlv_len() {
            bad(&mut so, format!("emitted {} bytes but rough_tlv_len() = {}", out.len(), s.msg.tlv_len()));
        }
        // ---- round trip through the real view
        let lookups: Vec<u32> = {
            let mut l: Vec<u32> = Vec::new();
            if let Ok(m) = MessageView::new(Cow::Borrowed(&out[..])) {
                for t in m.tags() {
                    for x in [t.value(), t.value().wrapping_add(1)] {
                        if !l.contains(&x) {
                            l.push(x);
                        }
                    }
                }
            }
            l
        };
        let (o, v, panicked) = view_obs(&out, &lookups, &mut so.tags);
        if panicked {
            so.obs = vec!["panic".into()];
            so.violations.push("C11 MessageView panicked on encoder output".into());
            so.violations.extend(v);
            return so;
        }
        so.obs.push(format!("calls {}", calls));
        so.obs.extend(wire_line);
        so.obs.push(format!("bytes {}", to_hex(&out)));
        so.obs.extend(o);
        so.violations.extend(v.into_iter().map(|x| x.replacen("C12", "C11 view:", 1)));
        let want: Vec<(u32, Vec<u8>)> = s.pairs.iter().map(|(t, b)| (*t, b.clone().unwrap())).collect();
        match MessageView::new(Cow::Borrowed(&out[..])) {
            Err(e) => bad(&mut so, format!("MessageView rejects the encoder's output: {}", dec_err_str(&e))),
            Ok(m) => {
                let it: Vec<(u32, Vec<u8>)> = m.iter().map(|(t, v)| (t.value(), v.to_vec())).collect();
                if it != want {
                    bad(&mut so, "iter() does not return the pairs in stable tag order".into());
                }
                if m.len() != want.len() {
                    bad(&mut so, "len() differs from the pair count".into());
                }
                if m.tags().iter().map(|t| t.value()).collect::<Vec<_>>() != want.iter().map(|x| x.0).collect::<Vec<_>>() {
                    bad(&mut so, "tags() differs from the sorted tags".into());
                }
                for (i, (t, v)) in want.iter().enumerate() {
                    if m.get(i).map(|(a, b)| (a.value(), b.to_vec())) != Some((*t, v.clone())) {
                        bad(&mut so, format!("get({}) does not return pair {}", i, i));
                    }
                    if m.get_value(i).map(|b| b.to_vec()) != Some(v.clone()) {
                        bad(&mut so, format!("get_value({}) does not return value {}", i, i));
                    }
                    let cands: Vec<&Vec<u8>> = want.iter().filter(|x| x.0 == *t).map(|x| &x.1).collect();
                    match m.find(*t) {
                        None => bad(&mut so, format!("find({}) is None for a present tag", t)),
                        Some(f) => {
                            if !cands.iter().any(|c| c.as_slice() == f) {
                                bad(&mut so, format!("find({}) returns a value not stored under that tag", t));
                            }
                        }
                    }
                }
                if m.get(want.len()).is_some() {
                    bad(&mut so, "get(N) returns something".into());
                }
            }
        }
        so
    }
}

/// The items of `msgrun <ctor> <vt> <L> <defect>`: `L` pairs with empty borrowed values and the
/// strictly ascending tags `10 + 2j`, except for ONE defect:
///   `-` none | `d<i>` the tags of pairs i and i+1 swapped (the only descent is at i) |
///   `e<i>` pair i+1 carries the tag of pair i (equal tags: still sorted) |
///   `f<i>:<len>` pair i is a value that reports `len` bytes and is never encoded (value type `h`) |
///   `t<j>` the LAST pair carries the tag of pair j; pair j has the value `62`, the late pair `61` (ASCII, valid for every value type)
/// (the Lean driver builds the same list: `Driver/RoughTlv.lean`, `runItems`).
pub fn msgrun_items(l: usize, defect: &str) -> Option<String> {
    let mut tags: Vec<u32> = (0..l).map(|j| 10 + 2 * j as u32).collect();
    let mut fake: Option<(usize, u128)> = None;
    let mut late: Option<usize> = None;
    if defect != "-" {
        let (kind, rest) = defect.split_at(1);
        match kind {
            "d" | "e" => {
                let i: usize = rest.parse().ok()?;
                if i + 1 >= l {
                    return None;
                }
                if kind == "d" {
                    tags.swap(i, i + 1);
                } else {
                    tags[i + 1] = tags[i];
                }
            }
            "t" => {
                // a LATE pair: the last pair carries the tag of pair j (distinct one-byte values, so
                // that the order of the tie is observable): stable sorting must put it after pair j
                let j: usize = rest.parse().ok()?;
                if l < 2 || j + 1 >= l {
                    return None;
                }
                tags[l - 1] = tags[j];
                late = Some(j);
            }
            "f" => {
                let (i, len) = rest.split_once(':')?;
                let i: usize = i.parse().ok()?;
                let len: u128 = len.parse().ok()?;
                if i >= l || len > u64::MAX as u128 {
                    return None;
                }
                fake = Some((i, len));
            }
            _ => return None,
        }
    }
    if l == 0 {
        return Some("-".to_string());
    }
    let mut out = String::with_capacity(12 * l);
    for (j, t) in tags.iter().enumerate() {
        if j > 0 {
            out.push(',');
        }
        match fake {
            Some((i, len)) if i == j => out.push_str(&format!("{}:f:{}", t, len)),
            _ if late == Some(j) => out.push_str(&format!("{}:b:62", t)),
            _ if late.is_some() && j + 1 == l => out.push_str(&format!("{}:b:61", t)),
            _ => out.push_str(&format!("{}:b:-", t)),
        }
    }
    Some(out)
}

impl Exec for TlvExec {
    fn step(&mut self, w: &[&str]) -> StepOut {
        match w {
            ["msgrun", ctor, vt, l, defect] => {
                let Ok(l) = l.parse::<usize>() else { return StepOut::bad() };
                if l > 100_000 || (defect.starts_with('f') && *vt != "h") {
                    return StepOut::bad();
                }
                let Some(items) = msgrun_items(l, defect) else { return StepOut::bad() };
                let mut so = self.do_msg(ctor, vt, &items);
                so.tags.push(format!("msgrun_{}_{}", ctor, &defect[..1]));
                so
            }
            ["msg", ctor, vt, items] => self.do_msg(ctor, vt, items),
            ["enc", slot, sink] => self.do_enc(slot, sink),
            _ => StepOut::bad(),
        }
    }
}

/// Pair counts of the single-defect sweeps: everything small, then the neighbourhoods of the powers
/// of two (block sizes of any blocked / unrolled / vectorised "is it sorted" scan).
fn sweep_lengths(thorough: bool) -> Vec<usize> {
    let mut v: Vec<usize> = (2..=40).collect();
    v.extend(63..=67);
    v.extend(127..=131);
    v.extend(255..=258);
    v.extend(1023..=1026);
    if thorough {
        v.extend(41..=62);
        v.extend(68..=126);
        v.extend(191..=194);
        v.extend(511..=514);
        v.extend(2047..=2050);
        v.extend(4095..=4098);
    }
    v
}

/// SINGLE-DEFECT SWEEP (track gen3): for every pair count `L` of `sweep_lengths` and EVERY position
/// `i`, `new_from_sorted` on a list that is sorted except for one descent at `i` (must be rejected,
/// with that witness); plus, per `L`: the sorted list, equal neighbours at a few positions, the
/// sorting constructors on a few one-descent lists, and (value type `h`) one value of 2^31 bytes /
/// of 2^31 - 1 bytes at every position (a few positions for `L` > 131).  Values are empty, so a case
/// costs `O(L)` per op on both sides.
fn single_defect_sweep(thorough: bool) -> Vec<Vec<String>> {
    let mut cases = Vec::new();
    let vts = ["cow", "h", "ref", "str"];
    let mut rot = 0usize;
    for l in sweep_lengths(thorough) {
        let mut ops: Vec<String> = Vec::new();
        let cut = |ops: &mut Vec<String>, cases: &mut Vec<Vec<String>>, force: bool| {
            if (ops.len() >= 160 || force) && !ops.is_empty() {
                cases.push(std::mem::take(ops));
            }
        };
        ops.push(format!("msgrun sorted {} {} -", vts[l % 4], l));
        if l <= 40 {
            // small enough to encode and view as well
            ops.push("enc 0 iov".into());
        }
        for i in 0..l - 1 {
            rot += 1;
            ops.push(format!("msgrun sorted {} {} d{}", vts[rot % 4], l, i));
            cut(&mut ops, &mut cases, false);
        }
        cut(&mut ops, &mut cases, true);
        let some_pos: Vec<usize> = {
            let mut p = vec![0usize, 1, l / 2, l - 2];
            p.extend((1..=l / 64).flat_map(|k| [64 * k - 1, 64 * k]));
            p.retain(|i| i + 1 < l);
            p.sort_unstable();
            p.dedup();
            p
        };
        for &i in &some_pos {
            rot += 1;
            ops.push(format!("msgrun sorted {} {} e{}", vts[rot % 4], l, i));
            if l <= 258 {
                ops.push(format!("msgrun {} {} {} d{}", if rot % 2 == 0 { "new" } else { "slice" }, vts[rot % 4], l, i));
            }
        }
        cut(&mut ops, &mut cases, true);
        // a late pair tying with pair j (distinct values): ties must stay in insertion order through
        // the sorting constructors, whatever shortcut they take for "almost sorted" lists
        if l <= 258 {
            for &j in &some_pos {
                rot += 1;
                ops.push(format!("msgrun {} {} {} t{}", if rot % 2 == 0 { "new" } else { "slice" }, vts[rot % 4], l, j));
                if l <= 40 {
                    ops.push("enc 0 iov".into());
                }
            }
            cut(&mut ops, &mut cases, true);
        }
        let fake_pos: Vec<usize> = if l <= 131 { (0..l).collect() } else { vec![0, 1, 63, 64, 65, l / 2, l - 2, l - 1] };
        for &i in &fake_pos {
            rot += 1;
            let ctor = ["sorted", "new", "slice"][rot % 3];
            ops.push(format!("msgrun {} h {} f{}:2147483648", ctor, l, i));
            if rot % 4 == 0 {
                ops.push(format!("msgrun {} h {} f{}:2147483647", ctor, l, i));
            }
            cut(&mut ops, &mut cases, false);
        }
        cut(&mut ops, &mut cases, true);
    }
    cases
}

/// A random point of the same space: any `L` up to 1100 (thorough: 5000), any position.
fn single_defect_random(rng: &mut Rng, thorough: bool) -> Vec<String> {
    let mut ops = Vec::new();
    let top = if thorough { 5000 } else { 1100 };
    for _ in 0..rng.range(1, 6) {
        let l = match rng.below(4) {
            0 => rng.range(2, 70),
            1 => (1u64 << rng.range(1, if thorough { 12 } else { 10 })) + rng.below(4),
            _ => rng.range(2, top),
        } as usize;
        let l = l.max(2);
        let i = match rng.below(3) {
            0 => rng.below(l as u64 - 1) as usize,
            1 => (l - 2).saturating_sub(rng.below(4) as usize),
            _ => ((rng.below(l as u64) as usize) & !63usize).saturating_sub(rng.below(2) as usize).min(l - 2),
        };
        let vt = *rng.pick(&["cow", "h", "ref", "str"]);
        match rng.below(8) {
            0 => ops.push(format!("msgrun sorted {} {} -", vt, l)),
            1 => ops.push(format!("msgrun sorted {} {} e{}", vt, l, i)),
            2 if l <= 300 => ops.push(format!("msgrun {} {} {} d{}", rng.pick(&["new", "slice"]), vt, l, i)),
            3 => ops.push(format!("msgrun {} h {} f{}:{}", rng.pick(&["new", "sorted", "slice"]), l, i, 2147483647u64 + rng.below(2))),
            _ => ops.push(format!("msgrun sorted {} {} d{}", vt, l, i)),
        }
    }
    ops
}

/// What the generator remembers about the slots it has produced.
#[derive(Clone)]
struct GenSlot {
    valid: bool,
    len: u128,
    fake: bool,
    depth: u32,
}

fn gen_value(rng: &mut Rng, ascii: bool) -> Vec<u8> {
    let len = match rng.below(16) {
        0..=4 => 0,
        5..=11 => rng.range(1, 5),
        12 => rng.range(6, 40),
        13 => rng.range(250, 256),
        14 => rng.range(60, 70),
        _ => rng.range(1, 3),
    } as usize;
    let stuffy = rng.chance(1, 4);
    (0..len)
        .map(|_| {
            if ascii {
                0x20 + (rng.below(0x5f) as u8)
            } else if stuffy {
                *rng.pick(&[0xFEu8, 0xFD, 0x00, 0xFE])
            } else {
                rng.next() as u8
            }
        })
        .collect()
}

fn gen_tag(rng: &mut Rng, small: bool) -> u32 {
    if small {
        rng.below(4) as u32
    } else {
        match rng.below(6) {
            0 => 0,
            1 => u32::MAX,
            2 => 0x8000_0000 - rng.below(2) as u32,
            3 => rng.next() as u32,
            4 => 0x0100 << (8 * rng.below(3)), // byte-order sensitive
            _ => rng.below(300) as u32,
        }
    }
}

impl TlvFamily {
    fn push_msg(ops: &mut Vec<String>, slots: &mut Vec<GenSlot>, ctor: &str, vt: &str, items: &[(u32, String, u128, bool, u32)]) {
        // items: (tag, "kind:payload", len, fake, depth)
        let n = items.len() as u128;
        let total: u128 = 4 + 4 * n.saturating_sub(1) + 4 * n + items.iter().map(|x| x.2).sum::<u128>();
        let too_big = n > I32MAX || items.iter().any(|x| x.2 > I32MAX) || total > I32MAX;
        let decreasing = items.windows(2).any(|w| w[0].0 > w[1].0);
        let valid = !(too_big || (ctor == "sorted" && decreasing));
        let s = if items.is_empty() {
            "-".to_string()
        } else {
            items.iter().map(|x| format!("{}:{}", x.0, x.1)).collect::<Vec<_>>().join(",")
        };
        ops.push(format!("msg {} {} {}", ctor, vt, s));
        slots.push(GenSlot {
            valid,
            len: total,
            fake: items.iter().any(|x| x.3),
            depth: items.iter().map(|x| x.4 + 1).max().unwrap_or(0),
        });
    }
}

impl Family for TlvFamily {
    fn name(&self) -> &'static str {
        "tlv"
    }
    fn new_exec(&self) -> Box<dyn Exec> {
        Box::new(TlvExec { slots: Vec::new(), bufs: Vec::new() })
    }

    /// Every list of <= 3 (thorough: 4) pairs with tags in {1,2,3} and value lengths in {0,1,2}
    /// (value i is filled with byte 0x10+i, so equal tags remain distinguishable), through all
    /// three constructors and both sinks.
    fn enumerated(&self, thorough: bool) -> Vec<Vec<String>> {
        let maxk = if thorough { 4 } else { 3 };
        let mut cases = Vec::new();
        let mut shapes: Vec<Vec<(u32, usize)>> = vec![vec![]];
        let mut frontier: Vec<Vec<(u32, usize)>> = vec![vec![]];
        for _ in 0..maxk {
            let mut next = Vec::new();
            for s in &frontier {
                for t in 1..=3u32 {
                    for l in 0..3usize {
                        let mut x = s.clone();
                        x.push((t, l));
                        next.push(x);
                    }
                }
            }
            shapes.extend(next.iter().cloned());
            frontier = next;
        }
        for (ci, sh) in shapes.iter().enumerate() {
            let items: Vec<String> = sh
                .iter()
                .enumerate()
                .map(|(i, (t, l))| format!("{}:{}:{}", t, if (i + ci) % 2 == 0 { "b" } else { "o" }, to_hex(&vec![0x10 + i as u8; *l])))
                .collect();
            let s = if items.is_empty() { "-".to_string() } else { items.join(",") };
            let vt = ["cow", "h", "str"][ci % 3];
            let mut ops = Vec::new();
            for (k, ctor) in ["new", "sorted", "slice"].iter().enumerate() {
                ops.push(format!("msg {} {} {}", ctor, vt, s));
                // an invalid slot answers bad-op on both sides
                ops.push(format!("enc {} iov", k));
                ops.push(format!("enc {} hcobs", k));
            }
            cases.push(ops);
        }
        cases.extend(single_defect_sweep(thorough));
        cases
    }

    fn gen_case(&self, rng: &mut Rng, _idx: u64, thorough: bool) -> Vec<String> {
        if rng.chance(1, 25) {
            return single_defect_random(rng, thorough);
        }
        let mut ops = Vec::new();
        let mut slots: Vec<GenSlot> = Vec::new();
        let nmsgs = rng.range(1, if thorough { 8 } else { 5 });
        let limits = rng.chance(1, 4); // this case is about the 2^31 decision logic
        let mut big = !limits && rng.chance(1, 40); // one value long enough for offsets beyond 16 bits
        for _ in 0..nmsgs {
            let ctor = *rng.pick(&["new", "new", "sorted", "slice"]);
            let vt = if limits { "h" } else { *rng.pick(&["cow", "ref", "str", "h", "h", "h"]) };
            let small_tags = rng.chance(2, 3);
            let n = match rng.below(12) {
                0 => 0,
                1 => 1,
                2 | 3 => 2,
                10 => rng.range(13, 40),
                _ => rng.range(2, 8),
            } as usize;
            let mut items: Vec<(u32, String, u128, bool, u32)> = Vec::new();
            for _ in 0..n {
                let tag = gen_tag(rng, small_tags);
                let usable: Vec<usize> = (0..slots.len()).filter(|i| slots[*i].valid && slots[*i].depth < 3).collect();
                if vt == "h" && !usable.is_empty() && rng.chance(1, 4) {
                    let i = *rng.pick(&usable);
                    let k = if !slots[i].fake && rng.chance(1, 4) { "v" } else { "m" };
                    items.push((tag, format!("{}:{}", k, i), slots[i].len, slots[i].fake, slots[i].depth));
                } else if limits && rng.chance(1, 2) {
                    let len: u128 = match rng.below(8) {
                        0 => I32MAX,
                        1 => I32MAX + 1,
                        2 => I32MAX - rng.below(64) as u128,
                        3 => (1u128 << 30) + rng.below(3) as u128 - 1,
                        4 => u64::MAX as u128 - rng.below(2) as u128,
                        5 => (1u128 << 32) + rng.below(2) as u128,
                        6 => (1u128 << 63) - 1 + rng.below(3) as u128,
                        _ => rng.below(1 << 31) as u128,
                    };
                    items.push((tag, format!("f:{}", len), len, true, 0));
                } else {
                    let kind = if vt == "ref" { "b" } else { *rng.pick(&["b", "o"]) };
                    let mut v = gen_value(rng, vt == "str");
                    if big {
                        big = false;
                        let fill = if vt == "str" { 0x41 } else { 0xFE };
                        v.resize(rng.range(65530, 65545) as usize, fill);
                    }
                    items.push((tag, format!("{}:{}", kind, to_hex(&v)), v.len() as u128, false, 0));
                }
            }
            if limits && n >= 1 && rng.chance(2, 3) {
                // steer the total to the boundary: replace the last item by a fake that lands the total on i32::MAX + {-1,0,1,2}
                let n128 = n as u128;
                let others: u128 = 4 + 4 * (n128 - 1) + 4 * n128 + items[..n - 1].iter().map(|x| x.2).sum::<u128>();
                if others < I32MAX {
                    let target = I32MAX + rng.below(4) as u128 - 1;
                    let len = target - others;
                    let tag = items[n - 1].0;
                    items[n - 1] = (tag, format!("f:{}", len), len, true, 0);
                }
            }
            if rng.chance(1, 2) {
                match rng.below(3) {
                    0 => items.sort_by_key(|x| x.0),
                    1 => {
                        items.sort_by_key(|x| x.0);
                        // one adjacent inversion
                        if n >= 2 {
                            let i = rng.below(n as u64 - 1) as usize;
                            items.swap(i, i + 1);
                        }
                    }
                    _ => items.reverse(),
                }
            }
            TlvFamily::push_msg(&mut ops, &mut slots, ctor, vt, &items);
            let i = slots.len() - 1;
            if slots[i].valid && !slots[i].fake {
                let which = rng.below(4);
                if which != 1 {
                    ops.push(format!("enc {} iov", i));
                }
                if which != 0 {
                    ops.push(format!("enc {} hcobs", i));
                }
            }
        }
        ops
    }
}

//! Families `scale_tlv` (C11) and `scale_tlvview` (C12): LARGE-COUNT profiles over the `tlv` /
//! `tlvview` executors (model drivers `wpmodel scale_tlv` / `scale_tlvview` = the `tlv` / `tlvview`
//! drivers behind `Driver/Scale.lean`): messages of 255 / 256 / 257 pairs replayed by the model, 1023 ...
//! 4097 and 65535 ... 65537 pairs harness-only (the list models are cubic in the pair count: 256 pairs take
//! seconds, 1025 pairs five minutes; `msgrun` / `viewrun` of 400 pairs or more are `quiet` by rule), in ascending / descending / all-equal
//! tag order, values of 0 / 1 / 3 / 70 / 300 bytes (copied, opportunistically copied, borrowed by the
//! sink), through all three constructors and value types, encoded into an iovec and into the HCOBS
//! sink (> 1024 slices, > 64 KiB of headers); views over wires of that many pairs with lookups at
//! both ends, in the middle and beyond.
use crate::fam_tlv::{TlvFamily, TlvViewFamily};
use crate::scale_common::*;
use crate::util::*;

pub struct ScaleTlvFamily;
pub struct ScaleTlvViewFamily;

fn msg_case(ctor: &str, vt: &str, k: usize, tag0: usize, step: &str, kind: &str, len: usize, sinks: &[&str]) -> Vec<String> {
    let mut ops: Vec<String> = vec!["terse".into()];
    ops.push(format!("msgrun {} {} {} {} {} {} {}", ctor, vt, k, tag0, step, kind, len));
    for s in sinks {
        ops.push(format!("enc 0 {}", s));
    }
    ops
}

fn view_case(k: usize, tag0: usize, step: &str, len: usize) -> Vec<String> {
    let st: usize = step.trim_end_matches('r').parse().unwrap_or(1);
    let last = tag0 + (k.max(1) - 1) * st;
    let lookups = [tag0, tag0 + st, tag0 + (k / 2) * st, tag0 + (k / 2) * st + 1, last, last + 1, 0, 4294967295];
    let mut lk: Vec<usize> = lookups.iter().copied().filter(|x| *x < 4294967296).collect();
    lk.dedup();
    vec!["terse".into(), format!("viewrun {} {} {} {} {}", k, tag0, step, len, nat_list(&lk))]
}

const COUNTS_Q: [usize; 5] = [255, 256, 257, 1025, 4097];
const COUNTS_T: [usize; 10] = [255, 256, 257, 1023, 1024, 1025, 2048, 4095, 4096, 4097];
const COUNTS_H: [usize; 3] = [65535, 65536, 65537];

impl Family for ScaleTlvFamily {
    fn name(&self) -> &'static str {
        "scale_tlv"
    }
    fn new_exec(&self) -> Box<dyn Exec> {
        Box::new(ScaleExec::new(Kind::Reader, TlvFamily.new_exec()))
    }
    fn enumerated(&self, thorough: bool) -> Vec<Vec<String>> {
        let mut cases = Vec::new();
        let counts: &[usize] = if thorough { &COUNTS_T } else { &COUNTS_Q };
        let shapes: [(&str, &str, &str, &str, usize); 8] = [
            ("new", "cow", "1", "b", 3),
            ("new", "h", "1r", "o", 1),
            ("sorted", "ref", "2", "b", 70),
            ("slice", "str", "1r", "b", 0),
            ("new", "ref", "0", "b", 300),
            ("sorted", "h", "0", "b", 2),
            ("slice", "cow", "3", "o", 65),
            ("new", "str", "1", "o", 257),
        ];
        for (i, k) in counts.iter().enumerate() {
            for (j, (ctor, vt, step, kind, len)) in shapes.iter().enumerate() {
                if !thorough && (i + j) % 4 != 0 {
                    continue;
                }
                let sinks: &[&str] = if (i + j) % 2 == 0 { &["iov", "hcobs"] } else { &["hcobs", "iov"] };
                cases.push(msg_case(ctor, vt, *k, 7, step, kind, *len, sinks));
            }
        }
        if thorough {
            for (i, k) in COUNTS_H.iter().enumerate() {
                let (ctor, vt, step, kind, len) = shapes[i % shapes.len()];
                cases.push(msg_case(ctor, vt, *k, 1, step, kind, len, &["iov", "hcobs"]));
                cases.push(msg_case("new", "ref", *k, 1, "1r", "b", 66, &["iov"]));
            }
        }
        cases
    }
    fn gen_case(&self, rng: &mut Rng, _idx: u64, thorough: bool) -> Vec<String> {
        let k = near_of(rng, if thorough { &COUNTS_T } else { &COUNTS_Q }, 1);
        let ctor = *rng.pick(&["new", "new", "sorted", "slice"]);
        let vt = *rng.pick(&["cow", "ref", "str", "h"]);
        let step = if ctor == "sorted" { *rng.pick(&["0", "1", "2", "65536"]) } else { *rng.pick(&["0", "1", "1r", "2r", "65536", "3"]) };
        let kind = if vt == "ref" { "b" } else { *rng.pick(&["b", "o"]) };
        let len = *rng.pick(&[0usize, 1, 2, 3, 64, 65, 70, 256, 257, 300]);
        let sinks: &[&str] = if rng.chance(1, 2) { &["iov", "hcobs"] } else { &["hcobs"] };
        msg_case(ctor, vt, k, rng.range(0, 9) as usize, step, kind, len, sinks)
    }
}

impl Family for ScaleTlvViewFamily {
    fn name(&self) -> &'static str {
        "scale_tlvview"
    }
    fn new_exec(&self) -> Box<dyn Exec> {
        Box::new(ScaleExec::new(Kind::Reader, TlvViewFamily.new_exec()))
    }
    fn enumerated(&self, thorough: bool) -> Vec<Vec<String>> {
        let mut cases = Vec::new();
        let counts: &[usize] = if thorough { &COUNTS_T } else { &COUNTS_Q };
        for (i, k) in counts.iter().enumerate() {
            cases.push(view_case(*k, 5, "1", [0usize, 1, 3, 70][i % 4]));
            if thorough || i % 2 == 0 {
                cases.push(view_case(*k, 0, "0", 2)); // all tags equal
                cases.push(view_case(*k, 9, "2r", 1)); // descending tags: must be rejected
            }
        }
        if thorough {
            for k in COUNTS_H {
                cases.push(view_case(k, 3, "1", 1));
                cases.push(view_case(k, 3, "65536", 0));
            }
        }
        cases
    }
    fn gen_case(&self, rng: &mut Rng, _idx: u64, thorough: bool) -> Vec<String> {
        let k = near_of(rng, if thorough { &COUNTS_T } else { &COUNTS_Q }, 1);
        let step = *rng.pick(&["0", "1", "1", "2", "65536", "1r"]);
        view_case(k, rng.range(0, 9) as usize, step, *rng.pick(&[0usize, 1, 3, 70, 300]))
    }
}

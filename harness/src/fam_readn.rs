//! Family `readn`: `ByteArena::read_n` under scripted reader behaviour (C17).
use crate::util::*;
use owning_iovec::ByteArena;
use std::io::{ErrorKind, Read};
use std::num::NonZeroUsize;

pub const KINDS: [ErrorKind; 6] = [
    ErrorKind::Interrupted, // 0: the only retried kind
    ErrorKind::Other,
    ErrorKind::WouldBlock,
    ErrorKind::BrokenPipe,
    ErrorKind::TimedOut,
    ErrorKind::UnexpectedEof,
];

pub fn kind_index(k: ErrorKind) -> usize {
    KINDS.iter().position(|x| *x == k).unwrap_or(99)
}

#[derive(Clone, Debug)]
pub enum Ev {
    Deliver(usize),
    Eof,
    Err(usize),
}

pub fn parse_script(s: &str) -> Option<Vec<Ev>> {
    if s == "-" {
        return Some(vec![]);
    }
    s.split(',')
        .map(|t| {
            if t == "e" {
                Some(Ev::Eof)
            } else if let Some(n) = t.strip_prefix('d') {
                n.parse().ok().map(Ev::Deliver)
            } else if let Some(n) = t.strip_prefix('x') {
                n.parse().ok().map(Ev::Err)
            } else {
                None
            }
        })
        .collect()
}

pub fn fmt_script(evs: &[Ev]) -> String {
    if evs.is_empty() {
        return "-".into();
    }
    evs.iter()
        .map(|e| match e {
            Ev::Deliver(k) => format!("d{}", k),
            Ev::Eof => "e".into(),
            Ev::Err(k) => format!("x{}", k),
        })
        .collect::<Vec<_>>()
        .join(",")
}

/// What the reader was asked and what it answered, for the direct oracle.
#[derive(Clone, Debug)]
pub enum Call {
    Delivered(usize, Vec<u8>), // (buffer length offered, bytes handed over)
    Failed(usize, usize),      // (buffer length offered, kind index)
}

/// A `Read` that follows a script over a fixed source; an exhausted script
/// reports end of file forever.
pub struct ScriptedReader {
    pub src: Vec<u8>,
    pub pos: usize,
    pub script: Vec<Ev>,
    pub next: usize,
    pub calls: Vec<Call>,
}

impl ScriptedReader {
    pub fn new(src: Vec<u8>, script: Vec<Ev>) -> Self {
        ScriptedReader { src, pos: 0, script, next: 0, calls: vec![] }
    }
}

impl Read for ScriptedReader {
    fn read(&mut self, buf: &mut [u8]) -> std::io::Result<usize> {
        let ev = if self.next < self.script.len() {
            let e = self.script[self.next].clone();
            self.next += 1;
            e
        } else {
            Ev::Eof
        };
        match ev {
            Ev::Deliver(k) => {
                let n = k.min(buf.len()).min(self.src.len() - self.pos);
                buf[..n].copy_from_slice(&self.src[self.pos..self.pos + n]);
                self.calls.push(Call::Delivered(buf.len(), self.src[self.pos..self.pos + n].to_vec()));
                self.pos += n;
                Ok(n)
            }
            Ev::Eof => {
                self.calls.push(Call::Delivered(buf.len(), vec![]));
                Ok(0)
            }
            Ev::Err(k) => {
                self.calls.push(Call::Failed(buf.len(), k));
                // every error instance is distinguishable: "fails with the LAST error" is about the
                // error object, not only about its kind
                Err(std::io::Error::new(KINDS[k.min(KINDS.len() - 1)], format!("scripted#{}", self.calls.len())))
            }
        }
    }
}

/// The property C17 itself, checked on the real result and the real calls
/// (independent of the Lean model).
pub fn oracle_c17(
    count: usize,
    attempts: usize,
    calls: &[Call],
    result: &Result<Vec<u8>, usize>,
) -> Vec<String> {
    let mut v = Vec::new();
    let mut bad = |s: String| v.push(format!("C17 {}", s));
    if count == 0 {
        if !calls.is_empty() {
            bad("count=0 but the reader was called".into());
        }
        if result != &Ok(vec![]) {
            bad("count=0 but the result is not an empty slice".into());
        }
        return v;
    }
    if calls.len() > attempts {
        bad(format!("{} calls > max_attempts {}", calls.len(), attempts));
    }
    let mut delivered: Vec<u8> = Vec::new();
    let mut last_err: Option<usize> = None;
    let mut stopped = false;
    let mut eof_first = false;
    for c in calls {
        if stopped {
            bad("reader called again after EOF / hard error / completion".into());
        }
        match c {
            Call::Delivered(asked, bytes) => {
                if *asked != count - delivered.len() {
                    bad(format!("asked for {} bytes with {} of {} delivered", asked, delivered.len(), count));
                }
                if bytes.is_empty() {
                    stopped = true;
                    if delivered.is_empty() {
                        eof_first = true;
                    }
                    last_err = None;
                } else {
                    delivered.extend_from_slice(bytes);
                    if delivered.len() >= count {
                        stopped = true;
                    }
                }
            }
            Call::Failed(asked, kind) => {
                if *asked != count - delivered.len() {
                    bad(format!("asked for {} bytes with {} of {} delivered", asked, delivered.len(), count));
                }
                last_err = Some(*kind);
                if *kind != 0 {
                    stopped = true;
                }
            }
        }
    }
    if delivered.len() > count {
        bad("more than count bytes requested in total".into());
    }
    // must not stop early: if it stopped calling without a reason and attempts remain
    if !stopped && calls.len() < attempts {
        bad(format!("gave up after {} of {} attempts without EOF/error/completion", calls.len(), attempts));
    }
    match result {
        Ok(bytes) => {
            if bytes != &delivered {
                bad("returned bytes differ from the bytes delivered".into());
            }
            if delivered.is_empty() && !eof_first {
                bad("succeeded with nothing delivered and no EOF".into());
            }
        }
        Err(kind) => {
            if !delivered.is_empty() {
                bad("failed although bytes were delivered".into());
            }
            if eof_first {
                bad("failed although EOF came first".into());
            }
            if Some(*kind) != last_err {
                bad(format!("error kind {} is not the last error {:?}", kind, last_err));
            }
        }
    }
    v
}

pub struct ReadNFamily;

struct ReadNExec {
    arena: ByteArena,
}

impl ReadNExec {
    fn fresh() -> ReadNExec {
        ReadNExec { arena: ByteArena::new() }
    }
}

/// `read_n` / `ensure_capacity` / `flush_cache` never panic (scripted readers only return errors),
/// so every op may run while the thread is unwinding (track traits, `unwind.rs`).
impl crate::unwind::Probe for ReadNExec {
    fn unwind_safe(&self, _w: &[&str]) -> bool {
        true
    }
}

impl Exec for ReadNExec {
    fn step(&mut self, w: &[&str]) -> StepOut {
        match w {
            ["reserve", n] => {
                let Ok(n) = n.parse::<usize>() else { return StepOut::bad() };
                self.arena.ensure_capacity(n);
                StepOut::obs(format!("rem={}", self.arena.remaining()))
            }
            ["flush"] => {
                self.arena.flush_cache();
                StepOut::obs(format!("rem={}", self.arena.remaining()))
            }
            ["readn", count, attempts, src, script] => {
                let (Ok(count), Ok(attempts), Some(src), Some(script)) =
                    (count.parse::<usize>(), attempts.parse::<usize>(), from_hex(src), parse_script(script))
                else {
                    return StepOut::bad();
                };
                let Some(att) = NonZeroUsize::new(attempts) else { return StepOut::bad() };
                let mut reader = ScriptedReader::new(src, script);
                let res = self.arena.read_n(&mut reader, count, att);
                let result: Result<Vec<u8>, usize> = match &res {
                    Ok(s) => Ok(s.slice().to_vec()),
                    Err(e) => Err(kind_index(e.kind())),
                };
                let mut instance_viol: Option<String> = None;
                if let Err(e) = &res {
                    let last_failed = reader.calls.iter().rposition(|c| matches!(c, Call::Failed(..))).map(|i| i + 1);
                    let want = last_failed.map(|i| format!("scripted#{}", i));
                    let got = e.get_ref().map(|inner| inner.to_string());
                    if got != want {
                        instance_viol = Some(format!(
                            "C17 the error returned is {:?}, not the last error the reader reported ({:?})",
                            got, want
                        ));
                    }
                }
                let reqs: Vec<usize> = reader
                    .calls
                    .iter()
                    .map(|c| match c {
                        Call::Delivered(a, _) => *a,
                        Call::Failed(a, _) => *a,
                    })
                    .collect();
                let head = match &result {
                    Ok(b) => format!("ok {}", to_hex(b)),
                    Err(k) => format!("err {}", k),
                };
                let mut so = StepOut::obs(format!(
                    "{} reqs={} left={} srcleft={} rem={}",
                    head,
                    nat_list(&reqs),
                    reader.script.len() - reader.next.min(reader.script.len()),
                    reader.src.len() - reader.pos,
                    self.arena.remaining()
                ));
                so.violations = oracle_c17(count, attempts, &reader.calls, &result);
                so.violations.extend(instance_viol);
                so.tags.push(match &result {
                    Ok(b) if b.is_empty() => "res_ok_empty".into(),
                    Ok(b) if b.len() == count => "res_ok_full".into(),
                    Ok(_) => "res_ok_short".into(),
                    Err(0) => "res_err_interrupted".into(),
                    Err(_) => "res_err_hard".into(),
                });
                so
            }
            _ => StepOut::bad(),
        }
    }
}

fn gen_script(rng: &mut Rng, len: usize, count: usize) -> Vec<Ev> {
    (0..len)
        .map(|_| match rng.below(10) {
            0..=3 => Ev::Deliver(rng.range(1, (count.max(1) as u64) + 2) as usize),
            4 => Ev::Deliver(1),
            5 | 6 => Ev::Err(0),
            7 => Ev::Eof,
            8 => Ev::Err(rng.range(1, 5) as usize),
            _ => Ev::Deliver(count.max(1)),
        })
        .collect()
}

impl Family for ReadNFamily {
    fn name(&self) -> &'static str {
        "readn"
    }

    fn new_exec(&self) -> Box<dyn Exec> {
        crate::unwind::UnwindExec::boxed(ReadNExec::fresh)
    }

    /// All scripts over {d1, d2, d9, x0, e, x1} up to length 4 (5 thorough)
    /// x counts {0,1,2,5} x attempts {1,2,3,6}, on an empty arena.
    fn enumerated(&self, thorough: bool) -> Vec<Vec<String>> {
        let alphabet = ["d1", "d2", "d9", "x0", "e", "x1"];
        let maxlen = if thorough { 5 } else { 4 };
        let mut scripts: Vec<Vec<&str>> = vec![vec![]];
        let mut frontier: Vec<Vec<&str>> = vec![vec![]];
        for _ in 0..maxlen {
            let mut next = Vec::new();
            for s in &frontier {
                for a in alphabet {
                    let mut t = s.clone();
                    t.push(a);
                    next.push(t);
                }
            }
            scripts.extend(next.iter().cloned());
            frontier = next;
        }
        let src = "000102030405060708090a0b0c0d0e0f";
        let mut cases = Vec::new();
        // Group several readn ops into one case to keep the transcript small.
        for s in scripts {
            let sc = if s.is_empty() { "-".to_string() } else { s.join(",") };
            let mut ops = Vec::new();
            for count in [0usize, 1, 2, 5] {
                for attempts in [1usize, 2, 3, 6, 1 << 32, (1 << 32) + 1, usize::MAX] {
                    ops.push(format!("readn {} {} {} {}", count, attempts, src, sc));
                }
            }
            cases.push(ops);
        }
        cases
    }

    fn gen_case(&self, rng: &mut Rng, _idx: u64, thorough: bool) -> Vec<String> {
        let mut ops = Vec::new();
        let nops = rng.range(1, if thorough { 12 } else { 6 });
        for _ in 0..nops {
            match rng.below(10) {
                0 => ops.push("flush".to_string()),
                1 | 2 => {
                    // shape the arena: nearly full chunk, exact fit, larger than chunk
                    let n = *rng.pick(&[0u64, 1, 100, 4095, 4096, 4097, 70000, 1 << 20, (1 << 20) + 1]);
                    ops.push(format!("reserve {}", n));
                }
                _ => {
                    let count = match rng.below(8) {
                        0 => 0,
                        1 => 1,
                        2 => rng.range(4090, 4100),
                        3 => rng.range(1, 70000),
                        _ => rng.range(1, 40),
                    } as usize;
                    // incl. limits that do not fit 32 bits (a script ends in EOF, so the loop stops long before)
                    let attempts = *rng.pick(&[1u64, 1, 2, 3, 5, 8, 1000, 1 << 32, (1 << 32) + 1, 3 << 32, u64::MAX]) as usize;
                    let slen = rng.range(0, 9) as usize;
                    let script = gen_script(rng, slen, count.min(64));
                    let srclen = match rng.below(4) {
                        0 => rng.range(0, 8),
                        _ => (count as u64 + rng.range(0, 16)).min(5000),
                    } as usize;
                    let src: Vec<u8> = (0..srclen).map(|_| rng.next() as u8).collect();
                    ops.push(format!(
                        "readn {} {} {} {}",
                        count,
                        attempts,
                        to_hex(&src),
                        fmt_script(&script)
                    ));
                }
            }
        }
        // track traits: calls made while the thread is unwinding; a history owned by a scope that panics
        if rng.chance(1, 4) {
            ops = crate::unwind::sprinkle(rng, ops, 1, 2, |_| true);
        }
        if rng.chance(1, 12) {
            let keep = ops.len().min(4);
            let inner: Vec<String> = ops[..keep].iter().map(|o| o.trim_start_matches("unwinding ").to_string()).collect();
            ops.push(format!("scoped_panic {}", inner.join(" ; ")));
        }
        ops
    }
}

//! Shared helpers: PRNG, hex, transcript plumbing.
use std::fmt::Write as _;

/// SplitMix64: every random choice of a run derives from one of these.
#[derive(Clone)]
pub struct Rng(pub u64);

impl Rng {
    pub fn new(seed: u64) -> Self {
        Rng(seed ^ 0x9E37_79B9_7F4A_7C15)
    }
    pub fn next(&mut self) -> u64 {
        self.0 = self.0.wrapping_add(0x9E37_79B9_7F4A_7C15);
        let mut z = self.0;
        z = (z ^ (z >> 30)).wrapping_mul(0xBF58_476D_1CE4_E5B9);
        z = (z ^ (z >> 27)).wrapping_mul(0x94D0_49BB_1331_11EB);
        z ^ (z >> 31)
    }
    /// uniform in 0..n (n > 0)
    pub fn below(&mut self, n: u64) -> u64 {
        self.next() % n
    }
    pub fn range(&mut self, lo: u64, hi_incl: u64) -> u64 {
        lo + self.below(hi_incl - lo + 1)
    }
    pub fn chance(&mut self, num: u64, den: u64) -> bool {
        self.below(den) < num
    }
    pub fn pick<'a, T>(&mut self, xs: &'a [T]) -> &'a T {
        &xs[self.below(xs.len() as u64) as usize]
    }
    /// derive an independent stream for case `idx`
    pub fn fork(&self, idx: u64) -> Rng {
        let mut r = Rng(self.0 ^ idx.wrapping_mul(0xD6E8_FEB8_6659_FD93));
        r.next();
        r
    }
}

pub fn to_hex(bytes: &[u8]) -> String {
    if bytes.is_empty() {
        return "-".to_string();
    }
    let mut s = String::with_capacity(bytes.len() * 2);
    for b in bytes {
        let _ = write!(s, "{:02x}", b);
    }
    s
}

/// Hex, `-` (empty), the compact run notation `~TTxN` = the N bytes `TT, TT+1, ...` (wrapping), the
/// constant run `*TTxN` = N copies of `TT`, or several such parts joined by `+` (`fe+*41x65535+fd`),
/// which keeps the op lines of very large payloads short (the Lean driver parses the same forms).
pub fn from_hex(s: &str) -> Option<Vec<u8>> {
    if !s.contains('+') {
        return from_hex_part(s);
    }
    let mut out = Vec::new();
    for part in s.split('+') {
        out.extend_from_slice(&from_hex_part(part)?);
    }
    Some(out)
}

fn from_hex_part(s: &str) -> Option<Vec<u8>> {
    if s == "-" {
        return Some(Vec::new());
    }
    if let Some(rest) = s.strip_prefix('~') {
        let (t, n) = rest.split_once('x')?;
        let tag = u8::from_str_radix(t, 16).ok()?;
        let n: usize = n.parse().ok()?;
        return Some((0..n).map(|k| tag.wrapping_add(k as u8)).collect());
    }
    if let Some(rest) = s.strip_prefix('*') {
        let (t, n) = rest.split_once('x')?;
        if t.len() != 2 {
            return None;
        }
        let tag = u8::from_str_radix(t, 16).ok()?;
        let n: usize = n.parse().ok()?;
        return Some(vec![tag; n]);
    }
    if s.len() % 2 != 0 {
        return None;
    }
    let b = s.as_bytes();
    let mut out = Vec::with_capacity(b.len() / 2);
    for i in (0..b.len()).step_by(2) {
        let hi = (b[i] as char).to_digit(16)?;
        let lo = (b[i + 1] as char).to_digit(16)?;
        out.push((hi * 16 + lo) as u8);
    }
    Some(out)
}

/// The compact spelling of `run_bytes(tag, n)` accepted by `from_hex`.
pub fn run_token(tag: u8, n: usize) -> String {
    if n == 0 { "-".to_string() } else { format!("~{:02x}x{}", tag, n) }
}

/// The compact spelling of `n` copies of `byte` accepted by `from_hex`.
pub fn const_token(byte: u8, n: usize) -> String {
    if n == 0 { "-".to_string() } else { format!("*{:02x}x{}", byte, n) }
}

/// Compact spelling of `bytes` for an op line: runs of >= 24 equal bytes become `*TTxN` parts, the
/// rest plain hex, joined by `+` (`from_hex` of the result gives `bytes` back).
pub fn to_hex_compact(bytes: &[u8]) -> String {
    if bytes.len() < 48 {
        return to_hex(bytes);
    }
    let mut parts: Vec<String> = Vec::new();
    let mut lit_start = 0usize;
    let mut i = 0usize;
    while i < bytes.len() {
        let mut j = i + 1;
        while j < bytes.len() && bytes[j] == bytes[i] {
            j += 1;
        }
        if j - i >= 24 {
            if lit_start < i {
                parts.push(to_hex(&bytes[lit_start..i]));
            }
            parts.push(const_token(bytes[i], j - i));
            lit_start = j;
        }
        i = j;
    }
    if lit_start < bytes.len() {
        parts.push(to_hex(&bytes[lit_start..]));
    }
    parts.join("+")
}

pub fn nat_list(xs: &[usize]) -> String {
    if xs.is_empty() {
        "-".to_string()
    } else {
        xs.iter().map(|x| x.to_string()).collect::<Vec<_>>().join(",")
    }
}

/// What executing one `I` line produced.
#[derive(Default)]
pub struct StepOut {
    /// observation lines (printed as `O ...`, compared with the model)
    pub obs: Vec<String>,
    /// direct-oracle violations of a property (printed as `V <prop> ...`)
    pub violations: Vec<String>,
    /// generator/branch statistics, `key` -> +1 (printed at the end as `# stat`)
    pub tags: Vec<String>,
}

impl StepOut {
    pub fn obs(s: impl Into<String>) -> Self {
        StepOut { obs: vec![s.into()], ..Default::default() }
    }
    pub fn bad() -> Self {
        StepOut::obs("bad-op")
    }
}

/// A family = a generator of cases (lists of op lines) and an executor that
/// runs op lines against the real crates.
pub trait Family {
    fn name(&self) -> &'static str;
    /// Generates case number `idx` (deterministic in `rng`).
    fn gen_case(&self, rng: &mut Rng, idx: u64, thorough: bool) -> Vec<String>;
    /// Fresh executor for one case.
    fn new_exec(&self) -> Box<dyn Exec>;
    /// Optional: enumerated (exhaustive) cases that run before the random ones.
    fn enumerated(&self, _thorough: bool) -> Vec<Vec<String>> {
        Vec::new()
    }
}

pub trait Exec {
    fn step(&mut self, words: &[&str]) -> StepOut;
    /// Called once at the end of a case (after the last op).
    fn finish(&mut self) -> StepOut {
        StepOut::default()
    }
    /// The op `words` panicked.  If no panic is specified for it, name the
    /// property that forbids it (`"Cxx unexpected panic ..."`).
    fn panic_violation(&self, _words: &[&str]) -> Option<String> {
        None
    }
    /// Should the transcript be flushed to the OS before `words` is executed?  (Ops that may
    /// never return end the process from a watchdog thread; what was buffered would be lost.)
    fn flush_before(&self, _words: &[&str]) -> bool {
        false
    }
    /// Concrete access for wrapping executors (track `scale`): an executor that lets a wrapper
    /// look at its real objects returns `Some(self)`.
    fn as_any_mut(&mut self) -> Option<&mut dyn std::any::Any> {
        None
    }
}

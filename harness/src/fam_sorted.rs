//! Family `sorted`: `sliding_deque::SortedDeque` (C16).
//!
//! Two conventions, chosen by the first op of a case (`conv pair` / `conv whole`):
//! * `pair`:  items are `(u32, Option<u32>)`, keyed by the first component (`None` = erased);
//! * `whole`: items are `WItem { key, value: Option<NonZeroU32> }` implementing
//!   `SortedDequeItem`, compared as a whole with the derived lexicographic `Ord` (the crate's
//!   own `TestItem`).  The generators keep keys distinct (`value = 10*key + 1`), which is the
//!   regime in which erasing an item cannot reorder it (DESIGN.md observation O2); if a case
//!   ever pushes one key with two different values the oracle goes silent (`outside_law`).
//!
//! Every op runs on a Vec-backed and on a SmallVec<[_; 4]>-backed deque and on a
//! `std::collections::BTreeMap` (the reference ordered map = the direct oracle).  After every
//! op the observation is: return value, `iter()`, `first()`, `last()`, `is_empty()` and `find`
//! of the probe keys 0..5 on the new state.  A push whose key is not strictly greater than the
//! current last item must panic: observed as `panic`, which is a violation only when the
//! reference says the push was legal (or legal but did not panic).
//!
//! Large deques (`conv pair digest` / `conv whole digest`, the "large" generator profile:
//! hundreds to thousands of keys, so that anything that only happens once a deque spans a
//! page or holds mostly tombstones is reached): the per-op observation is reduced to the
//! return value, `first()`, `last()`, `is_empty()`, and `iter` answers `#<count>:<FNV-1a 64 of
//! the item list as text>` instead of the list.  The oracle is the same `BTreeMap`.
//!
//! Op vocabulary (same as `lean/Woodpile/Driver/SortedDeque.lean`):
//!   conv pair|whole [digest] | push k v | find k v | remove k v | pop_first | pop_last | first | last
//!   | is_empty | iter | clear | new k:v,k:v,.. | at n <op>       (`v` = `-` for an erased item)
//!   | iterscript <script>     iterator-protocol script (`iterscript.rs`) on `iter()`; no state change
use crate::util::*;
use sliding_deque::traits::{PushTruncateContainer, SortedDequeComparator, SortedDequeItem, SortedDequeMarker};
use sliding_deque::SortedDeque;
use smallvec::SmallVec;
use std::collections::{BTreeMap, BTreeSet};
use std::num::NonZeroU32;
use std::panic::{catch_unwind, AssertUnwindSafe};

// standard-trait methods over several object instances (track traits): handle ops `d…`
mod traits;

type Raw = (u32, Option<u32>);

#[derive(Clone, Copy, Debug, PartialEq, Eq, PartialOrd, Ord)]
pub struct WItem {
    key: u32,
    value: Option<NonZeroU32>,
}

impl SortedDequeItem for WItem {
    fn mark_erased(&mut self) {
        self.value = None
    }
    fn is_erased(&self) -> bool {
        self.value.is_none()
    }
}

/// A convention: how raw `(key, value)` pairs of the op lines become items and lookup keys.
pub trait Convn: Clone + 'static {
    type Item: Copy + PartialEq + std::fmt::Debug;
    type Key: Ord + Clone;
    const NAME: &'static str;
    fn item(raw: Raw) -> Option<Self::Item>;
    fn raw(item: &Self::Item) -> Raw;
    fn lookup_key(raw: Raw) -> Option<Self::Key>;
    fn key(item: &Self::Item) -> Self::Key;
    fn probes() -> Vec<Self::Key>;
}

#[derive(Clone)]
pub struct PairConv;
impl Convn for PairConv {
    type Item = (u32, Option<u32>);
    type Key = u32;
    const NAME: &'static str = "pair";
    fn item(raw: Raw) -> Option<Self::Item> {
        Some(raw)
    }
    fn raw(item: &Self::Item) -> Raw {
        *item
    }
    fn lookup_key(raw: Raw) -> Option<u32> {
        Some(raw.0)
    }
    fn key(item: &Self::Item) -> u32 {
        item.0
    }
    fn probes() -> Vec<u32> {
        (0..=5).collect()
    }
}

#[derive(Clone)]
pub struct WholeConv;
impl Convn for WholeConv {
    type Item = WItem;
    type Key = WItem;
    const NAME: &'static str = "whole";
    fn item(raw: Raw) -> Option<WItem> {
        let value = match raw.1 {
            None => None,
            Some(v) => Some(NonZeroU32::new(v)?),
        };
        Some(WItem { key: raw.0, value })
    }
    fn raw(item: &WItem) -> Raw {
        (item.key, item.value.map(|v| v.get()))
    }
    fn lookup_key(raw: Raw) -> Option<WItem> {
        Self::item(raw)
    }
    fn key(item: &WItem) -> WItem {
        *item
    }
    fn probes() -> Vec<WItem> {
        let mut v: Vec<WItem> = (0..=5).map(|k| Self::item((k, Some(10 * k + 1))).unwrap()).collect();
        v.extend((0..=5).map(|k| Self::item((k, None)).unwrap()));
        v
    }
}

#[derive(Clone, Debug)]
enum SOp {
    Push(Raw),
    Find(Raw),
    Remove(Raw),
    PopFirst,
    PopLast,
    First,
    Last,
    IsEmpty,
    Iter,
    Clear,
    New(Vec<Raw>),
}

fn parse_val(s: &str) -> Option<Option<u32>> {
    if s == "-" {
        Some(None)
    } else {
        s.parse().ok().map(Some)
    }
}

fn parse_raw(s: &str) -> Option<Raw> {
    let (k, v) = s.split_once(':')?;
    Some((k.parse().ok()?, parse_val(v)?))
}

fn parse_op(w: &[&str]) -> Option<SOp> {
    Some(match w {
        ["push", k, v] => SOp::Push((k.parse().ok()?, parse_val(v)?)),
        ["find", k, v] => SOp::Find((k.parse().ok()?, parse_val(v)?)),
        ["remove", k, v] => SOp::Remove((k.parse().ok()?, parse_val(v)?)),
        ["pop_first"] => SOp::PopFirst,
        ["pop_last"] => SOp::PopLast,
        ["first"] => SOp::First,
        ["last"] => SOp::Last,
        ["is_empty"] => SOp::IsEmpty,
        ["iter"] => SOp::Iter,
        ["clear"] => SOp::Clear,
        ["new", l] => SOp::New(if *l == "-" {
            vec![]
        } else {
            l.split(',').map(parse_raw).collect::<Option<Vec<_>>>()?
        }),
        _ => return None,
    })
}

fn fmt_raw(r: Raw) -> String {
    match r.1 {
        Some(v) => format!("{}:{}", r.0, v),
        None => format!("{}:-", r.0),
    }
}

fn fmt_opt(r: Option<Raw>) -> String {
    match r {
        Some(r) => fmt_raw(r),
        None => "none".into(),
    }
}

fn fmt_list(l: &[Raw]) -> String {
    if l.is_empty() {
        "-".into()
    } else {
        l.iter().map(|r| fmt_raw(*r)).collect::<Vec<_>>().join(",")
    }
}

fn fmt_line(ret: &str, iter: &[Raw], first: Option<Raw>, last: Option<Raw>, empty: bool, probes: &[Option<Raw>]) -> String {
    format!(
        "{} iter={} first={} last={} empty={} probe={}",
        ret,
        fmt_list(iter),
        fmt_opt(first),
        fmt_opt(last),
        if empty { 1 } else { 0 },
        probes.iter().map(|p| fmt_opt(*p)).collect::<Vec<_>>().join(",")
    )
}

/// FNV-1a, 64 bit (the Lean driver computes the same)
pub fn fnv64(bytes: &[u8]) -> u64 {
    let mut h: u64 = 0xcbf29ce484222325;
    for b in bytes {
        h ^= *b as u64;
        h = h.wrapping_mul(0x100000001b3);
    }
    h
}

/// `#<count>:<hash of the list as text>`
fn fmt_list_digest(l: &[Raw]) -> String {
    format!("#{}:{:016x}", l.len(), fnv64(fmt_list(l).as_bytes()))
}

fn fmt_line_digest(ret: &str, first: Option<Raw>, last: Option<Raw>, empty: bool) -> String {
    format!("{} first={} last={} empty={}", ret, fmt_opt(first), fmt_opt(last), if empty { 1 } else { 0 })
}

/// Are all raw items representable / all lookup keys well-formed in this convention?
fn op_ok<V: Convn>(op: &SOp) -> bool {
    match op {
        SOp::Push(r) => V::item(*r).is_some(),
        SOp::Find(r) | SOp::Remove(r) => V::lookup_key(*r).is_some(),
        SOp::New(l) => l.iter().all(|r| V::item(*r).is_some()),
        _ => true,
    }
}

/// One op on a real deque, then the observation of the new state.
fn apply_real<C, V>(d: &mut SortedDeque<C>, op: &SOp, digest: bool) -> String
where
    V: Convn,
    C: PushTruncateContainer<Item = V::Item> + Clone + Default + FromIterator<V::Item>,
    (): SortedDequeMarker<V::Item> + SortedDequeComparator<V::Item, Key = V::Key>,
{
    let ret = match op {
        SOp::Push(r) => {
            d.push_back_or_panic(V::item(*r).unwrap());
            "()".to_string()
        }
        SOp::Find(r) => fmt_opt(d.find(&V::lookup_key(*r).unwrap()).map(V::raw)),
        SOp::Remove(r) => fmt_opt(d.remove(&V::lookup_key(*r).unwrap()).map(|x| V::raw(&x))),
        SOp::PopFirst => fmt_opt(d.pop_first().map(|x| V::raw(&x))),
        SOp::PopLast => fmt_opt(d.pop_last().map(|x| V::raw(&x))),
        SOp::First => fmt_opt(d.first().map(V::raw)),
        SOp::Last => fmt_opt(d.last().map(V::raw)),
        SOp::IsEmpty => (if d.is_empty() { "1" } else { "0" }).to_string(),
        SOp::Iter if digest => fmt_list_digest(&d.iter().map(V::raw).collect::<Vec<_>>()),
        SOp::Iter => fmt_list(&d.iter().map(V::raw).collect::<Vec<_>>()),
        SOp::Clear => {
            d.clear();
            "()".to_string()
        }
        SOp::New(l) => {
            *d = SortedDeque::new(l.iter().map(|r| V::item(*r).unwrap()).collect::<C>(), ());
            "()".to_string()
        }
    };
    if digest {
        return fmt_line_digest(&ret, d.first().map(V::raw), d.last().map(V::raw), d.is_empty());
    }
    let iter: Vec<Raw> = d.iter().map(V::raw).collect();
    let first = d.first().map(V::raw);
    let last = d.last().map(V::raw);
    let empty = d.is_empty();
    let probes: Vec<Option<Raw>> = V::probes().iter().map(|k| d.find(k).map(V::raw)).collect();
    fmt_line(&ret, &iter, first, last, empty, &probes)
}

/// The same op on the reference ordered map; `None` = this push must panic.
fn apply_ref<V: Convn>(m: &mut BTreeMap<V::Key, V::Item>, op: &SOp, digest: bool) -> Option<String> {
    let ret = match op {
        SOp::Push(r) => {
            let item = V::item(*r).unwrap();
            if r.1.is_some() {
                if let Some((last, _)) = m.last_key_value() {
                    if *last >= V::key(&item) {
                        return None;
                    }
                }
                m.insert(V::key(&item), item);
            }
            "()".to_string()
        }
        SOp::Find(r) => fmt_opt(m.get(&V::lookup_key(*r).unwrap()).map(V::raw)),
        SOp::Remove(r) => fmt_opt(m.remove(&V::lookup_key(*r).unwrap()).map(|x| V::raw(&x))),
        SOp::PopFirst => fmt_opt(m.pop_first().map(|(_, x)| V::raw(&x))),
        SOp::PopLast => fmt_opt(m.pop_last().map(|(_, x)| V::raw(&x))),
        SOp::First => fmt_opt(m.first_key_value().map(|(_, x)| V::raw(x))),
        SOp::Last => fmt_opt(m.last_key_value().map(|(_, x)| V::raw(x))),
        SOp::IsEmpty => (if m.is_empty() { "1" } else { "0" }).to_string(),
        SOp::Iter if digest => fmt_list_digest(&m.values().map(V::raw).collect::<Vec<_>>()),
        SOp::Iter => fmt_list(&m.values().map(V::raw).collect::<Vec<_>>()),
        SOp::Clear => {
            m.clear();
            "()".to_string()
        }
        SOp::New(l) => {
            m.clear();
            for r in l {
                if r.1.is_some() {
                    let item = V::item(*r).unwrap();
                    m.insert(V::key(&item), item);
                }
            }
            "()".to_string()
        }
    };
    let first = m.first_key_value().map(|(_, x)| V::raw(x));
    let last = m.last_key_value().map(|(_, x)| V::raw(x));
    if digest {
        return Some(fmt_line_digest(&ret, first, last, m.is_empty()));
    }
    let iter: Vec<Raw> = m.values().map(V::raw).collect();
    let probes: Vec<Option<Raw>> = V::probes().iter().map(|k| m.get(k).map(V::raw)).collect();
    Some(fmt_line(&ret, &iter, first, last, m.is_empty(), &probes))
}

struct St<V: Convn>
where
    (): SortedDequeMarker<V::Item> + SortedDequeComparator<V::Item, Key = V::Key>,
    [V::Item; 4]: smallvec::Array<Item = V::Item>,
{
    v: SortedDeque<Vec<V::Item>>,
    s: SortedDeque<SmallVec<[V::Item; 4]>>,
    r: BTreeMap<V::Key, V::Item>,
    /// raw key -> the one value it has been pushed with (the "keys in play" of the whole-item law)
    seen: BTreeMap<u32, u32>,
    /// false once the case left the regime the property talks about
    lawful: bool,
    /// raw keys removed from the middle whose tombstones are still inside the deque (statistics only)
    tombs: BTreeSet<u32>,
}

impl<V: Convn> Clone for St<V>
where
    (): SortedDequeMarker<V::Item> + SortedDequeComparator<V::Item, Key = V::Key>,
    [V::Item; 4]: smallvec::Array<Item = V::Item>,
{
    fn clone(&self) -> Self {
        St { v: self.v.clone(), s: self.s.clone(), r: self.r.clone(), seen: self.seen.clone(), lawful: self.lawful, tombs: self.tombs.clone() }
    }
}

struct Runner<V: Convn>
where
    (): SortedDequeMarker<V::Item> + SortedDequeComparator<V::Item, Key = V::Key>,
    [V::Item; 4]: smallvec::Array<Item = V::Item>,
{
    cur: St<V>,
    snaps: Vec<St<V>>,
    dead: bool,
    /// reduced observations (large deques)
    digest: bool,
    /// further object instances `d0, d1, …` (handle ops, `fam_sorted/traits.rs`)
    objs: Vec<St<V>>,
}

impl<V: Convn> Runner<V>
where
    (): SortedDequeMarker<V::Item> + SortedDequeComparator<V::Item, Key = V::Key>,
    [V::Item; 4]: smallvec::Array<Item = V::Item>,
{
    fn fresh() -> St<V> {
        St { v: Default::default(), s: Default::default(), r: BTreeMap::new(), seen: BTreeMap::new(), lawful: true, tombs: BTreeSet::new() }
    }

    fn new(digest: bool) -> Self {
        Runner { cur: Self::fresh(), snaps: vec![Self::fresh()], dead: false, digest, objs: Vec::new() }
    }

    /// Bookkeeping for the preconditions of the property (not part of the observation).
    fn track(cur: &mut St<V>, op: &SOp) {
        let note = |cur: &mut St<V>, r: &Raw| {
            if let Some(v) = r.1 {
                if let Some(old) = cur.seen.insert(r.0, v) {
                    // whole-item ordering: one key with two values is outside the order-preservation law
                    if old != v && V::NAME == "whole" {
                        cur.lawful = false;
                    }
                }
            }
        };
        match op {
            SOp::Push(r) => note(cur, r),
            SOp::New(l) => {
                // `new` takes the container as is: the caller must hand over strictly
                // increasing keys with live items at both ends
                let sorted = l.windows(2).all(|w| w[0].0 < w[1].0);
                let ends = l.first().map_or(true, |r| r.1.is_some()) && l.last().map_or(true, |r| r.1.is_some());
                if !(sorted && ends) {
                    cur.lawful = false;
                }
                for r in l {
                    note(cur, r);
                }
            }
            _ => {}
        }
    }

    fn run_op(&mut self, op: &SOp, text: &str) -> StepOut {
        let mut so = StepOut::default();
        let digest = self.digest;
        let cur = &mut self.cur;
        Self::track(cur, op);
        // statistics: which structural situations does this op meet?
        let raw_keys = |m: &BTreeMap<V::Key, V::Item>| -> Vec<u32> { m.values().map(|x| V::raw(x).0).collect() };
        let before = raw_keys(&cur.r);
        if let SOp::Find(r) | SOp::Remove(r) = op {
            if cur.tombs.contains(&r.0) {
                so.tags.push("lookup_of_tombstoned_key".into());
            }
        }
        let expected = apply_ref::<V>(&mut cur.r, op, digest);
        let after = raw_keys(&cur.r);
        if let SOp::Remove(r) = op {
            if before.len() == after.len() + 1 && before.first() != Some(&r.0) && before.last() != Some(&r.0) {
                cur.tombs.insert(r.0);
                so.tags.push("remove_from_middle".into());
            }
        }
        if let SOp::New(l) = op {
            cur.tombs = l.iter().filter(|r| r.1.is_none()).map(|r| r.0).collect();
        }
        let ntombs = cur.tombs.len();
        match (after.first(), after.last()) {
            (Some(lo), Some(hi)) => cur.tombs.retain(|k| lo < k && k < hi),
            _ => cur.tombs.clear(),
        }
        if cur.tombs.len() < ntombs {
            so.tags.push(format!("{}_cleans_up_tombstones", text.split(' ').next().unwrap_or("?")));
        }
        let real = catch_unwind(AssertUnwindSafe(|| {
            let a = apply_real::<Vec<V::Item>, V>(&mut cur.v, op, digest);
            let b = apply_real::<SmallVec<[V::Item; 4]>, V>(&mut cur.s, op, digest);
            (a, b)
        }));
        let name = text.split(' ').next().unwrap_or("?");
        so.tags.push(format!("{}_op_{}", V::NAME, name));
        if !cur.lawful {
            so.tags.push("outside_law".into());
        }
        match (real, expected) {
            (Err(_), None) => {
                // the specified panic of a non-increasing push: a caller may catch it and keep using
                // the deque, which must then be exactly what it was (the reference did not move).
                // The first deque panicked before the second one was touched: run that one too.
                so.obs.push("panic".into());
                so.tags.push(format!("{}_push_panics_as_specified", V::NAME));
                let second = catch_unwind(AssertUnwindSafe(|| apply_real::<SmallVec<[V::Item; 4]>, V>(&mut cur.s, op, digest)));
                if second.is_ok() && cur.lawful {
                    so.violations.push(format!("C16 {}/smallvec: `{}` pushes a key that is not strictly greater than the last item but did not panic", V::NAME, text));
                }
                let look = SOp::IsEmpty;
                let after = catch_unwind(AssertUnwindSafe(|| {
                    let a = apply_real::<Vec<V::Item>, V>(&mut cur.v, &look, digest);
                    let b = apply_real::<SmallVec<[V::Item; 4]>, V>(&mut cur.s, &look, digest);
                    (a, b)
                }));
                match (after, apply_ref::<V>(&mut cur.r, &look, digest)) {
                    (Ok((a, b)), Some(e)) => {
                        if cur.lawful && a != e {
                            so.violations.push(format!("C16 {}/vec: after the caught panic of `{}` the deque is [{}] but the reference ordered map (unchanged) is [{}]", V::NAME, text, a, e));
                        }
                        if cur.lawful && b != e {
                            so.violations.push(format!("C16 {}/smallvec: after the caught panic of `{}` the deque is [{}] but the reference ordered map (unchanged) is [{}]", V::NAME, text, b, e));
                        }
                        so.obs.push(a);
                    }
                    _ => {
                        self.dead = true;
                        so.obs.push("panic".into());
                        if cur.lawful {
                            so.violations.push(format!("C16 {}: reading the deque after the caught panic of `{}` panics", V::NAME, text));
                        }
                    }
                }
            }
            (Err(_), Some(_)) => {
                self.dead = true;
                so.obs.push("panic".into());
                if cur.lawful {
                    so.violations.push(format!("C16 {}: panic in `{}` although the sequence is valid", V::NAME, text));
                }
            }
            (Ok((a, b)), exp) => {
                match exp {
                    None => {
                        if cur.lawful {
                            so.violations.push(format!(
                                "C16 {}: `{}` pushes a key that is not strictly greater than the last item but did not panic",
                                V::NAME, text
                            ));
                        }
                        // the reference did not apply the push; nothing sensible to compare afterwards
                        cur.lawful = false;
                    }
                    Some(e) => {
                        if cur.lawful && a != e {
                            so.violations.push(format!("C16 {}/vec: `{}` gave [{}] but the reference ordered map gives [{}]", V::NAME, text, a, e));
                        }
                        if cur.lawful && b != e {
                            so.violations.push(format!("C16 {}/smallvec: `{}` gave [{}] but the reference ordered map gives [{}]", V::NAME, text, b, e));
                        }
                    }
                }
                if a != b {
                    so.violations.push(format!("C16 {}: vec and smallvec deques disagree on `{}`: [{}] vs [{}]", V::NAME, text, a, b));
                    so.obs.push(format!("small {}", b));
                }
                if cur.r.len() > 4 {
                    so.tags.push("len_gt_inline".into());
                }
                if cur.r.len() >= 512 {
                    so.tags.push("live_ge_512".into());
                }
                if cur.tombs.len() >= 256 && cur.tombs.len() > cur.r.len() {
                    so.tags.push("mostly_tombstones_ge_256".into());
                }
                so.obs.push(a);
            }
        }
        so
    }

    /// `iterscript <script>`: an iterator-protocol script (`iterscript.rs`) on `SortedDeque::iter()` of
    /// both real deques (forward only), against a `Vec` of the reference map's items.  No state changes.
    fn run_iterscript(&mut self, script: &str) -> StepOut {
        use crate::iterscript as its;
        let Some(steps) = its::parse(script) else { return StepOut::bad() };
        let mut so = StepOut::default();
        let cur = &self.cur;
        let items: Vec<String> = cur.r.values().map(|x| fmt_raw(V::raw(x))).collect();
        let res = catch_unwind(AssertUnwindSafe(|| {
            let what_v = format!("{}/vec: SortedDeque::iter() against the reference ordered map", V::NAME);
            let what_s = format!("{}/smallvec: SortedDeque::iter() against the reference ordered map", V::NAME);
            let a = its::run_both("C16", &what_v, &steps, script, its::forward(cur.v.iter(), |x: &V::Item| fmt_raw(V::raw(x)), its::cap_for(items.len())), items.clone(), false);
            let b = its::run_both("C16", &what_s, &steps, script, its::forward(cur.s.iter(), |x: &V::Item| fmt_raw(V::raw(x)), its::cap_for(items.len())), items.clone(), false);
            (a, b)
        }));
        so.tags.push(format!("{}_op_iterscript", V::NAME));
        match res {
            Err(_) => {
                self.dead = true;
                so.obs.push("panic".into());
                if cur.lawful {
                    so.violations.push(format!("C16 {}: panic in `iterscript {}`", V::NAME, script));
                }
            }
            Ok(((oa, da), (ob, db))) => {
                if cur.lawful {
                    so.violations.extend(da);
                    so.violations.extend(db);
                }
                if oa != ob {
                    so.violations.push(format!("C16 {}: vec and smallvec deques disagree on `iterscript {}`: [{}] vs [{}]", V::NAME, script, oa, ob));
                    so.obs.push(format!("small {}", ob));
                }
                so.obs.push(oa);
            }
        }
        so
    }

    fn step(&mut self, w: &[&str]) -> StepOut {
        match w {
            ["iterscript", script] => {
                if self.dead {
                    return StepOut::obs("dead");
                }
                self.run_iterscript(script)
            }
            ["at", k, rest @ ..] => {
                let (Ok(k), Some(op)) = (k.parse::<usize>(), parse_op(rest)) else { return StepOut::bad() };
                if !op_ok::<V>(&op) {
                    return StepOut::bad();
                }
                if k >= self.snaps.len() {
                    return StepOut::obs("nosnap");
                }
                self.cur = self.snaps[k].clone();
                self.dead = false;
                let so = self.run_op(&op, &rest.join(" "));
                self.snaps.truncate(k + 1);
                if !self.dead {
                    self.snaps.push(self.cur.clone());
                }
                so
            }
            _ => {
                if self.dead {
                    return StepOut::obs("dead");
                }
                if let Some(so) = self.step_traits(w) {
                    return so;
                }
                match parse_op(w) {
                    Some(op) if op_ok::<V>(&op) => self.run_op(&op, &w.join(" ")),
                    _ => StepOut::bad(),
                }
            }
        }
    }
}

enum Mode {
    Pair(Runner<PairConv>),
    Whole(Runner<WholeConv>),
}

struct SortedExec {
    mode: Mode,
}

impl Exec for SortedExec {
    fn flush_before(&self, w: &[&str]) -> bool {
        matches!(w, ["iterscript", ..])
    }
    fn step(&mut self, w: &[&str]) -> StepOut {
        match w {
            ["conv", "pair"] => {
                self.mode = Mode::Pair(Runner::new(false));
                StepOut::obs("conv pair")
            }
            ["conv", "whole"] => {
                self.mode = Mode::Whole(Runner::new(false));
                StepOut::obs("conv whole")
            }
            ["conv", "pair", "digest"] => {
                self.mode = Mode::Pair(Runner::new(true));
                StepOut::obs("conv pair digest")
            }
            ["conv", "whole", "digest"] => {
                self.mode = Mode::Whole(Runner::new(true));
                StepOut::obs("conv whole digest")
            }
            _ => match &mut self.mode {
                Mode::Pair(r) => r.step(w),
                Mode::Whole(r) => r.step(w),
            },
        }
    }
}

impl SortedExec {
    fn fresh() -> SortedExec {
        SortedExec { mode: Mode::Pair(Runner::new(false)) }
    }
}

impl crate::unwind::Probe for SortedExec {
    fn unwind_safe(&self, w: &[&str]) -> bool {
        match &self.mode {
            Mode::Pair(r) => r.unwind_safe(w),
            Mode::Whole(r) => r.unwind_safe(w),
        }
    }
}

pub struct SortedFamily;

const NSYM: usize = 13;

fn val(k: u32) -> u32 {
    10 * k + 1
}

/// The enumeration alphabet: live pushes of keys 1..4, an erased push, removes of keys 1..4,
/// a remove through the tombstone key, pop_first, pop_last, clear.
fn symbol(i: usize) -> String {
    match i {
        0..=3 => format!("push {} {}", i + 1, val(i as u32 + 1)),
        4 => "push 2 -".into(),
        5..=8 => format!("remove {} {}", i - 4, val(i as u32 - 4)),
        9 => "remove 2 -".into(),
        10 => "pop_first".into(),
        11 => "pop_last".into(),
        _ => "clear".into(),
    }
}

/// Shadow of the live key set, so the tree walk does not descend below a push that panics.
/// Returns false when the symbol panics.
fn shadow(set: &mut BTreeSet<u32>, i: usize) -> bool {
    match i {
        0..=3 => {
            let k = i as u32 + 1;
            if set.last().map_or(false, |l| *l >= k) {
                return false;
            }
            set.insert(k);
        }
        4 | 9 => {}
        5..=8 => {
            set.remove(&(i as u32 - 4));
        }
        10 => {
            set.pop_first();
        }
        11 => {
            set.pop_last();
        }
        _ => set.clear(),
    }
    true
}

fn tree_case(conv: &str, first: usize, depth: usize) -> Vec<String> {
    let mut ops = vec![format!("conv {}", conv)];
    fn rec(ops: &mut Vec<String>, set: &BTreeSet<u32>, lvl: usize, depth: usize, only: Option<usize>) {
        if lvl >= depth {
            return;
        }
        for sym in 0..NSYM {
            if only.map_or(false, |o| o != sym) {
                continue;
            }
            ops.push(format!("at {} {}", lvl, symbol(sym)));
            let mut s2 = set.clone();
            if shadow(&mut s2, sym) {
                rec(ops, &s2, lvl + 1, depth, None);
            }
        }
    }
    rec(&mut ops, &BTreeSet::new(), 0, depth, Some(first));
    ops
}


/// The "large" profile: one deque instance goes through
///   small fill -> a few removals from the middle (tombstones) -> `clear` ->
///   refill with `n` keys -> removal of well over half of the inner keys in random order
///   (both ends stay live, so nothing is cleaned up) -> probes, pops, pushes,
/// with `first`/`last` observed after every op, `find` probes of the smallest / removed /
/// random keys along the way, and digests of the whole iteration now and then.
fn large_case(rng: &mut Rng, whole: bool, nmin: u64, nmax: u64) -> Vec<String> {
    let mut ops = vec![format!("conv {} digest", if whole { "whole" } else { "pair" })];
    let value = |rng: &mut Rng, k: u32| -> u32 { if whole { val(k) } else { rng.range(0, 99) as u32 } };
    let rm_val = |rng: &mut Rng, k: u32| -> u32 { if whole { val(k) } else { rng.range(0, 99) as u32 } };
    let mut next_key: u32 = rng.range(0, 20) as u32;
    let mut live: Vec<u32> = Vec::new(); // ascending
    let mut gone: Vec<u32> = Vec::new();
    // phase A: small deque with tombstones in the middle, then clear
    if !rng.chance(1, 8) {
        let n0 = rng.range(3, 40) as usize;
        for _ in 0..n0 {
            next_key += rng.range(1, 3) as u32;
            ops.push(format!("push {} {}", next_key, value(rng, next_key)));
            live.push(next_key);
        }
        let t0 = rng.range(1, (n0 as u64 - 2).min(6)) as usize;
        for _ in 0..t0 {
            if live.len() < 3 {
                break;
            }
            let i = rng.range(1, live.len() as u64 - 2) as usize;
            let k = live.remove(i);
            gone.push(k);
            ops.push(format!("remove {} {}", k, rm_val(rng, k)));
        }
        if rng.chance(1, 3) {
            ops.push("iter".into());
        }
        if !rng.chance(1, 8) {
            ops.push("clear".into());
            gone.extend(live.drain(..));
        }
    }
    // phase B: refill
    let n = rng.range(nmin, nmax) as usize;
    let step = *rng.pick(&[1u64, 1, 2, 3]);
    for _ in 0..n {
        next_key += rng.range(1, step) as u32;
        ops.push(format!("push {} {}", next_key, value(rng, next_key)));
        live.push(next_key);
    }
    ops.push("iter".into());
    // phase C: remove most of the inner keys, in random order
    let percent = *rng.pick(&[55u64, 65, 80, 95]);
    let mut inner: Vec<u32> = live[1..live.len() - 1].to_vec();
    for i in (1..inner.len()).rev() {
        let j = rng.below(i as u64 + 1) as usize;
        inner.swap(i, j);
    }
    let nrm = (inner.len() as u64 * percent / 100) as usize;
    for (i, &k) in inner.iter().take(nrm).enumerate() {
        ops.push(format!("remove {} {}", k, rm_val(rng, k)));
        if let Ok(p) = live.binary_search(&k) {
            live.remove(p);
        }
        gone.push(k);
        if i % 48 == 47 {
            // probes: the smallest live keys, a removed key, a random live key
            let k0 = live[rng.below(live.len().min(6) as u64) as usize];
            ops.push(format!("find {} {}", k0, val(k0)));
            let kg = *rng.pick(&gone);
            ops.push(format!("find {} {}", kg, val(kg)));
            let kl = *rng.pick(&live);
            ops.push(format!("find {} {}", kl, val(kl)));
        }
        if i % 400 == 399 {
            ops.push("iter".into());
        }
    }
    // phase D: probes, pops from both ends, a few more pushes
    ops.push("iter".into());
    for i in 0..live.len().min(8) {
        ops.push(format!("find {} {}", live[i], val(live[i])));
    }
    for _ in 0..8 {
        let k = if rng.chance(1, 2) { *rng.pick(&live) } else { *rng.pick(&gone) };
        ops.push(format!("find {} {}", k, val(k)));
    }
    for _ in 0..rng.range(0, 6) {
        if rng.chance(1, 2) {
            ops.push("pop_first".into());
            if !live.is_empty() {
                gone.push(live.remove(0));
            }
        } else {
            ops.push("pop_last".into());
            if let Some(k) = live.pop() {
                gone.push(k);
            }
        }
    }
    ops.push("iter".into());
    for _ in 0..rng.range(0, 4) {
        next_key += rng.range(1, 3) as u32;
        ops.push(format!("push {} {}", next_key, value(rng, next_key)));
    }
    ops.push("is_empty".into());
    ops.push("iter".into());
    // iterator protocol on a deque that is mostly tombstones (short answers only)
    let n = live.len();
    for sc in [
        format!("h,n,t{},h,n,s{},h,y3,c", n / 3, n / 4),
        format!("t{},h,k5,a", n.saturating_sub(3)),
        format!("s{},n,h,l", n / 2),
        format!("n,p{}.6", (n / 5).max(1)),
        "h,c".to_string(),
    ] {
        ops.push(format!("iterscript {}", sc));
    }
    ops
}

impl Family for SortedFamily {
    fn name(&self) -> &'static str {
        "sorted"
    }

    fn new_exec(&self) -> Box<dyn Exec> {
        crate::unwind::UnwindExec::boxed(SortedExec::fresh)
    }

    /// Both conventions x all op sequences over the 13-symbol alphabet (4 keys):
    /// * up to length 5 (quick) / 6 (thorough) as a tree walk through `clone()`d snapshots,
    ///   one case per first symbol (a push that panics ends its branch);
    /// * up to length 3 (quick) / 4 (thorough) as plain sequences without clones;
    /// * the "large" profile (`large_case`) with fixed seeds.
    fn enumerated(&self, thorough: bool) -> Vec<Vec<String>> {
        let depth = if thorough { 6 } else { 5 };
        let mut cases = Vec::new();
        for conv in ["pair", "whole"] {
            for first in 0..NSYM {
                cases.push(tree_case(conv, first, depth));
            }
        }
        // the "large" profile (fixed seeds): 2 (quick) / 12 (thorough) cases per convention
        for whole in [false, true] {
            for i in 0..(if thorough { 12u64 } else { 2 }) {
                let mut rng = Rng::new(0xC16_0000 + 2 * i + whole as u64);
                let (lo, hi) = if i < 2 { (560, 800) } else { (600, 3000) };
                cases.push(large_case(&mut rng, whole, lo, hi));
            }
        }
        // standard traits (track traits): source state x destination state x {clone_from onto cur,
        // clone_from onto a handle, clone, take}; a second round with the trait call made while unwinding
        for (ci, conv) in ["pair", "whole"].into_iter().enumerate() {
            for src in 0..traits::NPREP {
                for dst in 0..traits::NPREP {
                    for how in 0..4 {
                        if !thorough && how >= 2 && (src + dst + ci) % 2 == 1 {
                            continue;
                        }
                        cases.push(traits::clone_matrix_case(conv, src, dst, how, false));
                        if thorough || (src + dst + how + ci) % 4 == 0 {
                            cases.push(traits::clone_matrix_case(conv, src, dst, how, true));
                        }
                    }
                }
            }
        }
        // every non-panicking op called from a destructor while the thread unwinds: all sequences of 2
        // symbols after a fixed prefix (a push that would panic is left unwrapped: it ends the case)
        for conv in ["pair", "whole"] {
            for a in 0..NSYM {
                let mut ops = vec![format!("conv {}", conv)];
                for b in 0..NSYM {
                    ops.push("unwinding clear".to_string());
                    let mut set = BTreeSet::new();
                    for sym in [0usize, 1, 2, 6] {
                        shadow(&mut set, sym);
                        ops.push(format!("unwinding {}", symbol(sym)));
                    }
                    for sym in [a, b] {
                        if shadow(&mut set, sym) {
                            ops.push(format!("unwinding {}", symbol(sym)));
                        } else {
                            break;
                        }
                    }
                }
                cases.push(ops);
            }
        }
        // iterator protocol (track gen3): every script of <= 2 (thorough: 3) non-consuming steps over the
        // small alphabet, alone and followed by each consuming step, on a deque of 5 live items with
        // tombstones in the middle (7 pushed, 2 removed), on a one-item deque and on an empty one
        for conv in ["pair", "whole"] {
            let fill: Vec<String> = (1..=7u32).map(|k| format!("push {} {}", k, val(k))).chain([3u32, 5].iter().map(|k| format!("remove {} {}", k, val(*k)))).collect();
            for (k, setup) in [fill, vec![format!("push 4 {}", val(4))], vec![]].into_iter().enumerate() {
                let depth = if k == 0 { if thorough { 3 } else { 2 } } else { if thorough { 2 } else { 1 } };
                let scripts = crate::iterscript::enum_scripts(depth, false, 7);
                for chunk in scripts.chunks(250) {
                    let mut ops = vec![format!("conv {}", conv)];
                    ops.extend(setup.iter().cloned());
                    ops.extend(chunk.iter().map(|sc| format!("iterscript {}", sc)));
                    cases.push(ops);
                }
            }
        }
        let plain = if thorough { 4 } else { 3 };
        for conv in ["pair", "whole"] {
            let mut idx = vec![0usize; plain];
            'outer: loop {
                let mut ops = vec![format!("conv {}", conv)];
                ops.extend(idx.iter().map(|&s| symbol(s)));
                cases.push(ops);
                let mut k = plain;
                loop {
                    if k == 0 {
                        break 'outer;
                    }
                    k -= 1;
                    idx[k] += 1;
                    if idx[k] < NSYM {
                        break;
                    }
                    idx[k] = 0;
                }
            }
        }
        cases
    }

    fn gen_case(&self, rng: &mut Rng, _idx: u64, thorough: bool) -> Vec<String> {
        let whole = rng.chance(1, 2);
        // now and then a large deque (quick: about 4 of 4000 cases, of moderate size)
        if rng.chance(1, if thorough { 500 } else { 1000 }) {
            return large_case(rng, whole, 400, if thorough { 2500 } else { 900 });
        }
        let mut ops = vec![format!("conv {}", if whole { "whole" } else { "pair" })];
        let maxlen = if thorough { 200 } else { *rng.pick(&[10u64, 40, 200]) };
        let nops = rng.range(1, maxlen);
        let small_keys = rng.chance(1, 2); // keep keys within the probe range 0..5 for a while
        let mut live: Vec<u32> = Vec::new(); // ascending
        let mut gone: Vec<u32> = Vec::new(); // removed / popped keys (tombstones or not)
        // track traits: a third of the cases move values between several objects (handle ops; `others` =
        // the generator's shadows of d0, d1, …), a quarter make some calls while the thread is unwinding
        let multi = rng.chance(1, 3);
        let unwinding = rng.chance(1, 4);
        let mut others: Vec<(Vec<u32>, Vec<u32>)> = Vec::new();
        let mut nowrap: Vec<usize> = vec![0]; // ops that must not be wrapped in `unwinding`: conv, new, a push that panics
        let mut next_key: u32 = if small_keys { 0 } else { rng.range(0, 50) as u32 };
        let value = |rng: &mut Rng, k: u32| -> u32 { if whole { val(k) } else { rng.range(0, 99) as u32 } };
        if rng.chance(1, 6) {
            // start from a hand-made container: strictly increasing keys, tombstones only inside
            let n = rng.range(0, 8) as usize;
            let mut items = Vec::new();
            for i in 0..n {
                next_key += rng.range(1, 3) as u32;
                let inner = i > 0 && i + 1 < n;
                if inner && rng.chance(1, 3) {
                    items.push(format!("{}:-", next_key));
                    gone.push(next_key);
                } else {
                    items.push(format!("{}:{}", next_key, value(rng, next_key)));
                    live.push(next_key);
                }
            }
            nowrap.push(ops.len());
            ops.push(format!("new {}", if items.is_empty() { "-".into() } else { items.join(",") }));
        }
        let push_w = *rng.pick(&[3u64, 5, 7]);
        for _ in 0..nops {
            if multi && rng.chance(1, 6) {
                let mut st = vec![(std::mem::take(&mut live), std::mem::take(&mut gone))];
                st.append(&mut others);
                ops.push(crate::fam_sdeque::traits::gen_mop(rng, &mut st));
                others = st.split_off(1);
                (live, gone) = st.pop().unwrap();
                continue;
            }
            if rng.below(10) < push_w {
                match rng.below(120) {
                    0 => {
                        nowrap.push(ops.len());
                        // must panic (unless the deque is empty): key <= last
                        let k = match live.last() {
                            Some(&l) => l - rng.below(l.min(3) as u64 + 1) as u32,
                            None => next_key,
                        };
                        ops.push(format!("push {} {}", k, value(rng, k)));
                        if live.last().map_or(true, |&l| k > l) {
                            live.push(k);
                            next_key = next_key.max(k);
                        } else {
                            break; // the case is over after the panic
                        }
                    }
                    1..=6 => {
                        // erased push: a no-op whatever the key
                        let k = rng.range(0, next_key as u64 + 2) as u32;
                        ops.push(format!("push {} -", k));
                    }
                    _ => {
                        let last = live.last().copied();
                        next_key = next_key.max(last.unwrap_or(0));
                        let k = if last.is_none() && rng.chance(1, 2) {
                            next_key
                        } else {
                            next_key + rng.range(1, if small_keys { 1 } else { 3 }) as u32
                        };
                        let k = if last.map_or(false, |l| k <= l) { last.unwrap() + 1 } else { k };
                        next_key = k;
                        ops.push(format!("push {} {}", k, value(rng, k)));
                        live.push(k);
                    }
                }
                continue;
            }
            // pick a key: mostly a live one (middle-biased), sometimes a removed one, sometimes arbitrary
            let pick = |rng: &mut Rng, live: &Vec<u32>, gone: &Vec<u32>| -> u32 {
                match rng.below(10) {
                    0 => rng.range(0, next_key as u64 + 2) as u32,
                    1 | 2 | 3 if !gone.is_empty() => *rng.pick(gone),
                    4..=7 if live.len() >= 3 => *rng.pick(&live[1..live.len() - 1]),
                    _ if !live.is_empty() => *rng.pick(live),
                    _ => rng.range(0, next_key as u64 + 2) as u32,
                }
            };
            let probe_val = |rng: &mut Rng, k: u32| -> String {
                match rng.below(8) {
                    0 => "-".to_string(),
                    1 => (val(k) + 1).to_string(),
                    _ => val(k).to_string(),
                }
            };
            match rng.below(16) {
                0..=4 => {
                    let k = pick(rng, &live, &gone);
                    let pv = probe_val(rng, k);
                    ops.push(format!("remove {} {}", k, pv));
                    // pair: any value removes key k; whole: only the exact live item
                    if !whole || pv == val(k).to_string() {
                        if let Ok(i) = live.binary_search(&k) {
                            live.remove(i);
                            gone.push(k);
                        }
                    }
                }
                5..=8 => {
                    let k = pick(rng, &live, &gone);
                    let pv = probe_val(rng, k);
                    ops.push(format!("find {} {}", k, pv));
                }
                9 | 10 => {
                    ops.push("pop_first".into());
                    if !live.is_empty() {
                        gone.push(live.remove(0));
                    }
                }
                11 | 12 => {
                    ops.push("pop_last".into());
                    if let Some(k) = live.pop() {
                        gone.push(k);
                    }
                }
                13 => {
                    if rng.chance(1, 4) {
                        ops.push("clear".into());
                        gone.extend(live.drain(..));
                    } else {
                        ops.push("iter".into());
                    }
                }
                14 => ops.push((*rng.pick(&["first", "last", "is_empty"])).to_string()),
                _ => ops.push("iter".into()),
            }
            if rng.chance(1, 10) {
                let de = rng.chance(1, 40);
                ops.push(format!("iterscript {}", crate::iterscript::gen_script(rng, live.len(), de)));
            }
        }
        if unwinding {
            for (i, op) in ops.iter_mut().enumerate() {
                if !nowrap.contains(&i) && !op.starts_with("iterscript") && rng.chance(1, 4) {
                    *op = format!("unwinding {}", op);
                }
            }
            if rng.chance(1, 4) {
                ops.push(format!("scoped_panic conv {} ; push 1 {} ; push 2 {} ; pop_first ; dstore 0 ; dclone_from 0", if whole { "whole" } else { "pair" }, val(1), val(2)));
            }
        }
        ops
    }
}

//! ITERATOR-PROTOCOL scripts (track gen3): drive a real iterator through a script of
//! `Iterator` / `DoubleEndedIterator` / `ExactSizeIterator` calls and compare every answer with a
//! plain `Vec`-based reference iterator (`std::vec::IntoIter` over items obtained through the
//! indexed accessors) subjected to the same script.  An iterator that overrides a provided method
//! (`nth`, `count`, `last`, `size_hint`, `fold`, ...) must keep it consistent with `next`; the
//! adapters of `std` (`skip`, `step_by`, `take`, `rev`) are implemented on top of exactly those
//! overridable methods, so they are part of the protocol.
//!
//! Script = steps joined by `,` (the Lean side, `Driver/IterScript.lean`, parses the same text):
//!   n        next()                      t<k>    nth(k)
//!   h        size_hint()                 y<k>    by_ref().take(k).collect()
//!   s<k>     it = it.skip(k)             k<k>    it = it.take(k)
//!   b        next_back()                 u<k>    nth_back(k)            (double-ended only)
//!   r        it = it.rev()               e       len()                  (double-ended + exact size only)
//! and, as the LAST step only (they consume the iterator):
//!   c  count()    l  last()    a  collect()    f  fold(..)    p<s>.<m>  step_by(s).take(m).collect()
//!
//! The real iterator is driven on its CONCRETE type (so that its own overrides are what runs) for
//! the first two adapter levels; deeper adapters are applied to a boxed iterator (`Box` forwards
//! `next` / `nth` / `size_hint`), which keeps the set of instantiated types finite.
//!
//! Collecting steps stop after `cap_for(n)` items (n = what the reference holds), so a never-ending
//! iterator shows up as a wrong answer, not as an exhausted memory.  Every script also runs under a
//! watchdog thread (a wrong override can make `count` / `last` / `nth` / an adapter loop forever):
//! on expiry the watcher writes the `V` lines straight to file descriptor 1 and ends the process;
//! the executor asks `main.rs` to flush the transcript before such an op (`Exec::flush_before`).
use std::sync::atomic::{AtomicU64, Ordering};
use std::sync::{Mutex, Once, OnceLock};
use std::time::{Duration, Instant};

#[derive(Clone, Debug, PartialEq)]
pub enum Step {
    Next,
    Nth(usize),
    Hint,
    ByRefTake(usize),
    Skip(usize),
    Take(usize),
    NextBack,
    NthBack(usize),
    Rev,
    Len,
    Count,
    Last,
    Collect,
    Fold,
    StepByTake(usize, usize),
}

impl Step {
    pub fn terminal(&self) -> bool {
        matches!(self, Step::Count | Step::Last | Step::Collect | Step::Fold | Step::StepByTake(..))
    }
    pub fn double_ended(&self) -> bool {
        matches!(self, Step::NextBack | Step::NthBack(_) | Step::Rev | Step::Len)
    }
    pub fn token(&self) -> String {
        match self {
            Step::Next => "n".into(),
            Step::Nth(k) => format!("t{}", k),
            Step::Hint => "h".into(),
            Step::ByRefTake(k) => format!("y{}", k),
            Step::Skip(k) => format!("s{}", k),
            Step::Take(k) => format!("k{}", k),
            Step::NextBack => "b".into(),
            Step::NthBack(k) => format!("u{}", k),
            Step::Rev => "r".into(),
            Step::Len => "e".into(),
            Step::Count => "c".into(),
            Step::Last => "l".into(),
            Step::Collect => "a".into(),
            Step::Fold => "f".into(),
            Step::StepByTake(s, m) => format!("p{}.{}", s, m),
        }
    }
}

/// `None` = malformed (empty step, unknown letter, `step_by(0)`, or a step after a consuming one).
pub fn parse(script: &str) -> Option<Vec<Step>> {
    let mut out = Vec::new();
    if script == "-" {
        return Some(out);
    }
    for tok in script.split(',') {
        if out.last().map_or(false, |s: &Step| s.terminal()) {
            return None;
        }
        let (head, rest) = tok.split_at(tok.chars().next()?.len_utf8());
        let num = || rest.parse::<usize>().ok();
        let plain = rest.is_empty();
        out.push(match head {
            "n" if plain => Step::Next,
            "t" => Step::Nth(num()?),
            "h" if plain => Step::Hint,
            "y" => Step::ByRefTake(num()?),
            "s" => Step::Skip(num()?),
            "k" => Step::Take(num()?),
            "b" if plain => Step::NextBack,
            "u" => Step::NthBack(num()?),
            "r" if plain => Step::Rev,
            "e" if plain => Step::Len,
            "c" if plain => Step::Count,
            "l" if plain => Step::Last,
            "a" if plain => Step::Collect,
            "f" if plain => Step::Fold,
            "p" => {
                let (s, m) = rest.split_once('.')?;
                let (s, m) = (s.parse::<usize>().ok()?, m.parse::<usize>().ok()?);
                if s == 0 {
                    return None;
                }
                Step::StepByTake(s, m)
            }
            _ => return None,
        });
    }
    Some(out)
}

pub fn uses_double_ended(steps: &[Step]) -> bool {
    steps.iter().any(|s| s.double_ended())
}

// ---------------------------------------------------------------------------
// the dynamic cursor

pub trait Cur<'a> {
    fn next(&mut self) -> Option<String>;
    fn nth(&mut self, k: usize) -> Option<String>;
    fn hint(&self) -> (usize, Option<usize>);
    fn by_ref_take(&mut self, k: usize) -> Vec<String>;
    fn count(self: Box<Self>) -> usize;
    fn last(self: Box<Self>) -> Option<String>;
    fn collect(self: Box<Self>) -> Vec<String>;
    fn fold(self: Box<Self>) -> Vec<String>;
    fn step_by_take(self: Box<Self>, s: usize, m: usize) -> Vec<String>;
    fn skip(self: Box<Self>, k: usize) -> Box<dyn Cur<'a> + 'a>;
    fn take(self: Box<Self>, k: usize) -> Box<dyn Cur<'a> + 'a>;
    // double-ended / exact-size part: `None` = this iterator has no such method
    fn next_back(&mut self) -> Option<Option<String>> {
        None
    }
    fn nth_back(&mut self, _k: usize) -> Option<Option<String>> {
        None
    }
    fn len(&self) -> Option<usize> {
        None
    }
    fn rev(self: Box<Self>) -> Option<Box<dyn Cur<'a> + 'a>> {
        None
    }
}

macro_rules! cur_common {
    () => {
        fn next(&mut self) -> Option<String> {
            self.it.next().map(self.f)
        }
        fn nth(&mut self, k: usize) -> Option<String> {
            self.it.nth(k).map(self.f)
        }
        fn hint(&self) -> (usize, Option<usize>) {
            self.it.size_hint()
        }
        // Everything that collects is bounded by `cap` (a few times the number of items the reference
        // holds): an iterator that never ends must not fill the memory before the watchdog fires.
        fn by_ref_take(&mut self, k: usize) -> Vec<String> {
            let f = self.f;
            let v: Vec<_> = self.it.by_ref().take(k.min(self.cap)).collect();
            v.into_iter().map(f).collect()
        }
        fn count(self: Box<Self>) -> usize {
            self.it.count()
        }
        fn last(self: Box<Self>) -> Option<String> {
            let me = *self;
            me.it.last().map(me.f)
        }
        fn collect(self: Box<Self>) -> Vec<String> {
            // `collect()` of a `Vec` is a `next()` loop (plus `size_hint()` for the allocation, which the
            // `h` step checks on its own); spelled out so that it can stop at `cap`
            let mut me = *self;
            let mut out = Vec::new();
            while let Some(x) = me.it.next() {
                out.push((me.f)(x));
                if out.len() > me.cap {
                    break;
                }
            }
            out
        }
        fn fold(self: Box<Self>) -> Vec<String> {
            let me = *self;
            let (f, cap) = (me.f, me.cap);
            me.it.fold(Vec::new(), |mut acc, x| {
                acc.push(f(x));
                if acc.len() > cap {
                    // the only way out of a `fold` that never ends; reported as a panic of the script
                    panic!("iterscript: fold ran past {} items", cap);
                }
                acc
            })
        }
        fn step_by_take(self: Box<Self>, s: usize, m: usize) -> Vec<String> {
            let me = *self;
            let v: Vec<_> = me.it.step_by(s).take(m.min(me.cap)).collect();
            v.into_iter().map(me.f).collect()
        }
    };
}

macro_rules! cur_de {
    () => {
        fn next_back(&mut self) -> Option<Option<String>> {
            Some(self.it.next_back().map(self.f))
        }
        fn nth_back(&mut self, k: usize) -> Option<Option<String>> {
            Some(self.it.nth_back(k).map(self.f))
        }
        fn len(&self) -> Option<usize> {
            Some(self.it.len())
        }
    };
}

/// Forward-only iterator on its concrete type; `D` = adapter levels applied so far.
pub struct Fw<I, F, const D: u8> {
    it: I,
    f: F,
    cap: usize,
}

/// Forward-only iterator behind a box (third adapter level and deeper).
pub struct FwB<'a, T, F> {
    it: Box<dyn Iterator<Item = T> + 'a>,
    f: F,
    cap: usize,
}

impl<'a, I, F> Cur<'a> for Fw<I, F, 0>
where
    I: Iterator + 'a,
    F: Fn(I::Item) -> String + Copy + 'a,
{
    cur_common!();
    fn skip(self: Box<Self>, k: usize) -> Box<dyn Cur<'a> + 'a> {
        Box::new(Fw::<_, _, 1> { it: self.it.skip(k), f: self.f, cap: self.cap })
    }
    fn take(self: Box<Self>, k: usize) -> Box<dyn Cur<'a> + 'a> {
        Box::new(Fw::<_, _, 1> { it: self.it.take(k), f: self.f, cap: self.cap })
    }
}

impl<'a, I, F> Cur<'a> for Fw<I, F, 1>
where
    I: Iterator + 'a,
    F: Fn(I::Item) -> String + Copy + 'a,
{
    cur_common!();
    fn skip(self: Box<Self>, k: usize) -> Box<dyn Cur<'a> + 'a> {
        Box::new(Fw::<_, _, 2> { it: self.it.skip(k), f: self.f, cap: self.cap })
    }
    fn take(self: Box<Self>, k: usize) -> Box<dyn Cur<'a> + 'a> {
        Box::new(Fw::<_, _, 2> { it: self.it.take(k), f: self.f, cap: self.cap })
    }
}

impl<'a, I, F> Cur<'a> for Fw<I, F, 2>
where
    I: Iterator + 'a,
    I::Item: 'a,
    F: Fn(I::Item) -> String + Copy + 'a,
{
    cur_common!();
    fn skip(self: Box<Self>, k: usize) -> Box<dyn Cur<'a> + 'a> {
        let b: Box<dyn Iterator<Item = I::Item> + 'a> = Box::new(self.it.skip(k));
        Box::new(FwB { it: b, f: self.f, cap: self.cap })
    }
    fn take(self: Box<Self>, k: usize) -> Box<dyn Cur<'a> + 'a> {
        let b: Box<dyn Iterator<Item = I::Item> + 'a> = Box::new(self.it.take(k));
        Box::new(FwB { it: b, f: self.f, cap: self.cap })
    }
}

impl<'a, T: 'a, F> Cur<'a> for FwB<'a, T, F>
where
    F: Fn(T) -> String + Copy + 'a,
{
    cur_common!();
    fn skip(self: Box<Self>, k: usize) -> Box<dyn Cur<'a> + 'a> {
        let me = *self;
        Box::new(FwB { it: Box::new(me.it.skip(k)), f: me.f, cap: me.cap })
    }
    fn take(self: Box<Self>, k: usize) -> Box<dyn Cur<'a> + 'a> {
        let me = *self;
        Box::new(FwB { it: Box::new(me.it.take(k)), f: me.f, cap: me.cap })
    }
}

/// Double-ended + exact-size iterators.
pub trait DeIt: DoubleEndedIterator + ExactSizeIterator {}
impl<I: DoubleEndedIterator + ExactSizeIterator> DeIt for I {}

pub struct De<I, F, const D: u8> {
    it: I,
    f: F,
    cap: usize,
}

pub struct DeB<'a, T, F> {
    it: Box<dyn DeIt<Item = T> + 'a>,
    f: F,
    cap: usize,
}

impl<'a, I, F> Cur<'a> for De<I, F, 0>
where
    I: DeIt + 'a,
    F: Fn(I::Item) -> String + Copy + 'a,
{
    cur_common!();
    cur_de!();
    fn skip(self: Box<Self>, k: usize) -> Box<dyn Cur<'a> + 'a> {
        Box::new(De::<_, _, 1> { it: self.it.skip(k), f: self.f, cap: self.cap })
    }
    fn take(self: Box<Self>, k: usize) -> Box<dyn Cur<'a> + 'a> {
        Box::new(De::<_, _, 1> { it: self.it.take(k), f: self.f, cap: self.cap })
    }
    fn rev(self: Box<Self>) -> Option<Box<dyn Cur<'a> + 'a>> {
        Some(Box::new(De::<_, _, 1> { it: self.it.rev(), f: self.f, cap: self.cap }))
    }
}

impl<'a, I, F> Cur<'a> for De<I, F, 1>
where
    I: DeIt + 'a,
    I::Item: 'a,
    F: Fn(I::Item) -> String + Copy + 'a,
{
    cur_common!();
    cur_de!();
    fn skip(self: Box<Self>, k: usize) -> Box<dyn Cur<'a> + 'a> {
        let b: Box<dyn DeIt<Item = I::Item> + 'a> = Box::new(self.it.skip(k));
        Box::new(DeB { it: b, f: self.f, cap: self.cap })
    }
    fn take(self: Box<Self>, k: usize) -> Box<dyn Cur<'a> + 'a> {
        let b: Box<dyn DeIt<Item = I::Item> + 'a> = Box::new(self.it.take(k));
        Box::new(DeB { it: b, f: self.f, cap: self.cap })
    }
    fn rev(self: Box<Self>) -> Option<Box<dyn Cur<'a> + 'a>> {
        let b: Box<dyn DeIt<Item = I::Item> + 'a> = Box::new(self.it.rev());
        Some(Box::new(DeB { it: b, f: self.f, cap: self.cap }))
    }
}

impl<'a, T: 'a, F> Cur<'a> for DeB<'a, T, F>
where
    F: Fn(T) -> String + Copy + 'a,
{
    cur_common!();
    cur_de!();
    fn skip(self: Box<Self>, k: usize) -> Box<dyn Cur<'a> + 'a> {
        let me = *self;
        Box::new(DeB { it: Box::new(me.it.skip(k)), f: me.f, cap: me.cap })
    }
    fn take(self: Box<Self>, k: usize) -> Box<dyn Cur<'a> + 'a> {
        let me = *self;
        Box::new(DeB { it: Box::new(me.it.take(k)), f: me.f, cap: me.cap })
    }
    fn rev(self: Box<Self>) -> Option<Box<dyn Cur<'a> + 'a>> {
        let me = *self;
        Some(Box::new(DeB { it: Box::new(me.it.rev()), f: me.f, cap: me.cap }))
    }
}

/// How many items a collecting step may gather from an iterator whose reference holds `n` items.
pub fn cap_for(n: usize) -> usize {
    4 * n + 64
}

/// A forward-only real iterator (`cap`: see `cap_for`).
pub fn forward<'a, I, F>(it: I, f: F, cap: usize) -> Box<dyn Cur<'a> + 'a>
where
    I: Iterator + 'a,
    I::Item: 'a,
    F: Fn(I::Item) -> String + Copy + 'a,
{
    Box::new(Fw::<I, F, 0> { it, f, cap })
}

/// A double-ended, exact-size real iterator.
pub fn double_ended<'a, I, F>(it: I, f: F, cap: usize) -> Box<dyn Cur<'a> + 'a>
where
    I: DeIt + 'a,
    I::Item: 'a,
    F: Fn(I::Item) -> String + Copy + 'a,
{
    Box::new(De::<I, F, 0> { it, f, cap })
}

/// The reference: the already formatted items in a `Vec`, iterated by `std::vec::IntoIter`.
pub fn reference(items: Vec<String>) -> Box<dyn Cur<'static>> {
    fn id(s: String) -> String {
        s
    }
    let cap = cap_for(items.len());
    double_ended(items.into_iter(), id as fn(String) -> String, cap)
}

// ---------------------------------------------------------------------------
// running a script

fn fmt_opt(o: Option<String>) -> String {
    o.unwrap_or_else(|| "none".into())
}

fn fmt_list(v: &[String]) -> String {
    if v.is_empty() {
        "[-]".into()
    } else {
        format!("[{}]", v.join(";"))
    }
}

/// One log entry per step: `<token>=<answer>` (adapters: the token alone).  `Err(token)` = the
/// iterator has no such method (a double-ended step on a forward-only iterator).
pub fn run<'a>(mut cur: Box<dyn Cur<'a> + 'a>, steps: &[Step]) -> Result<Vec<String>, String> {
    let mut log = Vec::with_capacity(steps.len());
    for st in steps {
        let tok = st.token();
        let no = || tok.clone();
        match st {
            Step::Next => log.push(format!("{}={}", tok, fmt_opt(cur.next()))),
            Step::Nth(k) => log.push(format!("{}={}", tok, fmt_opt(cur.nth(*k)))),
            Step::Hint => {
                let (lo, hi) = cur.hint();
                log.push(format!("{}={}..{}", tok, lo, hi.map_or("inf".to_string(), |h| h.to_string())));
            }
            Step::ByRefTake(k) => log.push(format!("{}={}", tok, fmt_list(&cur.by_ref_take(*k)))),
            Step::Skip(k) => {
                cur = cur.skip(*k);
                log.push(tok);
            }
            Step::Take(k) => {
                cur = cur.take(*k);
                log.push(tok);
            }
            Step::NextBack => log.push(format!("{}={}", tok, fmt_opt(cur.next_back().ok_or_else(no)?))),
            Step::NthBack(k) => log.push(format!("{}={}", tok, fmt_opt(cur.nth_back(*k).ok_or_else(no)?))),
            Step::Len => log.push(format!("{}={}", tok, cur.len().ok_or_else(no)?)),
            Step::Rev => {
                cur = cur.rev().ok_or_else(no)?;
                log.push(tok);
            }
            Step::Count => {
                log.push(format!("{}={}", tok, cur.count()));
                return Ok(log);
            }
            Step::Last => {
                log.push(format!("{}={}", tok, fmt_opt(cur.last())));
                return Ok(log);
            }
            Step::Collect => {
                log.push(format!("{}={}", tok, fmt_list(&cur.collect())));
                return Ok(log);
            }
            Step::Fold => {
                log.push(format!("{}={}", tok, fmt_list(&cur.fold())));
                return Ok(log);
            }
            Step::StepByTake(s, m) => {
                log.push(format!("{}={}", tok, fmt_list(&cur.step_by_take(*s, *m))));
                return Ok(log);
            }
        }
    }
    Ok(log)
}

/// First step at which the real iterator's answers differ from the reference's.  `size_hint` is
/// compared as a bound (`lo <= remaining <= hi`; the reference's hint is exact), everything else
/// must be equal.
pub fn first_difference(steps: &[Step], real: &[String], reference: &[String]) -> Option<String> {
    for (j, st) in steps.iter().enumerate() {
        let (a, b) = (real.get(j), reference.get(j));
        match (a, b) {
            (Some(a), Some(b)) => {
                if *st == Step::Hint {
                    let parse = |s: &str| -> Option<(u128, u128)> {
                        let (lo, hi) = s.strip_prefix("h=")?.split_once("..")?;
                        Some((lo.parse().ok()?, if hi == "inf" { u128::MAX } else { hi.parse().ok()? }))
                    };
                    if let (Some((lo, hi)), Some((r, _))) = (parse(a), parse(b)) {
                        if lo <= r && r <= hi {
                            continue;
                        }
                    }
                    return Some(format!("step {} (`{}`): size_hint {} does not bound the {} items that remain", j, st.token(), a, &b[2..]));
                }
                if a != b {
                    let short = |s: &str| if s.len() > 240 { format!("{}...({} chars)", &s[..240], s.len()) } else { s.to_string() };
                    return Some(format!("step {} (`{}`): the iterator answers {} but a Vec of the indexed items answers {}", j, st.token(), short(a), short(b)));
                }
            }
            (None, None) => return None,
            _ => return Some(format!("step {} (`{}`): one of the two runs ended early", j, st.token())),
        }
    }
    None
}

// ---------------------------------------------------------------------------
// script generators

fn count_arg(rng: &mut crate::util::Rng, n: usize) -> usize {
    match rng.below(12) {
        0 => 0,
        1 | 2 => 1,
        3 => 2,
        4 => n.saturating_sub(1),
        5 => n,
        6 => n + 1,
        7 => usize::MAX,
        8 => usize::MAX - 1,
        _ => rng.below(n as u64 + 3) as usize,
    }
}

/// A random script for an iterator over about `n` items.
pub fn gen_script(rng: &mut crate::util::Rng, n: usize, de: bool) -> String {
    let len = rng.range(1, 8) as usize;
    let mut toks: Vec<String> = Vec::new();
    for _ in 0..len {
        let st = match rng.below(if de { 20 } else { 14 }) {
            0 | 1 | 2 => Step::Next,
            3 | 4 | 5 => Step::Nth(count_arg(rng, n)),
            6 | 7 => Step::Hint,
            8 | 9 => Step::ByRefTake(count_arg(rng, n)),
            10 | 11 => Step::Skip(count_arg(rng, n)),
            12 | 13 => Step::Take(count_arg(rng, n)),
            14 | 15 => Step::NextBack,
            16 => Step::NthBack(count_arg(rng, n)),
            17 | 18 => Step::Rev,
            _ => Step::Len,
        };
        toks.push(st.token());
    }
    if rng.chance(3, 4) {
        let st = match rng.below(6) {
            0 => Step::Count,
            1 => Step::Last,
            2 => Step::Collect,
            3 => Step::Fold,
            _ => Step::StepByTake(
                match rng.below(5) {
                    0 => 1,
                    1 => 2,
                    2 => 3,
                    3 => usize::MAX,
                    _ => rng.range(1, n as u64 + 2) as usize,
                },
                match rng.below(3) {
                    0 => n + 2,
                    1 => usize::MAX,
                    _ => rng.below(n as u64 + 3) as usize,
                },
            ),
        };
        toks.push(st.token());
    }
    toks.join(",")
}

/// All scripts of up to `depth` non-consuming steps over a small alphabet, each alone and followed
/// by each consuming step (`bound` = `take` bound of the `step_by` steps; use the item count + 2).
pub fn enum_scripts(depth: usize, de: bool, bound: usize) -> Vec<String> {
    let mut alpha: Vec<String> = ["n", "t0", "t1", "t2", "h", "s1", "s2", "k2", "y1"].iter().map(|s| s.to_string()).collect();
    if de {
        alpha.extend(["b", "u1", "r", "e"].iter().map(|s| s.to_string()));
    }
    let terms: Vec<String> = vec!["c".into(), "l".into(), "a".into(), "f".into(), format!("p2.{}", bound), format!("p3.{}", bound)];
    let mut out: Vec<String> = Vec::new();
    let mut frontier: Vec<Vec<String>> = vec![vec![]];
    for _ in 0..=depth {
        let mut next = Vec::new();
        for pre in &frontier {
            if !pre.is_empty() {
                out.push(pre.join(","));
            }
            for t in &terms {
                let mut x = pre.clone();
                x.push(t.clone());
                out.push(x.join(","));
            }
            if pre.len() < depth {
                for a in &alpha {
                    let mut x = pre.clone();
                    x.push(a.clone());
                    next.push(x);
                }
            }
        }
        frontier = next;
    }
    out
}

// ---------------------------------------------------------------------------
// watchdog (same scheme as `fam_hcobs/zeros.rs`)

fn raw_stdout(text: &str) {
    let bytes = text.as_bytes();
    let mut off = 0;
    while off < bytes.len() {
        // SAFETY: plain write(2) on fd 1 from a valid buffer.
        let n = unsafe { libc::write(1, bytes[off..].as_ptr() as *const libc::c_void, bytes.len() - off) };
        if n <= 0 {
            break;
        }
        off += n as usize;
    }
}

static DEADLINE_MS: AtomicU64 = AtomicU64::new(0);
static ON_EXPIRY: Mutex<Vec<String>> = Mutex::new(Vec::new());
static WATCHER: Once = Once::new();
static EPOCH: OnceLock<Instant> = OnceLock::new();

fn now_ms() -> u64 {
    EPOCH.get_or_init(Instant::now).elapsed().as_millis() as u64 + 1
}

struct Disarm;
impl Drop for Disarm {
    fn drop(&mut self) {
        DEADLINE_MS.store(0, Ordering::SeqCst);
    }
}

/// Runs `f`; if it has not returned (or panicked) after 30 s (`WP_ITER_WATCHDOG_SECS`), the watcher
/// prints `O did-not-return`, one `V` line per entry of `on_expiry`, and exits the process.
pub fn watched<T>(on_expiry: Vec<String>, f: impl FnOnce() -> T) -> T {
    let budget: u64 = std::env::var("WP_ITER_WATCHDOG_SECS").ok().and_then(|s| s.parse().ok()).unwrap_or(30);
    WATCHER.call_once(|| {
        now_ms();
        std::thread::spawn(|| loop {
            std::thread::sleep(Duration::from_millis(200));
            let d = DEADLINE_MS.load(Ordering::SeqCst);
            if d != 0 && now_ms() > d {
                let mut text = String::from("O did-not-return\n");
                for v in ON_EXPIRY.lock().unwrap().iter() {
                    text.push_str("V ");
                    text.push_str(v);
                    text.push('\n');
                }
                text.push_str("# aborted by the watchdog\n");
                if DEADLINE_MS.load(Ordering::SeqCst) == d {
                    raw_stdout(&text);
                    std::process::exit(0);
                }
            }
        });
    });
    *ON_EXPIRY.lock().unwrap() = on_expiry;
    DEADLINE_MS.store(now_ms() + budget * 1000, Ordering::SeqCst);
    let _disarm = Disarm;
    f()
}

/// Runs `steps` on the real iterator (under the watchdog) and on the reference; returns the
/// observation (`it <log>`; `it no-such-method <token>` when the script asks a forward-only
/// iterator for a double-ended method) and the first difference, if any.
///
/// `exact_hint`: the iterator promises exact size hints (`ExactSizeIterator`), which are then part
/// of the observation; otherwise a `size_hint` answer is printed as `h=ok` when it bounds the number
/// of items that remain (any such answer is lawful, e.g. `(0, Some(n))` of a filtering iterator) and
/// as `h=bad:<lo>..<hi>` when it does not.
pub fn run_both<'a>(prop: &str, what: &str, steps: &[Step], script: &str, real: Box<dyn Cur<'a> + 'a>, items: Vec<String>, exact_hint: bool) -> (String, Option<String>) {
    let expiry = vec![format!("{} {}: script `{}` did not return within its time budget", prop, what, script)];
    let real_log = watched(expiry, || run(real, steps));
    let ref_log = run(reference(items), steps).unwrap_or_default();
    match real_log {
        Err(tok) => (format!("it no-such-method {}", tok), None),
        Ok(mut log) => {
            let diff = first_difference(steps, &log, &ref_log).map(|d| format!("{} {}: script `{}`: {}", prop, what, script, d));
            if !exact_hint {
                for (j, st) in steps.iter().enumerate() {
                    if *st == Step::Hint && j < log.len() && j < ref_log.len() {
                        let ok = first_difference(&steps[j..j + 1], &log[j..j + 1], &ref_log[j..j + 1]).is_none();
                        log[j] = if ok { "h=ok".to_string() } else { format!("h=bad:{}", &log[j][2..]) };
                    }
                }
            }
            (format!("it {}", if log.is_empty() { "-".to_string() } else { log.join(" ") }), diff)
        }
    }
}

#[cfg(test)]
mod tests {
    use super::*;
    #[test]
    fn scripts_on_a_vec() {
        let items: Vec<String> = (0..5).map(|i| i.to_string()).collect();
        for s in enum_scripts(2, true, 7) {
            let steps = parse(&s).unwrap();
            let v: Vec<u32> = (0..5).collect();
            let (obs, diff) = run_both("T", "vec", &steps, &s, double_ended(v.iter(), |x: &u32| x.to_string(), cap_for(5)), items.clone(), true);
            assert!(diff.is_none(), "{} {:?} {}", s, diff, obs);
        }
        let steps = parse("n,t1,h,s1,y1,p2.9").unwrap();
        let v: Vec<u32> = (0..9).collect();
        let log = run(forward(v.iter(), |x: &u32| x.to_string(), 100), &steps).unwrap();
        assert_eq!(log.join(" "), "n=0 t1=2 h=6..6 s1 y1=[4] p2.9=[5;7]");
        assert!(parse("c,n").is_none() && parse("p0.3").is_none() && parse("q").is_none());
        assert!(run(forward(v.iter(), |x: &u32| x.to_string(), 100), &parse("b").unwrap()).is_err());
        // a never-ending iterator stops at the cap
        let log = run(forward(std::iter::repeat(7u32), |x: u32| x.to_string(), 10), &parse("a").unwrap()).unwrap();
        assert_eq!(log[0].split(';').count(), 11);
        let log = run(forward(std::iter::repeat(7u32), |x: u32| x.to_string(), 10), &parse("n,p2.18446744073709551615").unwrap()).unwrap();
        assert_eq!(log[1].split(';').count(), 10);
    }
}

//! Families `scale_chunker` (C08, C17) and `scale_reader` (C06): LARGE-MAGNITUDE and LONG-HISTORY
//! profiles over the `chunker` / `reader` executors (model drivers `wpmodel scale_chunker` /
//! `scale_reader` = the `chunker` / `reader` drivers behind `Driver/Scale.lean`).
//!   * EINTR bursts of 255 ... 2^20+1 consecutive `Interrupted` results exactly at a refill that
//!     starts with the 1-byte `FE` carry-over whose `FD` comes next (and, as controls, at a refill
//!     with no carry-over, with a carry-over that is not a delimiter, and in the middle of a block);
//!     bursts of 2^16 and more are replayed by the harness only (`quiet`: the list model's call log
//!     is quadratic in the burst length);
//!   * io_block_size 2^k - 1 / (2^k - 1)/j >= 4096 ... 2^20 - 1 over a fresh arena, with the record
//!     delimiter straddling the boundary of the block after which the arena chunk has exactly ONE
//!     byte of room; block sizes 2^k and 2^k + 1 as controls; records of up to 2 MiB;
//!   * more than 1024 / 4096 / 65536 records (and delimiters in a row) in one stream.
use crate::fam_stream::{ChunkerFamily, ReaderFamily};
use crate::scale_codec::const_wire;
use crate::scale_common::*;
use crate::util::*;

pub struct ScaleChunkerFamily;
pub struct ScaleReaderFamily;

/// length of `const_wire(_, len)`
fn wire_len(len: usize) -> usize {
    if len < 252 {
        len + 1
    } else {
        len + 1 + 2 * ((len - 252) / 64008 + 1)
    }
}

/// a payload length whose wire form has exactly `target` bytes (or the closest below)
fn payload_for(target: usize) -> usize {
    let lo = target.saturating_sub(80);
    for l in (lo..=target).rev() {
        if wire_len(l) == target {
            return l;
        }
    }
    target.saturating_sub(3).max(1)
}

#[derive(Clone, Copy, PartialEq)]
enum Where {
    /// the block ends on the delimiter's FE: the refill starts with the carry-over and FD comes next
    Carry,
    /// the block ends on a payload FE (not a delimiter): carry-over, but FE comes next
    CarryData,
    /// the block ends on an ordinary byte: no carry-over
    Fresh,
    /// the burst comes after half a block
    Mid,
}

/// stream word + its length: record A (wire ends exactly where `at` says), `FE FD`, `01 62`, `FE FD`, `01 63`
fn stream_for(at_block_end: usize, wh: Where) -> (String, usize) {
    // wire length of record A so that its delimiter's FE is byte number `at_block_end` (1-based)
    let (a_wire, a_len) = match wh {
        Where::Carry | Where::Mid => {
            let l = payload_for(at_block_end - 1);
            (const_wire(0x61, l), wire_len(l))
        }
        Where::Fresh => {
            let l = payload_for(at_block_end);
            (const_wire(0x61, l), wire_len(l))
        }
        Where::CarryData => {
            // payload ends in FE; its wire form is the constant one with the last byte replaced
            let l = payload_for(at_block_end);
            let mut parts: Vec<String> = Vec::new();
            let first = l.min(252);
            parts.push(format!("{:02x}", first));
            let mut left = l - first;
            let mut short = first < 252;
            let mut datas: Vec<usize> = vec![first];
            let mut heads: Vec<String> = vec![];
            while !short {
                let n = left.min(64008);
                heads.push(format!("{:02x}{:02x}", n % 253, n / 253));
                datas.push(n);
                left -= n;
                short = n < 64008;
            }
            // the last non-empty data run gets FE as its last byte
            let last = datas.iter().rposition(|d| *d > 0).unwrap_or(0);
            for (i, d) in datas.iter().enumerate() {
                if i > 0 {
                    parts.push(heads[i - 1].clone());
                }
                if *d > 0 {
                    if i == last {
                        if *d > 1 {
                            parts.push(format!("61*{}", d - 1));
                        }
                        parts.push("fe".into());
                    } else {
                        parts.push(format!("61*{}", d));
                    }
                }
            }
            (parts.join("+"), wire_len(l))
        }
    };
    let word = format!("{}+fefd0162fefd0163", a_wire);
    (word, a_len + 8)
}

/// EINTR burst of `k` at the refill after the first block of `block` bytes.
fn eintr_case(reader: bool, block: usize, k: usize, wh: Where, quiet: bool, judge: u64) -> Vec<String> {
    let (stream, n) = stream_for(block, wh);
    let mut ops: Vec<String> = vec!["terse".into()];
    if quiet {
        ops.push("quiet".into());
    }
    ops.push(format!("stream {}", stream));
    let first = if wh == Where::Mid { format!("d{}", block / 2) } else { format!("d{}", block) };
    ops.push(format!("script {},x0*{},d1000000*{}", first, k, n + 1));
    ops.push(format!("block {}", block));
    if reader {
        match judge % 3 {
            0 => ops.push("judge keepgoing".into()),
            1 => ops.push(format!("judge std {} none", 1usize << 40)),
            _ => {}
        }
        ops.push("nextall 8 2".into());
    } else {
        ops.push("drain 12 2".into());
    }
    ops
}

/// Full deliveries, no EINTR: the delimiter straddles the end of block number `j` of `block` bytes.
fn boundary_case(reader: bool, block: usize, j: usize, wh: Where, deliver: usize, blk_none: bool) -> Vec<String> {
    let (stream, n) = stream_for(block * j, wh);
    let mut ops: Vec<String> = vec!["terse".into()];
    ops.push(format!("stream {}", stream));
    ops.push(format!("script d{}*{}", deliver, n + 1));
    if reader && blk_none {
        ops.push("block none".into());
    } else {
        ops.push(format!("block {}", block));
    }
    if reader {
        ops.push("judge keepgoing".into());
        ops.push("nextall 8 2".into());
    } else {
        ops.push(format!("drain {} 2", 3 * j + 12));
    }
    ops
}

/// ONE delimiter position swept over many offsets from the chunker's current buffer start: valid
/// records of exactly `offsets[i]` wire bytes, each followed by `FE FD`, all delivered in blocks of
/// `block` bytes (the whole sequence fits in one block when the offsets add up to less than it).
/// After every sentinel the buffer starts right behind it, so delimiter number i has its `FE` at
/// offset `offsets[i]` from the current buffer start.
fn sweep_case(reader: bool, block: usize, offsets: &[usize], blk_none: bool) -> Vec<String> {
    let mut parts: Vec<String> = Vec::new();
    let mut n = 0usize;
    let mut recs = 0usize;
    for l in offsets {
        let p = payload_for(*l);
        if *l == 0 || wire_len(p) != *l {
            continue; // no record has exactly this wire length
        }
        parts.push(const_wire(0x61, p));
        parts.push("fefd".into());
        n += l + 2;
        recs += 1;
    }
    parts.push("0163".into());
    n += 2;
    let mut ops: Vec<String> = vec!["terse".into()];
    ops.push(format!("stream {}", parts.join("+")));
    ops.push(format!("script d{}*{}", block, n + 1));
    if reader && blk_none {
        ops.push("block none".into());
    } else {
        ops.push(format!("block {}", block));
    }
    if reader {
        ops.push("judge keepgoing".into());
        ops.push(format!("nextall {} 2", recs + 4));
    } else {
        ops.push(format!("drain {} 2", 3 * recs + n / block.max(2) * 2 + 12));
    }
    ops
}

/// offsets `m*unit - 1` (the FE is the last byte of a `unit`-sized strip), `m*unit - 2`, `m*unit`
fn strip_offsets(units: &[usize], limit: usize) -> Vec<usize> {
    let mut v = Vec::new();
    let mut total = 0usize;
    for u in units {
        for o in [u - 1, u - 2, *u] {
            if total + o + 2 <= limit {
                v.push(o);
                total += o + 2;
            }
        }
    }
    v
}

const POW2_UNITS: [usize; 13] = [64, 128, 256, 512, 1024, 2048, 4096, 8192, 16384, 32768, 65536, 131072, 262144];
const POW3_UNITS: [usize; 12] = [192, 384, 768, 1536, 3072, 6144, 12288, 24576, 49152, 98304, 196608, 393216];

/// `n` tiny records (or `n` delimiters in a row) in one stream.
fn many_records_case(reader: bool, n: usize, kind: u64, block: usize, quiet: bool) -> Vec<String> {
    let mut ops: Vec<String> = vec!["terse".into()];
    if quiet {
        ops.push("quiet".into());
    }
    let (word, len) = match kind % 3 {
        0 => (format!("0161fefd*{}+-", n), 4 * n),
        1 => (format!("0161+fefd*{}+0162", n), 2 * n + 4),
        _ => (format!("026162fefd*{}+03616263", n), 5 * n + 4),
    };
    ops.push(format!("stream {}", word));
    ops.push(format!("script d{}*{}", [1000000usize, 3, 4096][(kind % 3) as usize], len + 1));
    ops.push(format!("block {}", block));
    if reader {
        ops.push("judge keepgoing".into());
        ops.push(format!("nextall {} 2", n + 5));
    } else {
        ops.push(format!("drain {} 2", 2 * n + 8));
    }
    ops
}

const ROOM1_BLOCKS: [(usize, usize); 10] = [
    (4095, 1),
    (8191, 1),
    (16383, 1),
    (5461, 3),  // (16384 - 1) / 3
    (32767, 1),
    (65535, 1),
    (21845, 3), // (65536 - 1) / 3
    (13107, 5), // (65536 - 1) / 5
    (131071, 1),
    (524287, 1),
];

fn enumerated_for(reader: bool, thorough: bool) -> Vec<Vec<String>> {
    let mut cases: Vec<Vec<String>> = Vec::new();
    // ---- EINTR bursts at the carry-over refill
    let bursts: Vec<usize> = if thorough { vec![255, 256, 1022, 1023, 1024, 1025, 2047, 4095, 4096, 4097] } else { vec![1023, 1024, 4096] };
    let mut j = 0u64;
    for k in &bursts {
        for block in [2usize, 7, 64, 4096] {
            if !thorough && (j % 4 != 0) {
                j += 1;
                continue;
            }
            cases.push(eintr_case(reader, block.max(3), *k, Where::Carry, false, j));
            j += 1;
        }
        j += 1;
    }
    cases.push(eintr_case(reader, 7, 1023, Where::Carry, false, 0));
    cases.push(eintr_case(reader, 64, 1024, Where::Fresh, false, 1));
    cases.push(eintr_case(reader, 64, 1025, Where::CarryData, false, 2));
    cases.push(eintr_case(reader, 64, 1023, Where::Mid, false, 0));
    if thorough {
        for k in [65535usize, 65536, 65537, 1048575, 1048576, 1048577, 2097151, 2097153] {
            for (i, block) in [7usize, 4096, 524288].iter().enumerate() {
                if k > 70000 && i == 1 {
                    continue;
                }
                cases.push(eintr_case(reader, *block, k, Where::Carry, true, k as u64));
            }
        }
        cases.push(eintr_case(reader, 64, 1048576, Where::Fresh, true, 0));
        cases.push(eintr_case(reader, 64, 1048576, Where::Mid, true, 0));
        // one modelled burst of 2^14 (the model needs ~10 s for it)
        cases.push(eintr_case(reader, 7, 16384, Where::Carry, false, 0));
    }
    // ---- the delimiter straddles the block after which the arena chunk has one byte of room
    for (i, (block, jj)) in ROOM1_BLOCKS.iter().enumerate() {
        if !thorough && !(i < 4 || *block == 65535) {
            continue;
        }
        cases.push(boundary_case(reader, *block, *jj, Where::Carry, *block, false));
        if thorough {
            cases.push(boundary_case(reader, *block, *jj, Where::CarryData, 1000000, false));
            cases.push(boundary_case(reader, *block + 1, *jj, Where::Carry, *block + 1, false));
            cases.push(boundary_case(reader, *block, *jj, Where::Fresh, 4096, false));
        }
    }
    if thorough {
        cases.push(boundary_case(reader, 1048575, 1, Where::Carry, 1048575, false));
        cases.push(boundary_case(reader, 1048576, 2, Where::Carry, 1000000, false));
        // the default block size (512 KiB) and a 1.5 MiB record
        cases.push(boundary_case(reader, 524288, 3, Where::Carry, 1 << 20, true));
    }
    cases.push(boundary_case(reader, 524288, 1, Where::Carry, 524288, true));
    // ---- one delimiter swept over strip boundaries inside large blocks
    let only_minus1 = |units: &[usize], limit: usize| -> Vec<usize> {
        let mut v = Vec::new();
        let mut total = 0;
        for u in units {
            if total + u + 1 <= limit {
                v.push(u - 1);
                total += u + 1;
            }
        }
        v
    };
    cases.push(sweep_case(reader, 524288, &only_minus1(&POW3_UNITS[4..], 520000), true));
    cases.push(sweep_case(reader, 65536, &only_minus1(&POW3_UNITS[4..9], 65000), false));
    cases.push(sweep_case(reader, 524288, &only_minus1(&POW2_UNITS[5..], 520000), false));
    if thorough {
        for block in [65536usize, 131072, 524288, 1 << 20] {
            cases.push(sweep_case(reader, block, &strip_offsets(&POW3_UNITS, block - 8), false));
            cases.push(sweep_case(reader, block, &strip_offsets(&POW2_UNITS, block - 8), false));
            let rev3: Vec<usize> = POW3_UNITS.iter().rev().copied().collect();
            cases.push(sweep_case(reader, block, &strip_offsets(&rev3, block - 8), false));
            let rev2: Vec<usize> = POW2_UNITS.iter().rev().copied().collect();
            cases.push(sweep_case(reader, block, &strip_offsets(&rev2, block - 8), false));
            // multiples of one unit: 2u-1, 3u-1, ...
            for u in [4096usize, 16384, 49152, 65536] {
                let offs: Vec<usize> = (1..=8).map(|m| m * u - 1).filter(|o| *o + 2 < block).collect();
                if offs.len() >= 2 {
                    // spread over several blocks: each multiple is counted from a fresh buffer start
                    let mut o2 = Vec::new();
                    let mut total = 0;
                    for o in offs.iter().rev() {
                        if total + o + 2 <= 2 * block {
                            o2.push(*o);
                            total += o + 2;
                        }
                    }
                    cases.push(sweep_case(reader, block, &o2, false));
                }
            }
        }
    }
    // ---- many records
    cases.push(many_records_case(reader, 1100, 0, 4096, false));
    cases.push(many_records_case(reader, 1100, 1, 64, false));
    if thorough {
        cases.push(many_records_case(reader, 4100, 2, 524288, false));
        cases.push(many_records_case(reader, 4100, 0, 3, false));
        cases.push(many_records_case(reader, 66000, 0, 4096, true));
        cases.push(many_records_case(reader, 66000, 1, 524288, true));
        cases.push(many_records_case(reader, 70000, 2, 100, true));
    }
    cases
}

fn gen_for(reader: bool, rng: &mut Rng, thorough: bool) -> Vec<String> {
    match rng.below(5) {
        4 => {
            // a delimiter swept over random and strip-aligned offsets inside one large block
            let block = *rng.pick(&[65536usize, 131072, 524288, 524288]);
            let mut offs = Vec::new();
            let mut total = 0usize;
            let limit = if thorough { block - 8 } else { block.min(200000) };
            for _ in 0..12 {
                let unit = *rng.pick(&[64usize, 4096, 8192, 16384, 32768, 49152, 65536, 3072, 12288]);
                let m = rng.range(1, 6) as usize;
                let o = (m * unit + *rng.pick(&[0usize, 0, 0, 1, 2])).saturating_sub(*rng.pick(&[1usize, 1, 1, 2, 0]));
                if o > 0 && total + o + 2 <= limit {
                    offs.push(o);
                    total += o + 2;
                }
            }
            sweep_case(reader, block, &offs, block == 524288 && rng.chance(1, 2))
        }
        0 | 1 => {
            let k = near_of(rng, &[255usize, 256, 511, 1023, 1023, 1024, 1024, 2047, 4095, 4096], 0);
            let block = *rng.pick(&[3usize, 4, 7, 8, 64, 255, 256, 4095, 4096, 8191]);
            let wh = *rng.pick(&[Where::Carry, Where::Carry, Where::Carry, Where::CarryData, Where::Fresh, Where::Mid]);
            eintr_case(reader, block, k, wh, false, rng.below(3))
        }
        2 => {
            let (block, j) = *rng.pick(&ROOM1_BLOCKS[..if thorough { 10 } else { 8 }]);
            let block = if rng.chance(3, 4) { block } else { near(rng, block, 4096) };
            let wh = *rng.pick(&[Where::Carry, Where::Carry, Where::CarryData, Where::Fresh]);
            let deliver = *rng.pick(&[block, block, 1000000, 4096, block / 2 + 1]);
            boundary_case(reader, block, j, wh, deliver, false)
        }
        _ => {
            let n = near_of(rng, &[1024usize, 1100, 1500], 1);
            many_records_case(reader, n, rng.below(3), *rng.pick(&[3usize, 64, 4096, 524288]), false)
        }
    }
}

impl Family for ScaleChunkerFamily {
    fn name(&self) -> &'static str {
        "scale_chunker"
    }
    fn new_exec(&self) -> Box<dyn Exec> {
        Box::new(ScaleExec::new(Kind::Chunker, ChunkerFamily.new_exec()))
    }
    fn enumerated(&self, thorough: bool) -> Vec<Vec<String>> {
        enumerated_for(false, thorough)
    }
    fn gen_case(&self, rng: &mut Rng, _idx: u64, thorough: bool) -> Vec<String> {
        gen_for(false, rng, thorough)
    }
}

impl Family for ScaleReaderFamily {
    fn name(&self) -> &'static str {
        "scale_reader"
    }
    fn new_exec(&self) -> Box<dyn Exec> {
        Box::new(ScaleExec::new(Kind::Reader, ReaderFamily.new_exec()))
    }
    fn enumerated(&self, thorough: bool) -> Vec<Vec<String>> {
        enumerated_for(true, thorough)
    }
    fn gen_case(&self, rng: &mut Rng, _idx: u64, thorough: bool) -> Vec<String> {
        gen_for(true, rng, thorough)
    }
}

//! Families `chunkerw` and `readerw` (C05, track `rdrworld`): `StreamChunker::pump` and
//! `StreamReader::next_record_bytes` again (families `chunker` / `reader`, `fam_stream.rs`), compared with
//! the WORLD-level model (`Model/StreamWorld.lean`): besides the bytes, the PLACEMENT of every slice handed
//! out (chunk ordinal in allocation order, offset, length — through the live-chunk registry, hook H1) and the
//! set of live chunks after every call.
//!
//! chunkerw (the harness owns the `ByteArena` and KEEPS every `Data` chunk until released)
//!   stream / script / block <n> / reset      as `chunker`
//!   pump | drain <max> <extra>               as `chunker`; `data` lines end in ` at=c<k>:<off>+<len>`;
//!                                            each op ends with `L live=…` and `H held=<n>`
//!   release <n>                              drop the n oldest chunks still held
//! readerw
//!   stream / script / block / judge … / reset   as `reader`
//!   next | nextall <max> <extra>             as `reader`; after each call `R slices=…` (for `some`) and `L live=…`
//!
//! Direct oracle (C05 itself, independent of the model): every chunk the harness still holds, and every
//! slice of a returned record, lies inside a chunk the allocator's registry reports as live, and a held
//! chunk still holds the bytes it held when it was handed out (freed chunks are poisoned with 0xFC in this
//! build profile).
use crate::fam_readn::{kind_index, ScriptedReader};
use crate::fam_stream::{parse_script_rep, ChunkerFamily, ReaderFamily};
use crate::util::*;
use hcobs::{Chunk, StreamAction, StreamChunker, StreamReader};
use owning_iovec::{AnchoredSlice, ByteArena};

fn reader_tail(r: &ScriptedReader, with_reqs: bool) -> String {
    let left = r.script.len() - r.next.min(r.script.len());
    let srcleft = r.src.len() - r.pos;
    if with_reqs {
        let reqs: Vec<usize> = r
            .calls
            .iter()
            .map(|c| match c {
                crate::fam_readn::Call::Delivered(a, _) => *a,
                crate::fam_readn::Call::Failed(a, _) => *a,
            })
            .collect();
        format!(" reqs={} left={} srcleft={}", nat_list(&reqs), left, srcleft)
    } else {
        format!(" left={} srcleft={}", left, srcleft)
    }
}

/// canonical address of a slice (`c<ordinal since the case began>:<offset>+<len>`), or None if it does not
/// lie inside a chunk the registry reports as live
fn canon(ptr: usize, len: usize, base_ordinal: u64) -> Option<String> {
    let (live, _) = ByteArena::verif_live_chunks();
    for (addr, clen, ord) in &live {
        if *addr <= ptr && ptr + len <= addr + clen && *ord >= base_ordinal {
            return Some(format!("c{}:{}+{}", ord - base_ordinal, ptr - addr, len));
        }
    }
    None
}

fn live_line(base_ordinal: u64) -> String {
    let (live, _) = ByteArena::verif_live_chunks();
    let mut ords: Vec<u64> = live.iter().filter(|(_, _, o)| *o >= base_ordinal).map(|(_, _, o)| o - base_ordinal).collect();
    ords.sort();
    if ords.is_empty() {
        "L live=-".to_string()
    } else {
        format!("L live={}", ords.iter().map(|o| format!("c{}", o)).collect::<Vec<_>>().join(","))
    }
}

// ------------------------------------------------------------------ chunkerw

pub struct ChunkerWFamily;

struct ChunkerWExec {
    // declaration order = drop order: the chunker's buffer and the held chunks go before the arena
    chunker: StreamChunker,
    held: std::collections::VecDeque<(AnchoredSlice, Vec<u8>, u64)>, // (chunk, bytes when handed out, serial)
    arena: ByteArena,
    reader: ScriptedReader,
    block: usize,
    base_ordinal: u64,
    serial: u64,
    // content oracle: what the reader delivered / what the chunks carried so far (until the first I/O error,
    // after which the carry-over byte of the failed refill is legitimately gone)
    delivered: Vec<u8>,
    emitted: Vec<u8>,
    content_on: bool,
}

impl ChunkerWExec {
    fn new() -> Self {
        let (_, next) = ByteArena::verif_live_chunks();
        ChunkerWExec {
            chunker: StreamChunker::default(),
            held: Default::default(),
            arena: ByteArena::new(),
            reader: ScriptedReader::new(vec![], vec![]),
            block: 0,
            base_ordinal: next,
            serial: 0,
            delivered: vec![],
            emitted: vec![],
            content_on: true,
        }
    }

    /// The chunks carry exactly the bytes the reader delivered, in order: a chunk whose bytes were read back
    /// through memory that had been released (poisoned with 0xFC in this profile) breaks this.
    fn check_content(&mut self, new: &[u8], so: &mut StepOut) {
        if !self.content_on {
            return;
        }
        self.emitted.extend_from_slice(new);
        if self.emitted.len() > self.delivered.len() || self.emitted[..] != self.delivered[..self.emitted.len()] {
            so.violations.push(format!(
                "C05 the chunks handed out so far ({} bytes, last {}) are not the bytes the reader delivered: a chunk was filled through memory that is no longer alive",
                self.emitted.len(),
                to_hex(new)
            ));
            self.content_on = false;
        }
    }

    /// C05 on every chunk still held: inside live memory, contents unchanged.
    fn check_held(&self, so: &mut StepOut) {
        for (a, bytes, serial) in &self.held {
            let s = a.slice();
            if canon(s.as_ptr() as usize, s.len(), self.base_ordinal).is_none() {
                so.violations.push(format!(
                    "C05 Data chunk #{} handed out by pump lies outside live memory while its AnchoredSlice is still held",
                    serial
                ));
                continue; // never read through a dangling slice
            }
            if &s[..] != &bytes[..] {
                so.violations.push(format!(
                    "C05 Data chunk #{} changed while its AnchoredSlice is still held (now {}, was {})",
                    serial,
                    to_hex(&s),
                    to_hex(bytes)
                ));
            }
        }
    }

    fn pump_once(&mut self, so: &mut StepOut) -> bool {
        self.reader.calls.clear();
        let res = self.chunker.pump(&mut self.arena, &mut self.reader, self.block);
        for c in &self.reader.calls {
            if let crate::fam_readn::Call::Delivered(_, b) = c {
                self.delivered.extend_from_slice(b);
            }
        }
        let mut is_eof = false;
        let head = match res {
            Ok(Chunk::Sentinel(off)) => {
                self.check_content(&[0xFE, 0xFD], so);
                format!("sentinel {}{}", off, reader_tail(&self.reader, true))
            }
            Ok(Chunk::Eof) => {
                is_eof = true;
                format!("eof{}", reader_tail(&self.reader, true))
            }
            Ok(Chunk::Data((off, slice))) => {
                let s = slice.slice();
                let at = match canon(s.as_ptr() as usize, s.len(), self.base_ordinal) {
                    Some(a) => a,
                    None => {
                        so.violations.push("C05 pump handed out a Data chunk outside live memory".into());
                        so.obs.push(format!("data {} DEAD", off));
                        self.held.push_back((slice, vec![], self.serial));
                        self.serial += 1;
                        return false;
                    }
                };
                let b = s.to_vec();
                self.check_content(&b, so);
                so.tags.push("w_chunk_data".into());
                let line = format!("data {} {}{} at={}", off, to_hex(&b), reader_tail(&self.reader, true), at);
                self.held.push_back((slice, b, self.serial));
                self.serial += 1;
                line
            }
            Err(e) => {
                self.content_on = false;
                format!("ioerr {}{}", kind_index(e.kind()), reader_tail(&self.reader, true))
            }
        };
        so.obs.push(head);
        self.check_held(so);
        is_eof
    }

    fn tail(&self, so: &mut StepOut) {
        so.obs.push(live_line(self.base_ordinal));
        so.obs.push(format!("H held={}", self.held.len()));
    }
}

impl Exec for ChunkerWExec {
    fn step(&mut self, w: &[&str]) -> StepOut {
        match w {
            ["reset"] => {
                // drop the old objects first: the ordinals of the new case start at the registry's next one
                self.held.clear();
                self.chunker = StreamChunker::default();
                self.arena = ByteArena::new();
                *self = ChunkerWExec::new();
                StepOut::obs("ok")
            }
            ["stream", h] => {
                let Some(b) = from_hex(h) else { return StepOut::bad() };
                self.reader.src = b;
                self.reader.pos = 0;
                StepOut::obs("ok")
            }
            ["script", s] => {
                let Some(evs) = parse_script_rep(s) else { return StepOut::bad() };
                self.reader.script = evs;
                self.reader.next = 0;
                StepOut::obs("ok")
            }
            ["block", n] => {
                let Ok(n) = n.parse::<usize>() else { return StepOut::bad() };
                self.block = n;
                StepOut::obs("ok")
            }
            ["pump"] => {
                let mut so = StepOut::default();
                self.pump_once(&mut so);
                self.tail(&mut so);
                so
            }
            ["drain", max, extra] => {
                let (Ok(max), Ok(extra)) = (max.parse::<usize>(), extra.parse::<usize>()) else {
                    return StepOut::bad();
                };
                let mut so = StepOut::default();
                let mut n = 0;
                let mut eof = false;
                while n < max && !eof {
                    eof = self.pump_once(&mut so);
                    n += 1;
                }
                for _ in 0..extra {
                    self.pump_once(&mut so);
                }
                self.tail(&mut so);
                so
            }
            ["release", n] => {
                let Ok(n) = n.parse::<usize>() else { return StepOut::bad() };
                let mut so = StepOut::obs("ok");
                for _ in 0..n {
                    if self.held.pop_front().is_none() {
                        break;
                    }
                }
                so.tags.push("w_release".into());
                self.check_held(&mut so);
                self.tail(&mut so);
                so
            }
            _ => StepOut::bad(),
        }
    }

    fn finish(&mut self) -> StepOut {
        let mut so = StepOut::default();
        self.check_held(&mut so);
        so
    }
}

impl Family for ChunkerWFamily {
    fn name(&self) -> &'static str {
        "chunkerw"
    }

    fn new_exec(&self) -> Box<dyn Exec> {
        Box::new(ChunkerWExec::new())
    }

    /// A sample of the `chunker` family's enumerated cases (every 8th; every 2nd in the thorough tier: the
    /// world-level model replays 512 KiB block reads as lists).
    fn enumerated(&self, thorough: bool) -> Vec<Vec<String>> {
        let all = ChunkerFamily.enumerated(false);
        let step = if thorough { 2 } else { 8 };
        all.into_iter().enumerate().filter(|(k, _)| k % step == 0).map(|(_, c)| c).collect()
    }

    /// The `chunker` family's cases with the final drain cut into pumps and releases: chunks handed out
    /// early stay held while later blocks are read into the same arena (and while the arena moves on to
    /// fresh regions), then go in FIFO order.
    fn gen_case(&self, rng: &mut Rng, idx: u64, thorough: bool) -> Vec<String> {
        if rng.chance(1, 3) {
            return rollover_chunker_case(rng);
        }
        let ops = ChunkerFamily.gen_case(rng, idx, thorough);
        let mut out = Vec::new();
        for op in ops {
            if op.starts_with("drain ") && rng.chance(3, 4) {
                for _ in 0..rng.range(1, 6) {
                    for _ in 0..rng.range(1, 5) {
                        out.push("pump".to_string());
                    }
                    out.push(format!("release {}", rng.range(0, 4)));
                }
            }
            out.push(op);
        }
        if rng.chance(1, 2) {
            out.push(format!("release {}", rng.range(1, 1000)));
            out.push("pump".to_string());
        }
        out
    }
}

// ------------------------------------------------------------------ readerw

pub struct ReaderWFamily;

#[derive(Clone, Debug)]
enum JudgeSpec {
    KeepGoing,
    Std(usize, Option<u64>),
    List(Vec<StreamAction>, usize),
}

struct ReaderWExec {
    rd: StreamReader,
    reader: ScriptedReader,
    block: Option<usize>,
    judge: JudgeSpec,
    base_ordinal: u64,
}

impl ReaderWExec {
    fn new() -> Self {
        let (_, next) = ByteArena::verif_live_chunks();
        ReaderWExec {
            rd: StreamReader::new(),
            reader: ScriptedReader::new(vec![], vec![]),
            block: None,
            judge: JudgeSpec::KeepGoing,
            base_ordinal: next,
        }
    }

    /// returns true when the call returned None or an error
    fn next_once(&mut self, so: &mut StepOut) -> bool {
        self.reader.calls.clear();
        let judge = &mut self.judge;
        let base = self.base_ordinal;
        let res = self.rd.next_record_bytes(
            &mut self.reader,
            |range: std::ops::Range<u64>, iov: owning_iovec::ConsumingIovec<'_>| match judge {
                JudgeSpec::KeepGoing => StreamAction::KeepGoing,
                JudgeSpec::Std(max, limit) => (StreamReader::chunk_judge(*max, *limit))(range, iov),
                JudgeSpec::List(vs, i) => {
                    let v = vs.get(*i).copied().unwrap_or(StreamAction::KeepGoing);
                    *i += 1;
                    v
                }
            },
            self.block,
        );
        // (head, slices line, ended)
        let (head, slices, ended) = match res {
            Ok(Some((iov, range))) => {
                let mut addrs = Vec::new();
                let mut bytes = Vec::new();
                let mut dead = false;
                for s in iov.stable_prefix() {
                    match canon(s.as_ptr() as usize, s.len(), base) {
                        Some(a) => {
                            addrs.push(a);
                            bytes.extend_from_slice(s);
                        }
                        None => {
                            dead = true;
                            addrs.push("DEAD".into());
                        }
                    }
                }
                if dead {
                    so.violations.push(
                        "C05 a slice of the record returned by next_record_bytes lies outside live memory".into(),
                    );
                }
                if iov.has_pending_backrefs() {
                    so.violations.push("C05 returned record has pending backpatches (stable prefix is not the record)".into());
                }
                so.tags.push("w_next_some".into());
                (
                    format!("some {} {}..{}", to_hex(&bytes), range.start, range.end),
                    Some(format!("R slices={}", if addrs.is_empty() { "-".to_string() } else { addrs.join(",") })),
                    false,
                )
            }
            Ok(None) => ("none".to_string(), None, true),
            Err(e) => (format!("ioerr {}", kind_index(e.kind())), None, true),
        };
        let ls = self.rd.last_sentinel_offset();
        so.obs.push(format!("{} last_sentinel={}{}", head, ls, reader_tail(&self.reader, false)));
        if let Some(s) = slices {
            so.obs.push(s);
        }
        so.obs.push(live_line(self.base_ordinal));
        ended
    }
}

fn parse_verdicts(s: &str) -> Option<Vec<StreamAction>> {
    if s == "-" {
        return Some(vec![]);
    }
    s.chars()
        .map(|c| match c {
            'k' => Some(StreamAction::KeepGoing),
            's' => Some(StreamAction::SkipRecord),
            'x' => Some(StreamAction::Stop),
            _ => None,
        })
        .collect()
}

impl Exec for ReaderWExec {
    fn step(&mut self, w: &[&str]) -> StepOut {
        match w {
            ["reset"] => {
                self.rd = StreamReader::new(); // drop the old reader before reading the next ordinal
                *self = ReaderWExec::new();
                StepOut::obs("ok")
            }
            ["stream", h] => {
                let Some(b) = from_hex(h) else { return StepOut::bad() };
                self.reader.src = b;
                self.reader.pos = 0;
                StepOut::obs("ok")
            }
            ["script", s] => {
                let Some(evs) = parse_script_rep(s) else { return StepOut::bad() };
                self.reader.script = evs;
                self.reader.next = 0;
                StepOut::obs("ok")
            }
            ["block", n] => {
                if *n == "none" {
                    self.block = None;
                } else {
                    let Ok(n) = n.parse::<usize>() else { return StepOut::bad() };
                    self.block = Some(n);
                }
                StepOut::obs("ok")
            }
            ["judge", "keepgoing"] => {
                self.judge = JudgeSpec::KeepGoing;
                StepOut::obs("ok")
            }
            ["judge", "std", max, limit] => {
                let Ok(max) = max.parse::<usize>() else { return StepOut::bad() };
                let limit = if *limit == "none" {
                    None
                } else {
                    let Ok(l) = limit.parse::<u64>() else { return StepOut::bad() };
                    Some(l)
                };
                self.judge = JudgeSpec::Std(max, limit);
                StepOut::obs("ok")
            }
            ["judge", "list", vs] => {
                let Some(vs) = parse_verdicts(vs) else { return StepOut::bad() };
                self.judge = JudgeSpec::List(vs, 0);
                StepOut::obs("ok")
            }
            ["next"] => {
                let mut so = StepOut::default();
                self.next_once(&mut so);
                so
            }
            ["nextall", max, extra] => {
                let (Ok(max), Ok(extra)) = (max.parse::<usize>(), extra.parse::<usize>()) else {
                    return StepOut::bad();
                };
                let mut so = StepOut::default();
                let mut n = 0;
                let mut end = false;
                while n < max && !end {
                    end = self.next_once(&mut so);
                    n += 1;
                }
                for _ in 0..extra {
                    self.next_once(&mut so);
                }
                so
            }
            _ => StepOut::bad(),
        }
    }
}

impl Family for ReaderWFamily {
    fn name(&self) -> &'static str {
        "readerw"
    }

    fn new_exec(&self) -> Box<dyn Exec> {
        Box::new(ReaderWExec::new())
    }

    /// A sample of the `reader` family's enumerated cases (the first three — F1 reproducer, the crate's test
    /// vector, the empty stream — then every 32nd; every 8th in the thorough tier).
    fn enumerated(&self, thorough: bool) -> Vec<Vec<String>> {
        let all = ReaderFamily.enumerated(false);
        let step = if thorough { 8 } else { 32 };
        all.into_iter().enumerate().filter(|(k, _)| *k < 3 || k % step == 0).map(|(_, c)| c).collect()
    }

    fn gen_case(&self, rng: &mut Rng, idx: u64, thorough: bool) -> Vec<String> {
        if rng.chance(1, 3) {
            return rollover_reader_case(rng);
        }
        ReaderFamily.gen_case(rng, idx, thorough)
    }
}

// ------------------------------------------------------------------ chunk-rollover generators

/// Records with mid-size / large payloads (borrowed, not copied, by `decode_anchored`), enough of them
/// that the arena fills its first chunks and moves on: slices handed out earlier then live in chunks that
/// only their own anchors keep alive.
fn rollover_stream(rng: &mut Rng, total: usize) -> Vec<u8> {
    let mut s = Vec::new();
    while s.len() < total {
        let len = match rng.below(6) {
            0 => rng.range(1, 64),
            1 => rng.range(65, 256),
            2 | 3 => rng.range(257, 700),
            _ => rng.range(700, 2500),
        } as usize;
        let fe_every = *rng.pick(&[0usize, 0, 97, 301]);
        let payload: Vec<u8> = (0..len)
            .map(|k| if fe_every > 0 && k % fe_every == fe_every - 1 { 0xFE } else { 0x61 + (k % 7) as u8 })
            .collect();
        let mut enc = hcobs::Encoder::new();
        enc.encode_copy(&payload);
        s.extend(enc.finish().flatten().expect("no pending backpatch after finish"));
        if rng.chance(1, 10) {
            s.push(0xFF); // a corrupt record now and then
        }
        s.extend_from_slice(&[0xFE, 0xFD]);
    }
    s
}

fn rollover_script(rng: &mut Rng, n: usize) -> String {
    match rng.below(4) {
        0 => format!("d{}*{}", rng.range(100, 900), n / 100 + 4),
        1 => format!("x0,d{}*{}", rng.range(1000, 5000), n / 1000 + 4),
        _ => format!("d100000*{}", n + 4),
    }
}

fn rollover_chunker_case(rng: &mut Rng) -> Vec<String> {
    let total = rng.range(4500, 20000) as usize;
    let stream = rollover_stream(rng, total);
    let block = *rng.pick(&[300usize, 700, 1000, 1024, 2048, 3000, 4096, 4097, 5000]);
    let mut ops = vec![
        format!("stream {}", to_hex(&stream)),
        format!("script {}", rollover_script(rng, stream.len())),
        format!("block {}", block),
    ];
    let rounds = stream.len() / block + 3;
    for _ in 0..rounds {
        for _ in 0..rng.range(1, 4) {
            ops.push("pump".to_string());
        }
        if rng.chance(1, 2) {
            ops.push(format!("release {}", rng.range(0, 3)));
        }
    }
    ops.push(format!("drain {} 1", 2 * rounds + 8));
    ops.push(format!("release {}", rng.range(1, 4)));
    ops.push("pump".to_string());
    ops
}

fn rollover_reader_case(rng: &mut Rng) -> Vec<String> {
    let total = rng.range(4500, 16000) as usize;
    let stream = rollover_stream(rng, total);
    let block = *rng.pick(&[300usize, 700, 1000, 1024, 2048, 3000, 4096, 4097, 5000]);
    let nrec = stream.windows(2).filter(|w| w == &[0xFE, 0xFD]).count();
    let mut ops = vec![
        format!("stream {}", to_hex(&stream)),
        format!("script {}", rollover_script(rng, stream.len())),
        format!("block {}", block),
    ];
    if rng.chance(1, 3) {
        ops.push(format!("judge std {} none", rng.range(200, 3000)));
    }
    ops.push(format!("nextall {} 1", nrec + 4));
    ops
}

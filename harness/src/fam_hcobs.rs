//! Families `hcobs_enc` and `hcobs_dec`: the real HCOBS `Encoder` / `Decoder`
//! (production limits through the public API, custom limits through hook H2)
//! under segmented input, mixed input methods and interleaved drains
//! (C01, C02, C07, abstract half of C09).
//!
//! Ops (a case may hold several runs; `params` starts a fresh codec):
//!   params prod | params <maxInit> <maxSub>
//!   enc b|c|a|r <hex>     / dec b|c|a|r <hex>
//!   drain_slices <k>      consumer().consume(k)
//!   drain_bytes <k>       consumer().advance_slices(k)
//!   drain_read <k>        consumer().read(&mut [0; k])
//!   finish
//!   zenc b|c <n>  / zdec b|c <n> [<cut>]   one call on a piece of `n` zero bytes, `n` up to > 2^32
//!                                   (right after `params`; ends the run; see `zeros.rs`)
//! Byte strings are hex, or the compact tokens of `util::from_hex` (`*41x65536`, parts joined by `+`).
//! A decoder run continues after `dec` reported an error: `Decoder::decode` leaves the object
//! usable (in `InitialState`, over the same iovec), so later `dec` / drain / `finish` ops act on
//! it; the oracle then judges the input fed since the last error against the output produced
//! since then ("after an error the decoder behaves like a fresh decoder").
//! After executing `enc`/`dec`/a drain the executor prints, besides the `O`
//! line, the line `I seen <bytes drained> <bytes in stable_prefix()>`: slice
//! boundaries are structural, so the abstract model cannot predict these two
//! numbers; it is told them and checks what they imply (which bytes left, and
//! that nothing unstable was exposed).  `seen` lines in the *input* (a replayed
//! transcript) are ignored.
//! (`StepOut` has no field for post-execution `I` lines, so the line rides on the
//! observation string: `"<obs>\nI seen <n> <rs>"`, which `main.rs` prints as the
//! `O` line followed by the `I` line.  `tools/checklib.py` then sees it as one
//! more op of the case, which is what replay and shrinking need.)
//!
//! The direct oracle is independent of the Lean model: a reference codec
//! (`refcodec`) with literal production constants, and the real codec run
//! again in other ways (one call; other segmentations).
mod gen;
mod real;
mod refcodec;
mod zeros;

use crate::util::*;
use real::*;
use refcodec::*;
use std::panic::{catch_unwind, AssertUnwindSafe};

fn first_diff(a: &[u8], b: &[u8]) -> usize {
    a.iter().zip(b.iter()).position(|(x, y)| x != y).unwrap_or(a.len().min(b.len()))
}

fn len_class(n: usize) -> &'static str {
    match n {
        0..=3 => "0_3",
        4..=64 => "4_64",
        65..=249 => "65_249",
        250..=256 => "250_256",
        257..=4096 => "257_4k",
        4097..=63999 => "4k_64k",
        64000..=64300 => "64000_64300",
        64301..=129000 => "64k_129k",
        _ => "gt_129k",
    }
}

/// A snapshot of what the consumer exposed after an op: `(bytes drained before,
/// stable bytes, hash of the stable bytes)`; checked against the final output.
type Snap = (usize, usize, u64);

fn check_snaps(full: &[u8], snaps: &[Snap], who: &str) -> Option<String> {
    for (i, (start, len, h)) in snaps.iter().enumerate() {
        if start + len > full.len() || fnv(&full[*start..start + len]) != *h {
            return Some(format!(
                "C09 {}: the bytes exposed after op {} (offset {}, {} bytes) are not a part of the final output",
                who, i, start, len
            ));
        }
    }
    None
}

/// Deterministic randomness for the oracle's own re-runs.
fn oracle_rng(bytes: &[u8], salt: u64) -> Rng {
    Rng::new(fnv(bytes) ^ salt.wrapping_mul(0x9E37_79B9_7F4A_7C15))
}

const METHODS: [&str; 4] = ["b", "c", "a", "r"];
/// encoder only: S / T = `ZeroCopySink::append_borrow` / `append_copy` through `dyn ZeroCopySink`
const ENC_METHODS: [&str; 6] = ["b", "c", "a", "r", "S", "T"];

/// Real decoder on `wire`: one `decode` call (`plan = None`) or a random
/// segmentation with mixed methods and interleaved drains.
fn real_decode(l: Limits, wire: &[u8], plan: Option<&mut Rng>) -> Result<Vec<u8>, String> {
    let mut bufs = BufStore::default();
    let res = (|| {
        let mut dec = RealDec::new(l).ok_or("limits rejected")?;
        let mut out = Vec::new();
        let fe = |e: FeedErr| match e {
            FeedErr::Dec(d) => fmt_dec_err(&d),
            FeedErr::Other(s) => s,
        };
        match plan {
            None => dec.feed("b", bufs.keep(wire.to_vec())).map_err(fe)?,
            Some(rng) => {
                let mut pos = 0;
                while pos < wire.len() {
                    let left = wire.len() - pos;
                    let n = match rng.below(4) {
                        0 => 1,
                        1 => rng.range(1, 4) as usize,
                        2 => rng.range(1, 300) as usize,
                        _ => rng.range(1, left as u64) as usize,
                    }
                    .min(left);
                    let m = *rng.pick(&METHODS);
                    dec.feed(m, bufs.keep(wire[pos..pos + n].to_vec())).map_err(fe)?;
                    pos += n;
                    if rng.chance(1, 3) {
                        let kind = *rng.pick(&["drain_slices", "drain_bytes", "drain_read"]);
                        let k = *rng.pick(&[0usize, 1, 2, 5, 1 << 30]);
                        let (d, _) = drain(&mut dec.consumer(), kind, k).unwrap();
                        out.extend_from_slice(&d);
                    }
                }
            }
        }
        let iov = dec.finish().map_err(|e| fmt_dec_err(&e))?;
        let rest = iov.flatten().map_err(|_| "decoder output has a pending backpatch".to_string())?;
        out.extend_from_slice(&rest);
        drop(iov);
        Ok(out)
    })();
    bufs.clear();
    res
}

/// Real encoder, whole input in one `encode` (borrow) call.
fn real_encode_oneshot(l: Limits, data: &[u8]) -> Result<Vec<u8>, String> {
    let mut bufs = BufStore::default();
    let res = (|| {
        let mut enc = RealEnc::new(l).ok_or("limits rejected")?;
        enc.feed("b", bufs.keep(data.to_vec()))?;
        let iov = enc.finish();
        let out = iov.flatten().map_err(|_| "pending backpatch after finish".to_string());
        drop(iov);
        out
    })();
    bufs.clear();
    res
}

// ---------------------------------------------------------------------------
// encoder family

struct EncRun {
    enc: RealEnc,
    l: Limits,
    payload: Vec<u8>,
    drained: Vec<u8>,
    snaps: Vec<Snap>,
    ops: u64,
}

#[derive(Default)]
pub struct EncExec {
    // field order matters: the encoder goes before the buffers it borrows
    run: Option<EncRun>,
    bufs: BufStore,
}

fn seen_obs(head: &str, s: &Seen, drained: &[u8]) -> String {
    format!(
        "{}size={} drained={} stable={} pending={}\nI seen {} {}",
        head,
        s.size,
        to_hex(drained),
        s.rstable,
        s.pending as u8,
        drained.len(),
        s.rstable
    )
}

/// C01 / C02 / C07 / C09 on one finished encoder run.
fn oracle_enc(l: Limits, payload: &[u8], full: &[u8], pending: bool, snaps: &[Snap], salt: u64) -> Vec<String> {
    let mut v = Vec::new();
    if pending {
        v.push("C07 a size header is still pending after finish".to_string());
    }
    // C07: byte for byte the canonical encoding
    let reference = ref_encode(l, payload);
    if reference.bytes != full {
        v.push(format!(
            "C07 encoder output differs from the canonical encoding at byte {} (real {} bytes, reference {} bytes)",
            first_diff(&reference.bytes, full),
            full.len(),
            reference.bytes.len()
        ));
    }
    // C02: no stuff sequence, split independence, length bound
    if let Some(i) = find_stuff(full) {
        v.push(format!("C02 stuff sequence FE FD at offset {} of the produced bytes", i));
    }
    match real_encode_oneshot(l, payload) {
        Ok(one) => {
            if one != full {
                v.push(format!(
                    "C02 output depends on segmentation / input method / drains: differs from the one-call encoding at byte {}",
                    first_diff(&one, full)
                ));
            }
        }
        Err(e) => v.push(format!("C02 one-call encoding failed: {}", e)),
    }
    let n = payload.len();
    if l.prod {
        let bound = n + 1 + 2 * ((n + 64008 - 1) / 64008);
        if full.len() > bound {
            v.push(format!("C02 {} bytes produced for {} bytes of input, bound is {}", full.len(), n, bound));
        }
    } else {
        let m = l.mi.min(l.ms);
        let bound = n + 1 + 2 * ((n + m - 1) / m);
        if full.len() > bound {
            v.push(format!("C02 {} bytes produced for {} bytes of input, bound for these limits is {}", full.len(), n, bound));
        }
    }
    // exact length: one header byte, plus two per chunk that hit its limit (walk the produced chunks)
    {
        let (mut pos, mut first, mut fulls, mut ok) = (0usize, true, 0usize, true);
        while pos < full.len() {
            let (c, limit) = if first {
                pos += 1;
                (full[pos - 1] as usize, l.mi)
            } else if pos + 2 <= full.len() {
                pos += 2;
                (full[pos - 2] as usize + 253 * full[pos - 1] as usize, l.ms)
            } else {
                ok = false;
                break;
            };
            if c == limit {
                fulls += 1;
            }
            pos += c;
            first = false;
        }
        if ok && pos == full.len() && full.len() != n + 1 + 2 * fulls {
            v.push(format!("C02 {} bytes produced for {} bytes of input with {} full chunks (expected len + 1 + 2*full)", full.len(), n, fulls));
        }
    }
    // C01: the real decoder gives the input back, in one call and under a random plan
    match real_decode(l, full, None) {
        Ok(d) if d == payload => {}
        Ok(d) => v.push(format!("C01 round trip (one decode call) differs at byte {}", first_diff(&d, payload))),
        Err(e) => v.push(format!("C01 round trip (one decode call) rejected: {}", e)),
    }
    let mut rng = oracle_rng(full, salt);
    match real_decode(l, full, Some(&mut rng)) {
        Ok(d) if d == payload => {}
        Ok(d) => v.push(format!("C01 round trip (segmented decode) differs at byte {}", first_diff(&d, payload))),
        Err(e) => v.push(format!("C01 round trip (segmented decode) rejected: {}", e)),
    }
    // C09 (abstract half): everything ever exposed is a part of the final output
    if let Some(s) = check_snaps(full, snaps, "encoder") {
        v.push(s);
    }
    v
}

impl Exec for EncExec {
    fn step(&mut self, w: &[&str]) -> StepOut {
        match w {
            ["seen", ..] => StepOut::default(),
            // the public `hcobs::find_stuff_sequence`, called directly (track apigaps)
            ["find", hex] => {
                let Some(bytes) = from_hex(hex) else { return StepOut::bad() };
                let got = hcobs::find_stuff_sequence(&bytes);
                let mut so = StepOut::obs(format!("find={}", got.map(|i| i.to_string()).unwrap_or("none".into())));
                let want = (0..bytes.len().saturating_sub(1)).find(|i| bytes[*i] == 0xFE && bytes[*i + 1] == 0xFD);
                if got != want {
                    so.violations.push(format!("C02 find_stuff_sequence returned {:?}, the first FE FD is at {:?}", got, want));
                    so.violations.push(format!("C07 find_stuff_sequence returned {:?}, the first FE FD is at {:?}", got, want));
                }
                so.tags.push(if got.is_some() { "find_some".into() } else { "find_none".into() });
                so
            }
            ["params", rest @ ..] => {
                self.run = None;
                self.bufs.clear();
                let Some(l) = Limits::parse(rest) else { return StepOut::bad() };
                let Some(enc) = RealEnc::new(l) else { return StepOut::bad() };
                self.run = Some(EncRun { enc, l, payload: vec![], drained: vec![], snaps: vec![], ops: 0 });
                let mut so = StepOut::obs("params ok");
                so.tags.push(if l.prod { "enc_params_prod".into() } else { "enc_params_custom".into() });
                so
            }
            ["enc", m, hex] => {
                let Some(bytes) = from_hex(hex) else { return StepOut::bad() };
                if !ENC_METHODS.contains(m) {
                    return StepOut::bad();
                }
                let Some(run) = self.run.as_mut() else { return StepOut::bad() };
                run.payload.extend_from_slice(&bytes);
                run.ops += 1;
                let data = self.bufs.keep(bytes);
                let mut so = StepOut::default();
                if let Err(e) = run.enc.feed(m, data) {
                    // the arena read failed: harness-level problem, visible as a mismatch
                    return StepOut::obs(format!("feed-failed {}", e));
                }
                let s = observe(&run.enc.consumer());
                run.snaps.push((run.drained.len(), s.rstable, s.stable_hash));
                so.obs.push(seen_obs("", &s, &[]));
                so.tags.push(format!("enc_method_{}", m));
                so
            }
            [kind @ ("drain_slices" | "drain_bytes" | "drain_read"), k] => {
                let Ok(k) = k.parse::<usize>() else { return StepOut::bad() };
                let Some(run) = self.run.as_mut() else { return StepOut::bad() };
                let mut so = StepOut::default();
                let (d, complaint) = drain(&mut run.enc.consumer(), kind, k).unwrap();
                if let Some(c) = complaint {
                    so.violations.push(format!("C09 {}", c));
                }
                run.drained.extend_from_slice(&d);
                let s = observe(&run.enc.consumer());
                run.snaps.push((run.drained.len(), s.rstable, s.stable_hash));
                so.obs.push(seen_obs("", &s, &d));
                so.tags.push(format!("enc_{}{}", kind, if d.is_empty() { "_nothing" } else { "" }));
                so
            }
            ["zenc", m @ ("b" | "c"), n, rest @ ..] if rest.is_empty() || *rest == ["fe"] => {
                let Ok(n) = n.parse::<usize>() else { return StepOut::bad() };
                let fe = !rest.is_empty();
                if fe && n > zeros::FE_MAX {
                    return StepOut::bad();
                }
                // only on a fresh encoder
                match self.run.as_ref() {
                    Some(r) if r.ops == 0 && r.snaps.is_empty() => {}
                    _ => return StepOut::bad(),
                }
                let run = self.run.take().unwrap();
                let so = zeros::zenc(run.enc, run.l, &mut self.bufs, m, n, fe);
                self.bufs.clear();
                so
            }
            ["finish"] => {
                let Some(run) = self.run.take() else { return StepOut::bad() };
                let EncRun { enc, l, payload, mut drained, snaps, ops } = run;
                let iov = enc.finish();
                let size = iov.total_size();
                let pending = iov.has_pending_backrefs();
                let rest = match iov.flatten() {
                    Ok(v) => v,
                    Err(v) => v,
                };
                drop(iov);
                self.bufs.clear();
                let mut so = StepOut::obs(format!("finish size={} pending={} spec=1 rest={}", size, pending as u8, to_hex(&rest)));
                drained.extend_from_slice(&rest);
                so.violations = oracle_enc(l, &payload, &drained, pending, &snaps, ops);
                so.tags.push(format!("enc_len_{}", len_class(payload.len())));
                let stuffy = payload.iter().filter(|b| **b == 0xFD || **b == 0xFE).count();
                let pct = if payload.is_empty() { 0 } else { stuffy * 100 / payload.len() };
                so.tags.push(format!(
                    "enc_fefd_pct_{}",
                    match pct {
                        0 => "0",
                        1..=9 => "1_9",
                        10..=49 => "10_49",
                        50..=89 => "50_89",
                        _ => "90_100",
                    }
                ));
                let r = ref_encode(l, &payload);
                so.tags.push(format!(
                    "enc_chunks_{}",
                    match r.headers.len() {
                        1 => "1",
                        2 => "2",
                        3..=5 => "3_5",
                        _ => "6plus",
                    }
                ));
                if r.full_chunks > 0 {
                    so.tags.push("enc_has_full_chunk".into());
                }
                so
            }
            _ => StepOut::bad(),
        }
    }
    fn flush_before(&self, w: &[&str]) -> bool {
        matches!(w, ["zenc", ..])
    }
}

impl Drop for EncExec {
    fn drop(&mut self) {
        self.run = None;
        self.bufs.clear();
    }
}

pub struct HcobsEncFamily;

impl Family for HcobsEncFamily {
    fn name(&self) -> &'static str {
        "hcobs_enc"
    }
    fn new_exec(&self) -> Box<dyn Exec> {
        Box::new(EncExec::default())
    }
    fn enumerated(&self, thorough: bool) -> Vec<Vec<String>> {
        gen::enc_enumerated(thorough)
    }
    fn gen_case(&self, rng: &mut Rng, idx: u64, thorough: bool) -> Vec<String> {
        gen::enc_case(rng, idx, thorough)
    }
}

// ---------------------------------------------------------------------------
// decoder family

struct DecRun {
    dec: RealDec,
    l: Limits,
    /// bytes fed since `params` or since the last call that returned `Err`
    input: Vec<u8>,
    drained: Vec<u8>,
    snaps: Vec<Snap>,
    /// number of output bytes (drained + exposed) when the last failed call returned
    base: usize,
    /// calls that returned `Err` so far
    errors: usize,
    /// any `dec` op so far (for `zdec`)
    fed: bool,
}

#[derive(Default)]
pub struct DecExec {
    run: Option<DecRun>,
    bufs: BufStore,
}

/// C07 on one decoder message (the input fed since `params` / since the last failed call) that
/// ended with `verdict` (`Some(the output bytes of this message)` = accepted).  `produced` =
/// everything the decoder object has output so far.  `after_errors` > 0: the object had returned
/// `Err` before this message, and must nevertheless behave like a fresh decoder.
fn oracle_dec(l: Limits, input: &[u8], verdict: Option<&[u8]>, snaps: &[Snap], produced: &[u8], after_errors: usize) -> Vec<String> {
    let mut v = oracle_dec_inner(l, input, verdict, snaps, produced);
    if after_errors > 0 {
        for m in v.iter_mut() {
            m.push_str(&format!(" (decoder reused after {} failed call(s))", after_errors));
        }
    }
    v
}

fn oracle_dec_inner(l: Limits, input: &[u8], verdict: Option<&[u8]>, snaps: &[Snap], produced: &[u8]) -> Vec<String> {
    let mut v = Vec::new();
    let reference = ref_decode(l, input);
    match (verdict, &reference) {
        (Some(got), Some(want)) => {
            if got != &want[..] {
                v.push(format!("C07 decoder accepted but returned other bytes than the format defines (first difference at {})", first_diff(got, want)));
            }
        }
        (Some(_), None) => v.push("C07 decoder accepted an ill-formed chunk sequence".to_string()),
        (None, Some(_)) => v.push("C07 decoder rejected a well-formed chunk sequence".to_string()),
        (None, None) => {}
    }
    // independence of the segmentation: the same bytes in one call
    let one = real_decode(l, input, None).ok();
    match (verdict, &one) {
        (Some(a), Some(b)) if a == &b[..] => {}
        (None, None) => {}
        _ => v.push("C07 decoder verdict / bytes depend on how the input was split across calls".to_string()),
    }
    if let Some(s) = check_snaps(produced, snaps, "decoder") {
        v.push(s);
    }
    v
}

impl Exec for DecExec {
    fn step(&mut self, w: &[&str]) -> StepOut {
        match w {
            ["seen", ..] => StepOut::default(),
            ["params", rest @ ..] => {
                self.run = None;
                self.bufs.clear();
                let Some(l) = Limits::parse(rest) else { return StepOut::bad() };
                let Some(dec) = RealDec::new(l) else { return StepOut::bad() };
                self.run = Some(DecRun { dec, l, input: vec![], drained: vec![], snaps: vec![], base: 0, errors: 0, fed: false });
                let mut so = StepOut::obs("params ok");
                so.tags.push(if l.prod { "dec_params_prod".into() } else { "dec_params_custom".into() });
                so
            }
            ["dec", m, hex] => {
                let Some(bytes) = from_hex(hex) else { return StepOut::bad() };
                if !METHODS.contains(m) {
                    return StepOut::bad();
                }
                let Some(run) = self.run.as_mut() else { return StepOut::bad() };
                run.input.extend_from_slice(&bytes);
                run.fed = true;
                let data = self.bufs.keep(bytes);
                let mut so = StepOut::default();
                so.tags.push(format!("dec_method_{}", m));
                if run.errors > 0 {
                    so.tags.push("dec_call_after_error".into());
                }
                let res = catch_unwind(AssertUnwindSafe(|| run.dec.feed(m, data)));
                match res {
                    Err(_) => {
                        so.violations.push("C07 decoder panicked".to_string());
                        so.obs.push("panic".into());
                        // the decoder may be in any state: leak it rather than drop it
                        if let Some(r) = self.run.take() {
                            std::mem::forget(r);
                        }
                        so
                    }
                    Ok(Ok(())) => {
                        let s = observe(&run.dec.consumer());
                        run.snaps.push((run.drained.len(), s.rstable, s.stable_hash));
                        if s.rstable != s.size || s.pending {
                            so.violations.push("C09 decoder output is not immediately consumable".to_string());
                        }
                        so.obs.push(seen_obs("ok ", &s, &[]));
                        so
                    }
                    Ok(Err(FeedErr::Other(e))) => StepOut::obs(format!("feed-failed {}", e)),
                    Ok(Err(FeedErr::Dec(e))) => {
                        let s = observe(&run.dec.consumer());
                        so.obs.push(seen_obs(&format!("err {} spec=1 ", fmt_dec_err(&e)), &s, &[]));
                        so.tags.push(format!("dec_err_{}", fmt_dec_err(&e).split(' ').next().unwrap()));
                        let mut produced = run.drained.clone();
                        produced.extend_from_slice(&stable_bytes(&run.dec.consumer()));
                        if s.rstable != s.size || s.pending {
                            so.violations.push("C09 decoder output is not immediately consumable (after a failed call)".to_string());
                        }
                        if produced.len() < run.base {
                            so.violations.push("C07 a failed decode call removed output".to_string());
                        }
                        so.violations.extend(oracle_dec(run.l, &run.input, None, &run.snaps, &produced, run.errors));
                        // the object stays usable: what follows is a new message for a decoder in
                        // its initial state, appended to the output so far
                        run.snaps.push((run.drained.len(), s.rstable, s.stable_hash));
                        run.input.clear();
                        run.base = produced.len();
                        run.errors += 1;
                        so
                    }
                }
            }
            [kind @ ("drain_slices" | "drain_bytes" | "drain_read"), k] => {
                let Ok(k) = k.parse::<usize>() else { return StepOut::bad() };
                let Some(run) = self.run.as_mut() else { return StepOut::bad() };
                let mut so = StepOut::default();
                let (d, complaint) = drain(&mut run.dec.consumer(), kind, k).unwrap();
                if let Some(c) = complaint {
                    so.violations.push(format!("C09 {}", c));
                }
                run.drained.extend_from_slice(&d);
                let s = observe(&run.dec.consumer());
                run.snaps.push((run.drained.len(), s.rstable, s.stable_hash));
                so.obs.push(seen_obs("", &s, &d));
                so.tags.push(format!("dec_{}{}", kind, if d.is_empty() { "_nothing" } else { "" }));
                so
            }
            ["zdec", m @ ("b" | "c"), n, rest @ ..] if rest.len() <= 1 => {
                let Ok(n) = n.parse::<usize>() else { return StepOut::bad() };
                let cut = match rest {
                    [] => 1usize,
                    [c] => match c.parse::<usize>() {
                        Ok(c) if c >= 1 => c,
                        _ => return StepOut::bad(),
                    },
                    _ => return StepOut::bad(),
                };
                // only on a fresh decoder
                match self.run.as_ref() {
                    Some(r) if !r.fed && r.snaps.is_empty() => {}
                    _ => return StepOut::bad(),
                }
                let run = self.run.take().unwrap();
                let so = zeros::zdec(run.dec, run.l, &mut self.bufs, m, n, cut);
                self.bufs.clear();
                so
            }
            ["finish"] => {
                let Some(run) = self.run.take() else { return StepOut::bad() };
                let DecRun { mut dec, l, input, drained, snaps, base, errors, fed: _ } = run;
                let size = dec.consumer().total_size();
                let rest = stable_bytes(&dec.consumer());
                let mut produced = drained;
                produced.extend_from_slice(&rest);
                let mut so = StepOut::default();
                let res = catch_unwind(AssertUnwindSafe(move || match dec.finish() {
                    Ok(iov) => {
                        let f = iov.flatten().ok();
                        drop(iov);
                        Ok(f)
                    }
                    Err(e) => Err(e),
                }));
                self.bufs.clear();
                let verdict = match res {
                    Err(_) => {
                        so.violations.push("C07 decoder panicked in finish".to_string());
                        so.obs.push("panic".into());
                        return so;
                    }
                    Ok(Ok(flat)) => {
                        if flat.as_deref() != Some(&rest[..]) {
                            so.violations.push("C09 finish returned other bytes than the consumer exposed just before".to_string());
                        }
                        so.obs.push(format!("finish ok spec=1 size={} rest={}", size, to_hex(&rest)));
                        so.tags.push("dec_accepted".into());
                        true
                    }
                    Ok(Err(e)) => {
                        so.obs.push(format!("finish err {} spec=1 size={} rest={}", fmt_dec_err(&e), size, to_hex(&rest)));
                        so.tags.push(format!("dec_err_{}", fmt_dec_err(&e)));
                        false
                    }
                };
                if errors > 0 {
                    so.tags.push(if verdict { "dec_accepted_after_error".into() } else { "dec_rejected_after_error".into() });
                }
                let base = base.min(produced.len());
                so.violations.extend(oracle_dec(l, &input, if verdict { Some(&produced[base..]) } else { None }, &snaps, &produced, errors));
                so.tags.push(format!("dec_len_{}", len_class(input.len())));
                so
            }
            _ => StepOut::bad(),
        }
    }
    fn flush_before(&self, w: &[&str]) -> bool {
        matches!(w, ["zdec", ..])
    }
}

impl Drop for DecExec {
    fn drop(&mut self) {
        self.run = None;
        self.bufs.clear();
    }
}

pub struct HcobsDecFamily;

impl Family for HcobsDecFamily {
    fn name(&self) -> &'static str {
        "hcobs_dec"
    }
    fn new_exec(&self) -> Box<dyn Exec> {
        Box::new(DecExec::default())
    }
    fn enumerated(&self, thorough: bool) -> Vec<Vec<String>> {
        gen::dec_enumerated(thorough)
    }
    fn gen_case(&self, rng: &mut Rng, idx: u64, thorough: bool) -> Vec<String> {
        gen::dec_case(rng, idx, thorough)
    }
}

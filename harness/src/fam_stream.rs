//! Families `chunker` (C08: `StreamChunker::pump`) and `reader` (C06:
//! `StreamReader::next_record_bytes`) over scripted readers.
//!
//! Ops (both families)
//!   stream <hex>     bytes the reader has left to deliver (replaces the source)
//!   script <evs>     scripted answers: d<k> | e | x<kind>, each optionally `*<n>`; `-` = none
//!   reset            fresh chunker / reader state (and an empty reader)
//! chunker
//!   block <n>        io_block_size for the following pumps
//!   pump             one StreamChunker::pump
//!   drain <max> <extra>   pump until the first Eof (at most <max> pumps), then <extra> more
//! reader
//!   block none|<n>
//!   judge keepgoing | judge std <max> <limit|none> | judge list <k|s|x letters>
//!   next             one next_record_bytes
//!   nextall <max> <extra> next until the first None / error (at most <max> calls), then <extra> more
use crate::fam_readn::{kind_index, Call, Ev, ScriptedReader};
use crate::util::*;
use hcobs::{Chunk, StreamAction, StreamChunker, StreamReader};
use owning_iovec::ByteArena;

// `Clone` / `Default` of the chunker and the reader (track apileft)
#[path = "fam_stream_clone.rs"]
mod clone_ops;

const FE: u8 = 0xFE;
const FD: u8 = 0xFD;

// ------------------------------------------------------------------ scripts

fn parse_ev1(t: &str) -> Option<Ev> {
    if t == "e" {
        Some(Ev::Eof)
    } else if let Some(n) = t.strip_prefix('d') {
        n.parse().ok().map(Ev::Deliver)
    } else if let Some(n) = t.strip_prefix('x') {
        n.parse().ok().map(Ev::Err)
    } else {
        None
    }
}

pub fn parse_script_rep(s: &str) -> Option<Vec<Ev>> {
    if s == "-" {
        return Some(vec![]);
    }
    let mut out = Vec::new();
    for t in s.split(',') {
        let mut it = t.split('*');
        let e = parse_ev1(it.next()?)?;
        match (it.next(), it.next()) {
            (None, _) => out.push(e),
            (Some(n), None) => {
                let n: usize = n.parse().ok()?;
                for _ in 0..n {
                    out.push(e.clone());
                }
            }
            _ => return None,
        }
    }
    Some(out)
}

/// Only short (non-empty) deliveries and `Interrupted`.
fn script_well_behaved(evs: &[Ev]) -> bool {
    evs.iter().all(|e| matches!(e, Ev::Deliver(k) if *k >= 1) || matches!(e, Ev::Err(0)))
}

/// Enough deliveries to hand over the whole source whatever the request sizes.
fn script_sufficient(evs: &[Ev], srclen: usize) -> bool {
    evs.iter().filter(|e| matches!(e, Ev::Deliver(_))).count() >= srclen
}

fn reader_tail(r: &ScriptedReader) -> String {
    let reqs: Vec<usize> = r
        .calls
        .iter()
        .map(|c| match c {
            Call::Delivered(a, _) => *a,
            Call::Failed(a, _) => *a,
        })
        .collect();
    format!(
        " reqs={} left={} srcleft={}",
        nat_list(&reqs),
        r.script.len() - r.next.min(r.script.len()),
        r.src.len() - r.pos
    )
}

fn reader_tail_noreqs(r: &ScriptedReader) -> String {
    format!(
        " left={} srcleft={}",
        r.script.len() - r.next.min(r.script.len()),
        r.src.len() - r.pos
    )
}

// ------------------------------------------------------------------ reference implementations (oracle)

/// Positions of the `FE FD` occurrences, scanning left to right.
pub fn ref_occurrences(s: &[u8]) -> Vec<usize> {
    let mut v = Vec::new();
    let mut i = 0;
    while i + 1 < s.len() {
        if s[i] == FE && s[i + 1] == FD {
            v.push(i);
            i += 2;
        } else {
            i += 1;
        }
    }
    v
}

/// The maximal `FE FD`-free pieces with their byte ranges (empty pieces included).
pub fn ref_segments(s: &[u8]) -> Vec<(usize, usize)> {
    let mut v = Vec::new();
    let mut start = 0;
    for p in ref_occurrences(s) {
        v.push((start, p));
        start = p + 2;
    }
    v.push((start, s.len()));
    v
}

/// Reference HCOBS decoder for one delimiter-free segment, written from the
/// format description (production constants as literals).
pub fn ref_decode(seg: &[u8]) -> Option<Vec<u8>> {
    if seg.is_empty() {
        return None;
    }
    let mut out = Vec::new();
    let mut n = seg[0] as usize;
    if n > 252 {
        return None;
    }
    let mut limit = 252usize;
    let mut pos = 1usize;
    loop {
        if pos + n > seg.len() {
            return None;
        }
        out.extend_from_slice(&seg[pos..pos + n]);
        pos += n;
        let short = n < limit;
        if pos == seg.len() {
            return if short { Some(out) } else { None };
        }
        if short {
            out.extend_from_slice(&[FE, FD]);
        }
        if pos + 2 > seg.len() {
            return None;
        }
        let (b0, b1) = (seg[pos] as usize, seg[pos + 1] as usize);
        if b0 >= 253 || b1 >= 253 {
            return None;
        }
        n = b0 + 253 * b1;
        if n > 64008 {
            return None;
        }
        limit = 64008;
        pos += 2;
    }
}

// ------------------------------------------------------------------ chunker

pub struct ChunkerFamily;

#[derive(Clone, Debug, PartialEq)]
enum Seen {
    Sentinel(u64),
    Eof,
    Data(u64, Vec<u8>),
}

struct ChunkerExec {
    chunker: StreamChunker,
    arena: ByteArena,
    reader: ScriptedReader,
    block: usize,
    // oracle shadow state
    delivered: Vec<u8>,
    emitted: Vec<u8>,
    chunks: Vec<Seen>,
    prev_data_last: Option<u8>, // last byte of the previous chunk if it was Data
    oracle_on: bool,            // false once a non-well-behaved script was installed
    // `Clone` (fam_stream_clone.rs): a clone run in lockstep, and originals kept until the end of the case
    fork: Option<clone_ops::ChunkerFork>,
    graveyard: Vec<StreamChunker>,
}

impl ChunkerExec {
    fn new() -> Self {
        ChunkerExec {
            chunker: StreamChunker::default(),
            arena: ByteArena::new(),
            reader: ScriptedReader::new(vec![], vec![]),
            block: 0,
            delivered: vec![],
            emitted: vec![],
            chunks: vec![],
            prev_data_last: None,
            oracle_on: true,
            fork: None,
            graveyard: vec![],
        }
    }

    fn pump_once(&mut self, so: &mut StepOut) -> bool {
        self.reader.calls.clear();
        let res = self.chunker.pump(&mut self.arena, &mut self.reader, self.block);
        let mut last_was_zero_read = false;
        for c in &self.reader.calls {
            match c {
                Call::Delivered(_, b) => {
                    self.delivered.extend_from_slice(b);
                    last_was_zero_read = b.is_empty();
                }
                Call::Failed(_, _) => last_was_zero_read = false,
            }
        }
        let mut is_eof = false;
        let head = match &res {
            Ok(Chunk::Sentinel(off)) => {
                so.tags.push("chunk_sentinel".into());
                self.see(Seen::Sentinel(*off), last_was_zero_read, so);
                format!("sentinel {}", off)
            }
            Ok(Chunk::Eof) => {
                is_eof = true;
                so.tags.push("chunk_eof".into());
                self.see(Seen::Eof, last_was_zero_read, so);
                "eof".to_string()
            }
            Ok(Chunk::Data((off, slice))) => {
                let b = slice.slice().to_vec();
                so.tags.push(if b.len() == 1 { "chunk_data1".into() } else { "chunk_data".into() });
                if b.last() == Some(&FE) {
                    so.tags.push("chunk_data_ends_fe".into());
                }
                self.see(Seen::Data(*off, b.clone()), last_was_zero_read, so);
                format!("data {} {}", off, to_hex(&b))
            }
            Err(e) => {
                so.tags.push("chunk_ioerr".into());
                self.prev_data_last = None;
                format!("ioerr {}", kind_index(e.kind()))
            }
        };
        so.obs.push(format!("{}{}", head, reader_tail(&self.reader)));
        self.lockstep(so);
        is_eof
    }

    /// The property C08 itself, on the real chunk sequence (shadow state only).
    fn see(&mut self, c: Seen, last_was_zero_read: bool, so: &mut StepOut) {
        if !self.oracle_on {
            self.chunks.push(c);
            return;
        }
        let mut bad = |s: String| so.violations.push(format!("C08 {}", s));
        match &c {
            Seen::Data(off, b) => {
                if b.is_empty() {
                    bad("empty Data chunk".into());
                }
                if b.windows(2).any(|w| w == [FE, FD]) {
                    bad(format!("Data chunk contains FE FD: {}", to_hex(b)));
                }
                if self.prev_data_last == Some(FE) && b.first() == Some(&FD) {
                    bad(format!("FE FD straddles two consecutive Data chunks (second ends at {})", off));
                }
                self.emitted.extend_from_slice(b);
                if *off as usize != self.emitted.len() {
                    bad(format!("Data offset {} is not the end position {}", off, self.emitted.len()));
                }
                self.prev_data_last = b.last().copied();
            }
            Seen::Sentinel(off) => {
                self.emitted.extend_from_slice(&[FE, FD]);
                if *off as usize != self.emitted.len() {
                    bad(format!("Sentinel offset {} is not the end position {}", off, self.emitted.len()));
                }
                self.prev_data_last = None;
            }
            Seen::Eof => {
                if self.emitted.len() != self.delivered.len() {
                    bad(format!(
                        "Eof with {} of {} delivered bytes emitted",
                        self.emitted.len(),
                        self.delivered.len()
                    ));
                }
                if !last_was_zero_read {
                    bad("Eof although the reader's last answer was not end-of-file".into());
                }
                self.prev_data_last = None;
            }
        }
        // tiling so far: the emitted bytes are a prefix of what the reader delivered
        if self.emitted.len() > self.delivered.len()
            || self.emitted[..] != self.delivered[..self.emitted.len()]
        {
            bad(format!("chunks do not tile the stream at position {}", self.emitted.len()));
        }
        // at Eof: compare with the reference splitter (every occurrence is a Sentinel, the data
        // runs are the maximal FE FD-free segments)
        if c == Seen::Eof {
            let mut sent = Vec::new();
            let mut runs: Vec<(usize, usize)> = Vec::new();
            let mut start = 0usize;
            let mut pos = 0usize;
            for ch in &self.chunks {
                match ch {
                    Seen::Sentinel(_) => {
                        sent.push(pos);
                        runs.push((start, pos));
                        pos += 2;
                        start = pos;
                    }
                    Seen::Data(_, b) => pos += b.len(),
                    Seen::Eof => {}
                }
            }
            runs.push((start, pos));
            if sent != ref_occurrences(&self.delivered) {
                bad("Sentinel positions differ from the FE FD occurrences of the stream".into());
            }
            if runs != ref_segments(&self.delivered) {
                bad("data runs differ from the FE FD-free segments of the stream".into());
            }
        }
        self.chunks.push(c);
    }
}

impl Exec for ChunkerExec {
    fn step(&mut self, w: &[&str]) -> StepOut {
        if matches!(w.first().copied(), Some("stream" | "script" | "reset")) {
            self.fork = None; // the lockstep clone has its own copy of the reader
        }
        if let Some(r) = self.clone_step(w) {
            return r;
        }
        match w {
            ["reset"] => {
                *self = ChunkerExec::new();
                StepOut::obs("ok")
            }
            ["stream", h] => {
                let Some(b) = from_hex(h) else { return StepOut::bad() };
                self.reader.src = b;
                self.reader.pos = 0;
                StepOut::obs("ok")
            }
            ["script", s] => {
                let Some(evs) = parse_script_rep(s) else { return StepOut::bad() };
                if !script_well_behaved(&evs) {
                    self.oracle_on = false;
                }
                self.reader.script = evs;
                self.reader.next = 0;
                StepOut::obs("ok")
            }
            ["block", n] => {
                let Ok(n) = n.parse::<usize>() else { return StepOut::bad() };
                self.block = n;
                StepOut::obs("ok")
            }
            ["pump"] => {
                let mut so = StepOut::default();
                self.pump_once(&mut so);
                so
            }
            ["drain", max, extra] => {
                let (Ok(max), Ok(extra)) = (max.parse::<usize>(), extra.parse::<usize>()) else {
                    return StepOut::bad();
                };
                let mut so = StepOut::default();
                let mut n = 0;
                let mut eof = false;
                while n < max && !eof {
                    eof = self.pump_once(&mut so);
                    n += 1;
                }
                for _ in 0..extra {
                    self.pump_once(&mut so);
                }
                so
            }
            _ => StepOut::bad(),
        }
    }
}

// ------------------------------------------------------------------ reader

pub struct ReaderFamily;

#[derive(Clone, Debug)]
enum JudgeSpec {
    KeepGoing,
    Std(usize, Option<u64>),
    List(Vec<StreamAction>, usize),
}

#[derive(Clone, Debug, PartialEq)]
enum Got {
    Some(Vec<u8>, u64, u64, u64), // bytes, start, end, last_sentinel
    None(u64),
    IoErr,
}

struct ReaderExec {
    rd: StreamReader,
    reader: ScriptedReader,
    block: Option<usize>,
    judge: JudgeSpec,
    // oracle bookkeeping
    results: Vec<Got>,
    oracle_on: bool,
    streams_set: usize,
    scripts_set: usize,
    started: bool,
    // `Clone` (fam_stream_clone.rs)
    fork: Option<clone_ops::ReaderFork>,
    graveyard: Vec<StreamReader>,
}

impl ReaderExec {
    fn new() -> Self {
        ReaderExec {
            rd: StreamReader::new(),
            reader: ScriptedReader::new(vec![], vec![]),
            block: None,
            judge: JudgeSpec::KeepGoing,
            results: vec![],
            oracle_on: true,
            streams_set: 0,
            scripts_set: 0,
            started: false,
            fork: None,
            graveyard: vec![],
        }
    }

    /// returns true when the call returned None or an error
    fn next_once(&mut self, so: &mut StepOut) -> bool {
        self.started = true;
        self.reader.calls.clear();
        let judge = &mut self.judge;
        let res = self.rd.next_record_bytes(
            &mut self.reader,
            |range: std::ops::Range<u64>, iov: owning_iovec::ConsumingIovec<'_>| match judge {
                JudgeSpec::KeepGoing => StreamAction::KeepGoing,
                JudgeSpec::Std(max, limit) => {
                    // chunk_judge is an `impl Fn`; call the real one.
                    (StreamReader::chunk_judge(*max, *limit))(range, iov)
                }
                JudgeSpec::List(vs, i) => {
                    let v = vs.get(*i).copied().unwrap_or(StreamAction::KeepGoing);
                    *i += 1;
                    v
                }
            },
            self.block,
        );
        let got = match res {
            Ok(Some((iov, range))) => {
                let bytes = match iov.flatten() {
                    Ok(b) => b,
                    Err(b) => {
                        so.violations.push("C06 returned iovec has pending backpatches".into());
                        b
                    }
                };
                // A caller may also DRAIN the record it was handed (it gets a `&mut OwningIovec`):
                // every other record is consumed through the consumer view, half of it or all of
                // it, before the next call.  The reader clears and reuses that iovec, so nothing of
                // this may leak into later records (sizes seen by the judge, ranges, contents).
                let k = self.results.len();
                if k % 2 == 1 && !bytes.is_empty() {
                    let n = if k % 4 == 1 { bytes.len() } else { (bytes.len() + 1) / 2 };
                    let drained = iov.consumer().advance_slices(n);
                    if drained != n {
                        so.violations.push(format!("C06 draining the returned record: advance_slices({}) removed {}", n, drained));
                    }
                }
                (Some(bytes), range.start, range.end, false)
            }
            Ok(None) => (None, 0, 0, false),
            Err(e) => (None, kind_index(e.kind()) as u64, 0, true),
        };
        let ls = self.rd.last_sentinel_offset();
        let tail = reader_tail_noreqs(&self.reader);
        let ended = match got {
            (Some(b), a, e, _) => {
                so.obs.push(format!("some {} {}..{} last_sentinel={}{}", to_hex(&b), a, e, ls, tail));
                so.tags.push("next_some".into());
                self.results.push(Got::Some(b, a, e, ls));
                false
            }
            (None, _, _, false) => {
                so.obs.push(format!("none last_sentinel={}{}", ls, tail));
                so.tags.push("next_none".into());
                self.results.push(Got::None(ls));
                true
            }
            (None, k, _, true) => {
                so.obs.push(format!("ioerr {} last_sentinel={}{}", k, ls, tail));
                so.tags.push("next_ioerr".into());
                self.results.push(Got::IoErr);
                true
            }
        };
        self.lockstep(so);
        ended
    }

    /// The property C06 itself: what a reference splitter + reference decoder
    /// say the calls must have returned (independent of the Lean model).
    fn oracle(&self) -> Vec<String> {
        let mut v = Vec::new();
        if !self.oracle_on || self.streams_set != 1 || self.scripts_set != 1 || self.results.is_empty() {
            return v;
        }
        if !script_well_behaved(&self.reader.script)
            || !script_sufficient(&self.reader.script, self.reader.src.len())
        {
            return v;
        }
        let (max, limit) = match &self.judge {
            JudgeSpec::KeepGoing => (usize::MAX, u64::MAX),
            JudgeSpec::Std(m, l) => (*m, l.unwrap_or(u64::MAX)),
            JudgeSpec::List(..) => return v,
        };
        let s = &self.reader.src;
        let segs = ref_segments(s);
        let occ = ref_occurrences(s);
        let mut expected: Vec<Got> = Vec::new();
        let mut stopped = false;
        for (i, (a, b)) in segs.iter().enumerate() {
            if *a as u64 >= limit {
                stopped = true;
                break;
            }
            if a == b {
                continue;
            }
            if let Some(d) = ref_decode(&s[*a..*b]) {
                if d.len() <= max {
                    // the sentinel that ended the record, else the one before it
                    let ls = if i + 1 < segs.len() { *b } else if *a >= 2 { *a - 2 } else { 0 };
                    expected.push(Got::Some(d, *a as u64, *b as u64, ls as u64));
                }
            }
        }
        let mut bad = |s: String| v.push(format!("C06 {}", s));
        let n_some = self.results.iter().take_while(|g| matches!(g, Got::Some(..))).count();
        for (i, g) in self.results.iter().enumerate() {
            if i < n_some {
                match expected.get(i) {
                    None => bad(format!("call {} returned a record but only {} are expected", i, expected.len())),
                    Some(e) if e != g => bad(format!("call {}: got {:?}, expected {:?}", i, g, e)),
                    _ => {}
                }
            } else {
                match g {
                    Got::None(ls) => {
                        if i == n_some && n_some < expected.len() {
                            bad(format!("end of stream after {} of {} expected records", n_some, expected.len()));
                        }
                        if i == n_some && !stopped {
                            let want = occ.last().copied().unwrap_or(0) as u64;
                            if *ls != want {
                                bad(format!("last_sentinel_offset {} at end of stream, expected {}", ls, want));
                            }
                        }
                    }
                    Got::Some(..) => bad(format!("call {} returned a record after end of stream", i)),
                    Got::IoErr => bad(format!("call {} failed although the reader never fails hard", i)),
                }
            }
        }
        v
    }
}

fn parse_verdicts(s: &str) -> Option<Vec<StreamAction>> {
    if s == "-" {
        return Some(vec![]);
    }
    s.chars()
        .map(|c| match c {
            'k' => Some(StreamAction::KeepGoing),
            's' => Some(StreamAction::SkipRecord),
            'x' => Some(StreamAction::Stop),
            _ => None,
        })
        .collect()
}

impl Exec for ReaderExec {
    fn step(&mut self, w: &[&str]) -> StepOut {
        if matches!(w.first().copied(), Some("stream" | "script" | "judge" | "reset")) {
            self.fork = None; // the lockstep clone has its own copy of the reader and of the judge
        }
        if let Some(r) = self.clone_step(w) {
            return r;
        }
        match w {
            ["reset"] => {
                let mut so = StepOut::obs("ok");
                so.violations = self.oracle();
                *self = ReaderExec::new();
                so
            }
            ["stream", h] => {
                let Some(b) = from_hex(h) else { return StepOut::bad() };
                self.reader.src = b;
                self.reader.pos = 0;
                self.streams_set += 1;
                if self.started {
                    self.oracle_on = false;
                }
                StepOut::obs("ok")
            }
            ["script", s] => {
                let Some(evs) = parse_script_rep(s) else { return StepOut::bad() };
                self.reader.script = evs;
                self.reader.next = 0;
                self.scripts_set += 1;
                if self.started {
                    self.oracle_on = false;
                }
                StepOut::obs("ok")
            }
            ["block", n] => {
                if *n == "none" {
                    self.block = None;
                } else {
                    let Ok(n) = n.parse::<usize>() else { return StepOut::bad() };
                    self.block = Some(n);
                }
                StepOut::obs("ok")
            }
            ["judge", "keepgoing"] => {
                if self.started {
                    self.oracle_on = false;
                }
                self.judge = JudgeSpec::KeepGoing;
                StepOut::obs("ok")
            }
            ["judge", "std", max, limit] => {
                let Ok(max) = max.parse::<usize>() else { return StepOut::bad() };
                let limit = if *limit == "none" {
                    None
                } else {
                    let Ok(l) = limit.parse::<u64>() else { return StepOut::bad() };
                    Some(l)
                };
                if self.started {
                    self.oracle_on = false;
                }
                self.judge = JudgeSpec::Std(max, limit);
                StepOut::obs("ok")
            }
            ["judge", "list", vs] => {
                let Some(vs) = parse_verdicts(vs) else { return StepOut::bad() };
                self.judge = JudgeSpec::List(vs, 0);
                StepOut::obs("ok")
            }
            ["next"] => {
                let mut so = StepOut::default();
                self.next_once(&mut so);
                so
            }
            ["nextall", max, extra] => {
                let (Ok(max), Ok(extra)) = (max.parse::<usize>(), extra.parse::<usize>()) else {
                    return StepOut::bad();
                };
                let mut so = StepOut::default();
                let mut n = 0;
                let mut end = false;
                while n < max && !end {
                    end = self.next_once(&mut so);
                    n += 1;
                }
                for _ in 0..extra {
                    self.next_once(&mut so);
                }
                so
            }
            _ => StepOut::bad(),
        }
    }

    fn finish(&mut self) -> StepOut {
        StepOut { violations: self.oracle(), ..Default::default() }
    }
}

// ------------------------------------------------------------------ generators

fn encode_record(payload: &[u8]) -> Vec<u8> {
    let mut enc = hcobs::Encoder::new();
    enc.encode_copy(payload);
    enc.finish().flatten().expect("no pending backpatch after finish")
}

fn gen_payload(rng: &mut Rng, thorough: bool) -> Vec<u8> {
    let len = match rng.below(20) {
        0 if rng.chance(1, 3) => rng.range(3000, 9000), // buffers larger than any small threshold
        0 => 0,
        1..=11 => rng.range(1, 12),
        12..=15 => rng.range(13, 60),
        16 | 17 => rng.range(248, 258),
        18 => rng.range(500, 700),
        _ => {
            if thorough && rng.chance(1, 16) {
                rng.range(64000, 64020)
            } else {
                rng.range(60, 248)
            }
        }
    } as usize;
    let dense = rng.below(4);
    (0..len)
        .map(|_| match (dense, rng.below(10)) {
            (0, 0..=2) => FE,
            (0, 3..=4) => FD,
            (1, 0) => FE,
            (1, 1) => FD,
            (_, 5) => 0,
            (3, _) => 0x61,
            _ => rng.next() as u8,
        })
        .collect()
}

const GARBAGE: [u8; 10] = [0x00, 0x01, 0x02, 0x03, 0x61, 0xFC, 0xFD, 0xFE, 0xFF, 0xFE];

/// A stream: valid records, delimiters, and every kind of damage.
pub fn gen_stream(rng: &mut Rng, thorough: bool) -> Vec<u8> {
    let mut s = Vec::new();
    let parts = match rng.below(8) {
        0 => 0,
        1 => 1,
        _ => rng.range(2, 7),
    };
    for _ in 0..parts {
        match rng.below(20) {
            0..=8 => s.extend(encode_record(&gen_payload(rng, thorough))),
            9 | 10 => {
                // torn write: a prefix of a valid record
                let r = encode_record(&gen_payload(rng, false));
                let cut = rng.below(r.len() as u64 + 1) as usize;
                s.extend_from_slice(&r[..cut]);
            }
            11 | 12 => {
                // corruption: one byte changed
                let mut r = encode_record(&gen_payload(rng, false));
                let i = rng.below(r.len() as u64) as usize;
                r[i] = match rng.below(4) {
                    0 => FE,
                    1 => FD,
                    2 => r[i] ^ (1 << rng.below(8)),
                    _ => rng.next() as u8,
                };
                s.extend(r);
            }
            13 | 14 => {
                let n = rng.range(1, 6);
                for _ in 0..n {
                    s.push(*rng.pick(&GARBAGE));
                }
            }
            15 => s.extend_from_slice(&[FE, FE, FD]),
            16 => s.extend_from_slice(&[FE, FD, FD]),
            17 => s.push(FE),
            18 => s.push(FD),
            _ => {
                // delimiter run
                for _ in 0..rng.range(1, 3) {
                    s.extend_from_slice(&[FE, FD]);
                }
            }
        }
        // delimiter between parts (sometimes missing, sometimes doubled)
        match rng.below(12) {
            0 => {}
            1 => s.extend_from_slice(&[FE, FD, FE, FD]),
            _ => s.extend_from_slice(&[FE, FD]),
        }
    }
    if rng.chance(1, 3) && !s.is_empty() {
        // the log is cut at an arbitrary byte
        let cut = rng.below(s.len() as u64 + 1) as usize;
        s.truncate(cut);
    }
    s
}

/// A stream whose first delimiter sits on (or one/two bytes around) the first
/// block boundary: a record (or delimiter-free garbage) of `block + delta` bytes,
/// possibly ending in FE, then `FE FD`, then an ordinary stream.
pub fn gen_stream_aligned(rng: &mut Rng, block: usize, thorough: bool) -> Vec<u8> {
    let b = block.max(2);
    if b > 20000 {
        return gen_stream(rng, thorough);
    }
    let k = if b < 64 { rng.range(1, 3) as usize } else { 1 };
    let target = (k * b + 2).saturating_sub(rng.range(0, 4) as usize).max(1);
    let mut s: Vec<u8>;
    if rng.chance(2, 3) {
        // a valid record of exactly `target` encoded bytes, if one exists nearby
        s = Vec::new();
        for l in (target.saturating_sub(9)..target).rev() {
            let mut payload = vec![0x61u8; l];
            if l > 0 && rng.chance(1, 2) {
                payload[l - 1] = FE;
            }
            let r = encode_record(&payload);
            if r.len() == target {
                s = r;
                break;
            }
        }
        if s.is_empty() {
            s = vec![0x61u8; target];
        }
    } else {
        s = (0..target).map(|_| *rng.pick(&[0x00u8, 0x01, 0x61, FE, 0xFF])).collect();
        if rng.chance(1, 2) {
            s[target - 1] = FE;
        }
    }
    match rng.below(6) {
        0 => s.extend_from_slice(&[FE, FE, FD]),
        1 => s.extend_from_slice(&[FE, FD, FD]),
        2 => s.extend_from_slice(&[FD, FE, FD]),
        _ => s.extend_from_slice(&[FE, FD]),
    }
    s.extend(gen_stream(rng, thorough));
    s
}

fn pick_block(rng: &mut Rng, table: &[usize]) -> usize {
    if rng.chance(1, 6) {
        rng.range(0, 8200) as usize
    } else {
        *rng.pick(table)
    }
}

/// A read schedule for `stream`.  Returns the script text.
pub fn gen_script(rng: &mut Rng, stream: &[u8], hard_errors: bool) -> String {
    let mut evs: Vec<String> = Vec::new();
    let n = stream.len();
    if n > 20000 {
        // very long streams: coarse reads only (the model's list-based bookkeeping is quadratic
        // in the number of chunks of one record)
        let k = *rng.pick(&[1000u64, 4096, 5000, 65536, 1 << 20]);
        if rng.chance(1, 2) {
            evs.push("x0".into());
        }
        if hard_errors {
            evs.push(format!("d{}*{}", k, rng.range(0, 3)));
            evs.push(if rng.chance(1, 3) { "e".to_string() } else { format!("x{}", rng.range(1, 5)) });
        }
        evs.push(format!("d{}*{}", k, n + 1));
        return evs.join(",");
    }
    let eintr = rng.below(4); // 0: none, else 1/(2+eintr)
    let push = |evs: &mut Vec<String>, rng: &mut Rng, e: String| {
        if eintr > 0 && rng.chance(1, 2 + eintr) {
            for _ in 0..rng.range(1, 3) {
                evs.push("x0".into());
            }
        }
        evs.push(e);
    };
    match rng.below(8) {
        0 => evs.push(format!("d1*{}", n + 1)),
        1 => evs.push(format!("d2*{}", n + 1)),
        2 => evs.push(format!("d3*{}", n + 1)),
        3 => evs.push(format!("d{}*{}", rng.range(4, 12), n + 1)),
        4 => {} // one big delivery per call (the padding below)
        5 | 6 => {
            // boundaries right after / before every FE and FD (effective when the block is large)
            let mut last = 0usize;
            for (i, b) in stream.iter().enumerate() {
                if (*b == FE || *b == FD) && rng.chance(2, 3) {
                    let cut = if rng.chance(1, 2) { i + 1 } else { i };
                    if cut > last {
                        push(&mut evs, rng, format!("d{}", cut - last));
                        last = cut;
                    }
                }
            }
        }
        _ => {
            let mut left = n;
            while left > 0 {
                let k = rng.range(1, 5) as usize;
                push(&mut evs, rng, format!("d{}", k));
                left = left.saturating_sub(k);
            }
        }
    }
    if hard_errors {
        // a hard error or a premature zero-byte read somewhere
        let pos = rng.below(evs.len() as u64 + 1) as usize;
        let e = if rng.chance(1, 3) { "e".to_string() } else { format!("x{}", rng.range(1, 5)) };
        evs.insert(pos, e);
    }
    // pad: whatever the request sizes, the whole stream gets delivered
    evs.push(format!("d{}*{}", *rng.pick(&[1u64, 2, 3, 5, 64, 100000]), n + 1));
    evs.join(",")
}

const CHUNKER_BLOCKS: [usize; 12] = [0, 1, 2, 3, 4, 7, 64, 4096, 2, 3, 100000, 524288];

fn all_strings(alphabet: &[u8], maxlen: usize) -> Vec<Vec<u8>> {
    let mut all: Vec<Vec<u8>> = vec![vec![]];
    let mut frontier: Vec<Vec<u8>> = vec![vec![]];
    for _ in 0..maxlen {
        let mut next = Vec::new();
        for s in &frontier {
            for a in alphabet {
                let mut t = s.clone();
                t.push(*a);
                next.push(t);
            }
        }
        all.extend(next.iter().cloned());
        frontier = next;
    }
    all
}

/// `pump` never panics (C08): every op may run while the thread is unwinding (track traits).
impl crate::unwind::Probe for ChunkerExec {
    fn unwind_safe(&self, _w: &[&str]) -> bool {
        true
    }
}

/// `next_record_bytes` trips a documented assertion when the judge answers SkipRecord on an empty
/// range: `next` / `nextall` are wrapped only under the always-KeepGoing judge.
impl crate::unwind::Probe for ReaderExec {
    fn unwind_safe(&self, w: &[&str]) -> bool {
        match w {
            ["next"] | ["nextall", ..] => matches!(self.judge, JudgeSpec::KeepGoing),
            _ => true,
        }
    }
}

impl Family for ChunkerFamily {
    fn name(&self) -> &'static str {
        "chunker"
    }

    fn new_exec(&self) -> Box<dyn Exec> {
        crate::unwind::UnwindExec::boxed(ChunkerExec::new)
    }

    /// Every stream over {FE, FD, 01, 61} up to length 5 (6 thorough) x block sizes
    /// {0,1,2,3,4} x read sizes {1,2,3,everything}; plus the F1 reproducer.
    fn enumerated(&self, thorough: bool) -> Vec<Vec<String>> {
        let mut cases = Vec::new();
        let mut f1 = Vec::new();
        for b in [0usize, 1, 2, 3] {
            f1.push("reset".to_string());
            f1.push("stream 0161fefd026263".to_string());
            f1.push("script d1*8".to_string());
            f1.push(format!("block {}", b));
            f1.push("drain 12 2".to_string());
        }
        cases.push(f1);
        for s in all_strings(&[FE, FD, 0x01, 0x61], if thorough { 6 } else { 5 }) {
            let mut ops = Vec::new();
            for b in [0usize, 1, 2, 3, 4] {
                for d in [1usize, 2, 3, 1000] {
                    ops.push("reset".to_string());
                    ops.push(format!("stream {}", to_hex(&s)));
                    ops.push(format!("script d{}*{}", d, s.len() + 1));
                    ops.push(format!("block {}", b));
                    ops.push(format!("drain {} 1", s.len() + 3));
                }
            }
            cases.push(ops);
        }
        cases
    }

    fn gen_case(&self, rng: &mut Rng, _idx: u64, thorough: bool) -> Vec<String> {
        let block = pick_block(rng, &CHUNKER_BLOCKS);
        let stream =
            if rng.chance(1, 3) { gen_stream_aligned(rng, block, thorough) } else { gen_stream(rng, thorough) };
        let hard = rng.chance(1, 8);
        let script = gen_script(rng, &stream, hard);
        let mut ops = vec![format!("stream {}", to_hex(&stream)), format!("script {}", script)];
        let long = stream.len() > 20000;
        let block = if long { *rng.pick(&[4096usize, 5000, 65536, 100000, 524288]) } else { block };
        ops.push(format!("block {}", block));
        let nev = script.split(',').count();
        if !long && rng.chance(1, 4) {
            // vary the block size between pumps
            for _ in 0..rng.range(1, 6) {
                ops.push("pump".to_string());
                ops.push(format!("block {}", *rng.pick(&CHUNKER_BLOCKS)));
            }
        }
        ops.push(format!("drain {} {}", stream.len() + nev + 4, rng.range(1, 3)));
        if hard {
            // after a premature end-of-file / error the reader may have more to say
            ops.push(format!("drain {} 1", stream.len() + nev + 4));
        }
        clone_ops::splice(rng, &mut ops, "pump", "drain");
        // track traits: calls made while the thread is unwinding; the same history owned by a scope that panics
        if rng.chance(1, 5) {
            ops = crate::unwind::sprinkle(rng, ops, 1, 2, |_| true);
        } else if !long && rng.chance(1, 10) {
            ops = vec![format!("scoped_panic {}", ops.join(" ; "))];
        }
        ops
    }
}

const READER_BLOCKS: [&str; 12] = ["none", "0", "1", "2", "3", "4", "7", "64", "4096", "2", "3", "1"];

impl Family for ReaderFamily {
    fn name(&self) -> &'static str {
        "reader"
    }

    fn new_exec(&self) -> Box<dyn Exec> {
        crate::unwind::UnwindExec::boxed(ReaderExec::new)
    }

    /// Every stream over {FE, FD, 00, 01, 61} up to length 5 x block sizes
    /// {none,0,1,2,3} x read sizes {1,2,everything}, always-KeepGoing judge; the crate's own
    /// test vectors; judges answering SkipRecord/Stop at every consultation.
    fn enumerated(&self, thorough: bool) -> Vec<Vec<String>> {
        let mut cases = Vec::new();
        // F1 reproducer
        let mut f1 = Vec::new();
        for b in ["0", "1", "2", "none"] {
            f1.push("reset".to_string());
            f1.push("stream 0161fefd026263".to_string());
            f1.push("script d1*8".to_string());
            f1.push(format!("block {}", b));
            f1.push("nextall 5 1".to_string());
        }
        cases.push(f1);
        // the unit test's stream, std judge (max 4), several block sizes
        let t = "0161fefd026263fefdfefd03646566fefdfefdfefd036768696a6bfefdff6768696a6bfefdfefd0731323334353637fefdfefd017a";
        let mut ut = Vec::new();
        for b in ["3", "1", "none"] {
            for lim in ["none", "0", "1", "4", "5", "11", "12", "51", "52"] {
                ut.push("reset".to_string());
                ut.push(format!("stream {}", t));
                ut.push("script d5*60".to_string());
                ut.push(format!("block {}", b));
                ut.push(format!("judge std 4 {}", lim));
                ut.push("nextall 8 2".to_string());
            }
        }
        cases.push(ut);
        for s in all_strings(&[FE, FD, 0x00, 0x01, 0x61], 5) {
            let _ = thorough;
            let mut ops = Vec::new();
            for b in ["none", "0", "1", "2", "3"] {
                for d in [1usize, 2, 1000] {
                    ops.push("reset".to_string());
                    ops.push(format!("stream {}", to_hex(&s)));
                    ops.push(format!("script d{}*{}", d, s.len() + 1));
                    ops.push(format!("block {}", b));
                    ops.push(format!("nextall {} 1", s.len() + 2));
                }
            }
            cases.push(ops);
        }
        // scripted verdicts: SkipRecord / Stop at the i-th consultation
        let s = "0161fefdfefd026263fefd00fefd0161";
        for v in ["s", "x"] {
            for i in 0..10 {
                let mut ops = Vec::new();
                for b in ["1", "3", "none"] {
                    ops.push("reset".to_string());
                    ops.push(format!("stream {}", s));
                    ops.push("script d4*20".to_string());
                    ops.push(format!("block {}", b));
                    ops.push(format!("judge list {}{}", "k".repeat(i), v));
                    ops.push("nextall 8 1".to_string());
                }
                cases.push(ops);
            }
        }
        cases
    }

    fn gen_case(&self, rng: &mut Rng, _idx: u64, thorough: bool) -> Vec<String> {
        let block = if rng.chance(1, 6) {
            format!("{}", rng.range(0, 8200))
        } else {
            rng.pick(&READER_BLOCKS).to_string()
        };
        let stream = match block.parse::<usize>() {
            Ok(b) if rng.chance(1, 3) => gen_stream_aligned(rng, b, thorough),
            _ => gen_stream(rng, thorough),
        };
        let hard = rng.chance(1, 10);
        let script = gen_script(rng, &stream, hard);
        let mut ops = vec![format!("stream {}", to_hex(&stream)), format!("script {}", script)];
        let block = if stream.len() > 20000 {
            rng.pick(&["4096", "5000", "65536", "none", "100000"]).to_string()
        } else {
            block
        };
        ops.push(format!("block {}", block));
        let nseg = ref_segments(&stream).len();
        match rng.below(10) {
            0..=3 => ops.push("judge keepgoing".to_string()),
            4..=7 => {
                let max = match rng.below(5) {
                    0 => 0,
                    1 => rng.range(1, 12),
                    2 => rng.range(12, 300),
                    _ => 1 << 40,
                };
                let limit = if rng.chance(1, 2) {
                    "none".to_string()
                } else if rng.chance(1, 2) && nseg > 0 {
                    // exactly at, just before or just after a segment start
                    let (a, _) = ref_segments(&stream)[rng.below(nseg as u64) as usize];
                    format!("{}", (a as u64 + rng.below(3)).saturating_sub(1))
                } else {
                    format!("{}", rng.below(stream.len() as u64 + 3))
                };
                ops.push(format!("judge std {} {}", max, limit));
            }
            _ => {
                // scripted verdicts; SkipRecord on an empty range trips an assertion in
                // next_record_bytes (model and code agree on the panic), so keep it rare
                let n = rng.range(0, 12);
                let vs: String = (0..n)
                    .map(|_| match rng.below(12) {
                        0 => 's',
                        1 => 'x',
                        _ => 'k',
                    })
                    .collect();
                ops.push(format!("judge list {}", if vs.is_empty() { "-".to_string() } else { vs }));
            }
        }
        let nev = script.split(',').count();
        ops.push(format!("nextall {} {}", nseg + nev + 3, rng.range(1, 3)));
        if hard {
            ops.push(format!("nextall {} 1", nseg + nev + 3));
        }
        clone_ops::splice(rng, &mut ops, "next", "nextall");
        // track traits: calls made while the thread is unwinding (`next` / `nextall` only under the
        // KeepGoing judge: the executor refuses them otherwise); the same history owned by a scope that panics
        let keepgoing = !ops.iter().any(|o| o.starts_with("judge std") || o.starts_with("judge list"));
        if rng.chance(1, 5) {
            ops = crate::unwind::sprinkle(rng, ops, 1, 2, |o| keepgoing || !o.starts_with("next"));
        } else if stream.len() < 20000 && rng.chance(1, 10) {
            ops = vec![format!("scoped_panic {}", ops.join(" ; "))];
        }
        ops
    }
}

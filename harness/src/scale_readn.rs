//! Family `scale_readn`: LARGE-MAGNITUDE profiles over the `readn` executor (C17: `ByteArena::read_n`
//! under scripted readers; model driver `wpmodel scale_readn` = the `readn` driver behind
//! `Driver/Scale.lean`): counts of 2^16 ... 2^25 bytes (one `Read::read` offer of 8 MiB and more),
//! a hard error / end of file / `Interrupted` burst after a small delivery, deliveries that stop
//! exactly at 2^k window boundaries, attempt limits around the number of calls, an arena chunk of
//! the last size class underneath.  The reader's source stays small (or is a run token), results are
//! digested (`terse`).
use crate::fam_readn::ReadNFamily;
use crate::scale_common::*;
use crate::util::*;

pub struct ScaleReadNFamily;

fn script_of(parts: &[String]) -> String {
    if parts.is_empty() {
        "-".to_string()
    } else {
        parts.join(",")
    }
}

fn burst(ev: &str, k: usize) -> Vec<String> {
    (0..k).map(|_| ev.to_string()).collect()
}

/// One huge `readn` per shape of script; `count` bytes asked, the source holds `srclen`.
fn huge_read_case(count: usize, srclen: usize, shape: u64, attempts: usize, reserve: Option<usize>) -> Vec<String> {
    let mut ops: Vec<String> = vec!["terse".into()];
    if let Some(r) = reserve {
        ops.push(format!("reserve {}", r));
    }
    let mut sc: Vec<String> = Vec::new();
    match shape % 8 {
        0 => {
            // a small delivery, a hard error, and a reader that would go on
            sc.push("d100".into());
            sc.push("x1".into());
            sc.push("d100".into());
            sc.push("d100".into());
        }
        1 => {
            sc.push("x3".into());
            sc.push("d100".into());
            sc.push("e".into());
        }
        2 => {
            sc.push("d7".into());
            sc.push("e".into());
            sc.push("d100".into());
        }
        3 => {
            sc.push("d50".into());
            sc.extend(burst("x0", 40));
            sc.push("x2".into());
            sc.push("d50".into());
        }
        4 => {
            // deliveries that stop exactly at power-of-two boundaries
            for k in [1usize << 12, 1 << 16, 1 << 20] {
                sc.push(format!("d{}", k));
            }
            sc.push("x1".into());
            sc.push("d4096".into());
        }
        5 => {
            sc.extend(burst("x0", 1023));
            sc.push("d9".into());
            sc.push("x4".into());
            sc.push("d9".into());
        }
        6 => {
            sc.push(format!("d{}", 1usize << 23));
            sc.push("x1".into());
            sc.push("d100".into());
        }
        _ => {
            sc.push("d1".into());
            sc.push("x0".into());
            sc.push("d1".into());
            sc.push("x5".into());
            sc.push("d1".into());
            sc.push("e".into());
        }
    }
    ops.push(format!("readn {} {} {} {}", count, attempts, run_token(0x30, srclen), script_of(&sc)));
    // the arena goes on working
    ops.push(format!("readn 10 3 {} d4,d4,d4", run_token(0x70, 16)));
    ops
}

const COUNTS: [usize; 9] = [
    (1 << 16) + 1,
    (1 << 20) + 100,
    (1 << 23) - 1,
    1 << 23,
    (1 << 23) + 1,
    (1 << 23) + 100,
    (1 << 24) + 4096,
    3 << 23,
    1 << 25,
];

impl Family for ScaleReadNFamily {
    fn name(&self) -> &'static str {
        "scale_readn"
    }

    fn new_exec(&self) -> Box<dyn Exec> {
        Box::new(ScaleExec::new(Kind::Reader, ReadNFamily.new_exec()))
    }

    fn enumerated(&self, thorough: bool) -> Vec<Vec<String>> {
        let mut cases = Vec::new();
        let counts: Vec<usize> = if thorough { COUNTS.to_vec() } else { vec![(1 << 20) + 100, (1 << 23) + 100, 1 << 25] };
        for (i, c) in counts.iter().enumerate() {
            for shape in 0..8u64 {
                if !thorough && !(shape == 0 || shape == 1 || (shape + i as u64) % 4 == 2) {
                    continue;
                }
                // shapes 4 and 6 deliver megabytes: a source of that size
                let srclen = match shape {
                    4 => (1usize << 20) + (1 << 16) + 9000,
                    6 => (1usize << 23) + 300,
                    _ => 400,
                };
                if shape == 6 && !thorough {
                    continue;
                }
                let attempts = [6usize, 1000, usize::MAX, 2000][(shape as usize + i) % 4];
                let reserve = if (shape + i as u64) % 3 == 0 { Some(1usize << 20) } else { None };
                cases.push(huge_read_case(*c, srclen, shape, attempts, reserve));
            }
        }
        cases
    }

    fn gen_case(&self, rng: &mut Rng, _idx: u64, thorough: bool) -> Vec<String> {
        let c = near_of(rng, if thorough { &COUNTS } else { &COUNTS[..7] }, 1);
        let shape = rng.below(8);
        let shape = if shape == 6 && !thorough { 0 } else { shape };
        let srclen = match shape {
            4 => (1usize << 20) + (1 << 16) + 9000,
            6 => (1usize << 23) + 300,
            _ => *rng.pick(&[0usize, 5, 400, 5000]),
        };
        let attempts = *rng.pick(&[1usize, 2, 3, 6, 1000, 1024, 2000, 1 << 32, usize::MAX]);
        let reserve = if rng.chance(1, 3) { Some(*rng.pick(&[4096usize, 1 << 20, (1 << 20) + 1])) } else { None };
        huge_read_case(c, srclen, shape, attempts, reserve)
    }
}

//! Family `scale_codec`: LARGE-MAGNITUDE and LONG-HISTORY profiles over the `codecw` executor
//! (real Encoder / Decoder observed structurally; C09, C10, C05, C17; model driver
//! `wpmodel scale_codec` = the `codecw` driver behind `Driver/Scale.lean`).
//!   * an arena region LARGER than 1 MiB under the encoder (a huge, mostly unanswered
//!     `encode_read` leaves a 3 MiB region behind), then > 1 MiB of `encode_copy` output merged
//!     into ONE slice so that HCOBS size headers are registered at in-slice offsets >= 2^20, with
//!     drains mid-stream; the stream is sized so that the lag stays inside the C09 bound
//!     (1 MiB + 64008 + 2) on the unchanged code;
//!   * streams of > 1 MiB through the default arena (chunks of the last size class are exhausted
//!     and replaced), encoder and decoder, copy / borrow / anchored input, drains after every call;
//!   * > 1024 (4096) pieces, slices and zero-count anchors in one codec iovec.
//! The wrapper's C09 oracle (scale_common.rs) compares drained ++ consumable after every op with
//! what it was before and, at `finish`, with a one-call encoding / decoding.
use crate::fam_codecw::CodecWFamily;
use crate::scale_common::*;
use crate::util::*;

pub struct ScaleCodecFamily;

const SUB: usize = 64008;
const INIT: usize = 252;

/// Wire form (as a `+` word) of the constant payload `b` x `len`, production limits.
pub fn const_wire(b: u8, len: usize) -> String {
    let mut parts: Vec<String> = Vec::new();
    let first = len.min(INIT);
    parts.push(format!("{:02x}", first));
    if first > 0 {
        parts.push(format!("{:02x}*{}", b, first));
    }
    let mut left = len - first;
    let mut short = first < INIT;
    while !short {
        let n = left.min(SUB);
        parts.push(format!("{:02x}{:02x}", n % 253, n / 253));
        if n > 0 {
            parts.push(format!("{:02x}*{}", b, n));
        }
        left -= n;
        short = n < SUB;
    }
    // a single part is still a `+` word for the wrapper: append the empty token
    parts.push("-".to_string());
    parts.join("+")
}

/// Encoder over a > 1 MiB region: the `k`-th sub-chunk header (k >= 17) is registered at an
/// in-slice offset >= 2^20; `m` more bytes follow (kept small enough for the lag bound).
fn big_region_encoder(region: usize, k: usize, m: usize, split: usize, drains: u64, method: &str) -> Vec<String> {
    let total = INIT + k * SUB + m;
    let mut ops: Vec<String> = vec!["terse".into(), "enc_new prod".into()];
    ops.push(format!("feed_read {} 1 {} d10", region, run_token(0x00, 16)));
    let first = split.min(total - 10 - 1);
    ops.push(format!("feed {} gen:{}:7:0", method, first));
    // (never `drain_all` between the feeds: with a region somebody asked to be 3-5 MiB large the footprint
    // bound of the STREAMING regime - drain everything after every call - is not the arena's default one)
    match drains % 3 {
        0 => ops.push("drain_slices 100".into()),
        1 => ops.push("drain_bytes 5".into()),
        _ => {}
    }
    ops.push(format!("feed {} gen:{}:8:0", method, total - 10 - first));
    if drains % 2 == 0 {
        ops.push("drain_slices 100".into());
    }
    ops.push("finish".into());
    if drains % 2 == 1 {
        ops.push("drain_bytes 70000".into());
    }
    // more than 2^20 bytes out of ONE slice
    ops.push("drain_bytes 1048600".into());
    ops.push("drain_all".into());
    ops
}

/// Streaming through the default arena: `n` pieces of `len` bytes, a drain after every call.
fn streaming_encoder(n: usize, len: usize, method: &str, drain: &str, density: u64) -> Vec<String> {
    vec![
        "terse".into(),
        "enc_new prod".into(),
        format!("rep {} feed {} gen:{}:{{i+1}}:{} ; {}", n, method, len, density, drain),
        "finish".into(),
        "drain_all".into(),
    ]
}

/// Decoder fed the wire form of a > 1 MiB constant payload in one call.
fn big_decoder(len: usize, method: &str, drain: bool) -> Vec<String> {
    let mut ops: Vec<String> = vec!["terse".into(), "dec_new prod".into()];
    // the first header byte goes in by itself and is NOT followed by `drain_all`: a single call of several
    // megabytes is outside the streaming regime whose footprint bound the wrapped executor checks
    let wire = const_wire(0x61, len);
    let (head, rest) = wire.split_once('+').unwrap_or((&wire, "-"));
    ops.push(format!("feed c {}+-", head));
    ops.push(format!("feed {} {}", method, rest));
    if drain {
        ops.push("drain_bytes 1000".into());
    }
    ops.push("finish".into());
    ops.push("drain_slices 3".into());
    ops.push("drain_all".into());
    ops
}

/// One record of `len` bytes split over several decoder calls at the given wire offsets.
fn split_decoder(len: usize, cuts: &[usize], method: &str) -> Vec<String> {
    // spell the wire out as adjacent `+` words: header | data | header | data ...
    let mut ops: Vec<String> = vec!["terse".into(), "dec_new prod".into()];
    let mut parts: Vec<(String, usize)> = Vec::new(); // (word, bytes)
    let first = len.min(INIT);
    parts.push((format!("{:02x}+-", first), 1));
    let mut left = len - first;
    let mut pending = first;
    let mut short = first < INIT;
    loop {
        // data of the current chunk, cut into pieces no longer than the next cut distance
        let mut k = 0;
        while pending > 0 {
            // the first 40 pieces follow `cuts` literally; after that no piece is shorter than 1/150 of the
            // record (a megabyte in 64-byte pieces would be 40000 calls: hours for the list model)
            let want = cuts[k % cuts.len()].max(1);
            let want = if parts.len() > 40 && cuts.len() > 1 { want.max(len / 150) } else { want };
            let piece = pending.min(want);
            parts.push((format!("61*{}+-", piece), piece));
            pending -= piece;
            k += 1;
        }
        if short {
            break;
        }
        let n = left.min(SUB);
        parts.push((format!("{:02x}{:02x}+-", n % 253, n / 253), 2));
        left -= n;
        pending = n;
        short = n < SUB;
    }
    for (i, (w, _)) in parts.iter().enumerate() {
        ops.push(format!("feed {} {}", method, w));
        if i % 5 == 4 {
            ops.push("drain_all".into());
        }
    }
    ops.push("finish".into());
    ops.push("drain_all".into());
    ops
}

/// `n` small pieces: every call leaves its own slice (anchored input) or merges (copy).
fn many_pieces(n: usize, method: &str, len: usize, enc: bool) -> Vec<String> {
    let mut ops: Vec<String> = vec!["terse".into()];
    if enc && n > 1200 && (method == "a" || method == "f") {
        // the codec model over the list heap needs half an hour for 4100 anchored pieces; harness only
        ops.push("quiet".into());
    }
    if enc {
        ops.push("enc_new prod".into());
        ops.push(format!("rep {} feed {} {}", n, method, run_token(0x41, len)));
        ops.push("drain_slices 7".into());
    } else {
        // decoder: a record of n*len bytes of 0x61, fed header first and then in equal pieces
        let total = n * len;
        if total > INIT {
            return split_decoder(total, &[len], method);
        }
        ops.push("dec_new prod".into());
        ops.push(format!("feed c {:02x}", total));
        ops.push(format!("rep {} feed {} 61*{}+-", n, method, len));
    }
    ops.push("finish".into());
    ops.push("drain_bytes 1000".into());
    ops.push("drain_all".into());
    ops
}

impl Family for ScaleCodecFamily {
    fn name(&self) -> &'static str {
        "scale_codec"
    }

    fn new_exec(&self) -> Box<dyn Exec> {
        Box::new(ScaleExec::new(Kind::Codec, CodecWFamily.new_exec()))
    }

    fn enumerated(&self, thorough: bool) -> Vec<Vec<String>> {
        if !thorough {
            let mib = 1usize << 20;
            // ordered for a 4-way split: the two expensive cases (first and fourth) in different shards
            return vec![
                big_region_encoder(3 * mib, 17, 10000, 600000, 0, "c"),
                streaming_encoder(60, 21000, "c", "drain_all", 0),
                split_decoder(mib + 70000, &[70000, 64, 65, 300000], "c"),
                many_pieces(1100, "b", 300, true),
                many_pieces(1030, "a", 66, false),
                many_pieces(1100, "b", 300, false),
            ];
        }
        let mib = 1usize << 20;
        let mut cases: Vec<Vec<String>> = Vec::new();
        // headers at in-slice offsets >= 2^20 (the 17th sub-chunk header sits at ~1 088 400)
        cases.push(big_region_encoder(3 * mib, 17, 10000, 600000, 0, "c"));
        if thorough {
            cases.push(big_region_encoder(3 * mib, 17, 0, 1_050_000, 1, "c"));
            cases.push(big_region_encoder(2 * mib, 17, 23000, 300000, 2, "c"));
            cases.push(big_region_encoder(mib + 8192 * 10, 17, 1, 64008, 3, "c"));
            cases.push(big_region_encoder(3 * mib, 17, 500, 1_088_000, 4, "c"));
            cases.push(big_region_encoder(5 * mib, 17, 20000, 900000, 5, "c"));
        }
        // > 1 MiB through the default arena
        cases.push(streaming_encoder(if thorough { 330 } else { 60 }, if thorough { 4000 } else { 21000 }, "c", "drain_all", 0));
        if thorough {
            cases.push(streaming_encoder(20, 64008, "c", "drain_bytes 60000", 0));
            cases.push(streaming_encoder(40, 70000, "b", "drain_all", 1));
            cases.push(streaming_encoder(300, 5000, "a", "drain_all", 0));
            cases.push(streaming_encoder(25, 100000, "c", "drain_slices 1", 0));
            cases.push(streaming_encoder(1100, 1100, "c", "drain_all", 0));
        }
        // decoder
        cases.push(split_decoder(mib + 70000, &[70000, 64, 65, 300000], "c"));
        if thorough {
            cases.push(big_decoder(2 * mib + 5000, "c", true));
            cases.push(big_decoder(2 * mib + 5000, "b", false));
            cases.push(big_decoder(3 * mib, "a", true));
            cases.push(split_decoder(mib + 70000, &[4096, 100000], "a"));
            cases.push(split_decoder(2 * mib, &[65, 64008, 1 << 19], "b"));
        }
        // many pieces / slices / anchors (> 1024 borrowed pieces of > 256 bytes, no drain, then every view)
        cases.push(many_pieces(1030, "a", 66, false));
        cases.push(many_pieces(1100, "b", 300, true));
        cases.push(many_pieces(1100, "b", 300, false));
        if thorough {
            cases.push(many_pieces(1100, "a", 70, true));
            cases.push(many_pieces(4100, "a", 70, true));
            cases.push(many_pieces(4100, "f", 65, true));
            cases.push(many_pieces(2000, "b", 300, true));
            cases.push(many_pieces(4100, "c", 3, true));
            cases.push(many_pieces(4100, "b", 70, false));
            cases.push(many_pieces(1100, "f", 257, false));
        }
        cases
    }

    fn gen_case(&self, rng: &mut Rng, _idx: u64, thorough: bool) -> Vec<String> {
        let mib = 1usize << 20;
        if !thorough {
            // quick tier: a few hundred KiB per case (the megabyte cases are the enumerated ones; the list
            // model needs 5-20 s for each of them)
            return match rng.below(4) {
                0 => {
                    let (n, len) = *rng.pick(&[(14usize, 21000usize), (5, 64008), (4, 70000), (70, 4000), (3, 100000)]);
                    let m = *rng.pick(&["c", "c", "b", "a"]);
                    let d = *rng.pick(&["drain_all", "drain_all", "drain_bytes 60000", "drain_slices 2"]);
                    streaming_encoder(n, near(rng, len, 1), m, d, rng.below(2))
                }
                1 => {
                    let len = near_of(rng, &[INIT + SUB, INIT + 2 * SUB, INIT + 4 * SUB, 200000], 1);
                    let cuts = [*rng.pick(&[64usize, 65, 4096, 70000]), *rng.pick(&[1usize, 30000, 64008, 1 << 17])];
                    split_decoder(len, &cuts, *rng.pick(&["c", "b", "a"]))
                }
                2 => many_pieces(near_of(rng, &[256usize, 300], 2), *rng.pick(&["a", "a", "f", "b"]), rng.range(65, 80) as usize, true),
                _ => many_pieces(near_of(rng, &[256usize, 300, 1030], 2), *rng.pick(&["a", "b", "c"]), rng.range(65, 80) as usize, false),
            };
        }
        match rng.below(6) {
            0 | 1 => {
                let region = *rng.pick(&[mib + 4096 * 20, 2 * mib, 3 * mib, 3 * mib, 4 * mib]);
                // the room the lag bound leaves after the 17th header: < 24000 bytes
                let m = *rng.pick(&[0usize, 1, 2, 251, 252, 253, 5000, 20000, 23900]);
                let split = *rng.pick(&[1usize, 252, 64008, 600000, 1_048_000, 1_048_576, 1_088_300, 1_088_400]);
                big_region_encoder(region, 17, m, split, rng.below(6), "c")
            }
            2 => {
                let (n, len) = *rng.pick(&[(60usize, 21000usize), (20, 64008), (18, 70000), (300, 4000), (12, 100000)]);
                let n = if thorough { n } else { n.min(60) };
                let m = *rng.pick(&["c", "c", "b", "a"]);
                let d = *rng.pick(&["drain_all", "drain_all", "drain_bytes 60000", "drain_slices 2"]);
                streaming_encoder(n, near(rng, len, 1), m, d, rng.below(2))
            }
            3 => {
                let len = near_of(rng, &[mib, mib + 64008, 2 * mib, INIT + 16 * SUB, INIT + 17 * SUB], 1);
                if rng.chance(1, 2) {
                    big_decoder(2 * len, *rng.pick(&["c", "b", "a"]), rng.chance(1, 2))
                } else {
                    let cuts = [*rng.pick(&[64usize, 65, 4096, 70000]), *rng.pick(&[1usize, 300000, 64008, 1 << 19])];
                    split_decoder(len, &cuts, *rng.pick(&["c", "b", "a"]))
                }
            }
            4 => {
                let n = near_of(rng, &[1024usize, 1100], 2);
                many_pieces(n, *rng.pick(&["a", "a", "f", "b"]), rng.range(65, 80) as usize, true)
            }
            _ => {
                let n = near_of(rng, &[1024usize, 1100], 2);
                many_pieces(n, *rng.pick(&["a", "b", "c"]), rng.range(65, 80) as usize, false)
            }
        }
    }
}

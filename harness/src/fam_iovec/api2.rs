//! Family `iovec`, the last public corners (track `apileft`): values safe code can obtain only through
//! `Default::default()`.  Model side: `lean/Woodpile/Model/IovecApi2.lean`, `stepApi` in
//! `lean/Woodpile/Driver/Iovec.lean`, theorems `lean/Woodpile/Props/C05B.lean`.
//!
//!   push_anchor_default v<i> <n>   `OwningIovec::push_anchor(a)`, `a` = `Default::default()` after `n` calls of
//!                                  `increment_count()` (n = 0: literally `push_anchor(Default::default())`)
//!   a_default                      `ByteArena::default()`   (new arena handle; `new_arena` is `ByteArena::new()`)
//!   is_empty v<i>                  `OwningIovec::is_empty()` and `len()` (all slices, pending ones included)
//!
//! `Anchor` is not re-exported by `owning_iovec`, so the type cannot be named here either; `anchor_of`
//! obtains a value by inference from the signature of `push_anchor`, exactly what any safe caller can do.
//!
//! Oracles (real code only): pushing a chunk-less anchor changes no byte, no size, no pending flag and no
//! live chunk (C03/C05/C10); `ByteArena::default()` owns no memory.
use super::*;

fn anchor_of<T: Default>(_f: for<'a> fn(&'a mut OwningIovec<'static>, T)) -> T {
    T::default()
}

impl IovecExec {
    pub(super) fn step_api2(&mut self, w: &[&str]) -> Option<StepOut> {
        let mut so = StepOut::default();
        match w {
            ["a_default"] => {
                let before = (ByteArena::num_live_chunks(), ByteArena::num_live_bytes());
                let a = ByteArena::default();
                if a.remaining() != 0 || (ByteArena::num_live_chunks(), ByteArena::num_live_bytes()) != before {
                    so.violations.push("C10 ByteArena::default() owns memory".into());
                }
                self.arenas.push(Some(a));
                so.tags.push("api2.a_default".into());
                self.describe(&mut so, None);
                Some(so)
            }
            ["is_empty", v] => {
                let Some(i) = handle('v', v) else { return Some(StepOut::bad()) };
                let Some(Some(iov)) = self.iovs.get(i) else { return Some(StepOut::bad()) };
                let (e, n) = (iov.is_empty(), iov.len());
                if e != (n == 0) || (e && iov.total_size() != 0) {
                    so.violations.push(format!("C03 v{} is_empty() = {} with len() = {}, total_size() = {}", i, e, n, iov.total_size()));
                }
                so.obs.push(format!("R {} len={}", e as u8, n));
                so.tags.push("api2.is_empty".into());
                self.describe(&mut so, Some(i));
                Some(so)
            }
            ["push_anchor_default", v, n] => {
                let (Some(i), Ok(n)) = (handle('v', v), n.parse::<usize>()) else { return Some(StepOut::bad()) };
                if !self.iovs.get(i).map(|x| x.is_some()).unwrap_or(false) || n > 64 {
                    return Some(StepOut::bad());
                }
                let before_live = (ByteArena::num_live_chunks(), ByteArena::num_live_bytes());
                let iov = self.iovs[i].as_mut().unwrap();
                let before = (iov.total_size(), iov.has_pending_backrefs(), iov.stable_prefix().len());
                if n == 0 {
                    iov.push_anchor(Default::default());
                } else {
                    let mut a = anchor_of(OwningIovec::<'static>::push_anchor);
                    for _ in 0..n {
                        a.increment_count();
                    }
                    if a.count() != n {
                        so.violations.push("C05 Anchor::increment_count does not count".into());
                    }
                    iov.push_anchor(a);
                }
                let after = (iov.total_size(), iov.has_pending_backrefs(), iov.stable_prefix().len());
                if before != after {
                    so.violations.push(format!(
                        "C03 v{} push_anchor of a chunk-less anchor changed size/pending/stable slices {:?} -> {:?}",
                        i, before, after
                    ));
                }
                if (ByteArena::num_live_chunks(), ByteArena::num_live_bytes()) != before_live {
                    so.violations.push(format!("C10 v{} push_anchor of a chunk-less anchor changed the live chunks", i));
                }
                so.tags.push(format!("api2.push_anchor_default:{}", if n == 0 { "0" } else { "n" }));
                self.describe(&mut so, Some(i));
                if so.violations.iter().any(|v| v.starts_with("C05")) {
                    self.dead_memory = true;
                }
                Some(so)
            }
            _ => None,
        }
    }
}

/// One op of this vocabulary on iovec `v`; `false` = nothing was generated.
pub(super) fn gen_op(g: &mut Gen<'_>, v: usize) -> bool {
    match g.rng.below(8) {
        0 => {
            g.ops.push("a_default".into());
            g.n_arena += 1;
            g.arena_alive.push(true);
        }
        2 => g.ops.push(format!("is_empty v{}", v)),
        1 => {
            let n = *g.rng.pick(&[1u64, 2, 5]);
            g.ops.push(format!("push_anchor_default v{} {}", v, n));
        }
        _ => g.ops.push(format!("push_anchor_default v{} 0", v)),
    }
    true
}

/// Scripted histories: a chunk-less zero-count anchor is a SEPARATOR in the anchor deque - it decides
/// which anchor the next borrowed slice is counted by (hence when a chunk is released) and whether the
/// next copy may be merged with the previous slice.  Each history is run with and without the anchor so
/// that both sides of every comparison are in the transcript.
pub(super) fn enumerated_cases() -> Vec<Vec<String>> {
    let pay = |tag: u8, n: usize| to_hex(&(0..n).map(|k| tag.wrapping_add(k as u8)).collect::<Vec<u8>>());
    let s = |x: &str| x.to_string();
    let mut cases: Vec<Vec<String>> = Vec::new();
    for n in [None, Some(0usize), Some(1), Some(5)] {
        let anchor = |ops: &mut Vec<String>| {
            if let Some(n) = n {
                ops.push(format!("push_anchor_default v0 {}", n));
            }
        };
        // (1) copy | anchor | borrowed, cache flushed, consume the copy: with the separator the chunk is
        // released at once, without it only when the borrowed slice goes too
        for big in [65usize, 300] {
            let mut ops = vec![s("new"), s("push_copy v0 0102")];
            anchor(&mut ops);
            ops.push(format!("push_borrowed v0 {}", pay(0x30, big)));
            ops.push(s("flush v0"));
            ops.push(s("consume v0 1"));
            ops.push(s("consume v0 1"));
            cases.push(ops);
        }
        // (2) copy | anchor | copy: the second copy gets a fresh anchor, so the adjacent slices are not merged
        let mut ops = vec![s("new"), s("push_copy v0 0102")];
        anchor(&mut ops);
        ops.push(s("push_copy v0 0304"));
        ops.push(s("push v0 05"));
        ops.push(s("advance v0 3"));
        ops.push(s("read v0 9"));
        cases.push(ops);
        // (3) on an EMPTY deque (and twice), then every kind of push; consume 0 pops zero-count fronts
        for push in ["push_borrowed v0 aabb", "push_copy v0 aabb", "push v0 aabb", "register v0 0000", "extend v0 aa|bbcc"] {
            let mut ops = vec![s("new")];
            anchor(&mut ops);
            anchor(&mut ops);
            ops.push(s(push));
            anchor(&mut ops);
            ops.push(s("consume v0 0"));
            ops.push(s("consume v0 5"));
            anchor(&mut ops);
            ops.push(s("consume v0 0"));
            ops.push(s("push_copy v0 cc"));
            ops.push(s("pop v0"));
            cases.push(ops);
        }
        // (4) clone / take / clear carry or drop the separator
        let mut ops = vec![s("new"), s("push_copy v0 0102")];
        anchor(&mut ops);
        ops.push(s("clone v0"));
        ops.push(format!("push_borrowed v1 {}", pay(0x50, 70)));
        ops.push(s("flush v0"));
        ops.push(s("drop v0"));
        ops.push(s("consume v1 1"));
        ops.push(s("take v1"));
        ops.push(s("push_anchor_default v1 0"));
        ops.push(s("consume v2 1"));
        ops.push(s("clear v1"));
        ops.push(s("push_copy v1 07"));
        cases.push(ops);
        // (5) between an anchored slice and its tail, and the default slice / arena values
        let mut ops = vec![
            s("new"),
            s("read_n v0 8 2 1112131415161718 d8"),
            s("s_split s0 3"),
            s("push_aslice v0 s1"),
        ];
        anchor(&mut ops);
        ops.push(s("push_aslice v0 s2"));
        ops.push(s("s_default"));
        ops.push(s("push_aslice v0 s3"));
        ops.push(s("a_default"));
        ops.push(s("swap_arena v0 a0"));
        ops.push(s("consume v0 1"));
        anchor(&mut ops);
        ops.push(s("drop_arena a0"));
        ops.push(s("consume v0 1"));
        cases.push(ops);
    }
    cases
}

//! Family `iovec`, track traits: which ops may run while the thread is unwinding, the generator
//! hooks for `unwinding` / `scoped_panic` (`harness/src/unwind.rs`), and `Clone::clone_from` on
//! `OwningIovec` / `AnchoredSlice` / `ByteArena`:
//!
//!   clone_from v<d> v<s> | s_clone_from s<d> s<s> | a_clone_from a<d> a<s>
//!
//! `dst.clone_from(&src)` (not `dst = src.clone()`) on two distinct live objects.  The destination
//! object is then MOVED to a fresh handle (a Rust move, no effect) and its old handle dies, so the
//! model side is the plain `WOp` history "clone the source (new handle), drop the destination"
//! (`a_clone_from`: `newArena`, `dropArena`) with the same handle numbering - no new model op.
//! Oracle: the destination then holds exactly the source's unconsumed bytes (C20: a clone is a
//! snapshot), whatever it held before - pending placeholders, consumed slices, anchors; an anchored
//! slice names the source's bytes; a cloned arena shares no allocation cache (C05).
use super::*;

impl IovecExec {
    pub(super) fn step_traits(&mut self, w: &[&str]) -> Option<StepOut> {
        let mut so = StepOut::default();
        let bad = || Some(StepOut::bad());
        match w {
            ["clone_from", d, s] => {
                let (Some(d), Some(s)) = (handle('v', d), handle('v', s)) else { return bad() };
                let live = |i: usize| self.iovs.get(i).map(|v| v.is_some()).unwrap_or(false);
                if d == s || !live(d) || !live(s) {
                    return bad();
                }
                let mut dst = self.iovs[d].take().unwrap();
                let src = self.iovs[s].as_ref().unwrap();
                dst.clone_from(src);
                let mut sh = self.shadows[s].clone();
                if sh.pending() {
                    sh.unknown = true; // outside C20's premise; the clone's placeholders have no token
                } else if dst.flatten().ok() != src.flatten().ok() {
                    so.violations.push(format!(
                        "C20 after v{}.clone_from(&v{}) the destination does not hold the bytes unconsumed in the source at that moment",
                        d, s
                    ));
                }
                if dst.total_size() != src.total_size() || dst.is_empty() != src.is_empty() {
                    so.violations.push(format!("C20 after v{}.clone_from(&v{}) total_size / is_empty differ from the source's", d, s));
                }
                let n = self.iovs.len();
                self.iovs.push(Some(dst));
                self.shadows.push(sh);
                self.shadows[d] = Shadow::default();
                self.snapshots.push(n);
                so.tags.push("traits.clone_from".into());
                Some(self.finish_api_traits(so, Some(n)))
            }
            ["s_clone_from", d, s] => {
                let (Some(d), Some(s)) = (handle('s', d), handle('s', s)) else { return bad() };
                let live = |i: usize| self.aslices.get(i).map(|v| v.is_some()).unwrap_or(false);
                if d == s || !live(d) || !live(s) {
                    return bad();
                }
                let mut dst = self.aslices[d].take().unwrap();
                let src = self.aslices[s].as_ref().unwrap();
                dst.clone_from(src);
                if dst.slice().as_ptr() != src.slice().as_ptr() || dst.slice().len() != src.slice().len() {
                    so.violations.push(format!("C05 after s{}.clone_from(&s{}) the destination does not name the source's bytes", d, s));
                }
                self.aslices.push(Some(dst));
                so.tags.push("traits.s_clone_from".into());
                Some(self.finish_api_traits(so, None))
            }
            ["a_clone_from", d, s] => {
                let (Some(d), Some(s)) = (handle('a', d), handle('a', s)) else { return bad() };
                let live = |i: usize| self.arenas.get(i).map(|v| v.is_some()).unwrap_or(false);
                if d == s || !live(d) || !live(s) {
                    return bad();
                }
                let mut dst = self.arenas[d].take().unwrap();
                dst.clone_from(self.arenas[s].as_ref().unwrap());
                if dst.remaining() != 0 {
                    so.violations.push("C05 a ByteArena overwritten by clone_from shares an allocation cache".into());
                }
                self.arenas.push(Some(dst));
                so.tags.push("traits.a_clone_from".into());
                Some(self.finish_api_traits(so, None))
            }
            // `Debug` of every live object (and of the consumer views) must not panic and must not change anything
            ["dbg"] => {
                let mut n = 0usize;
                for v in self.iovs.iter_mut().flatten() {
                    n += format!("{:?}", v).len() + format!("{:#?}", v).len();
                    n += format!("{:?}", v.consumer()).len();
                    if let Ok(st) = v.stable_consumer() {
                        n += format!("{:?}", st).len();
                    }
                }
                for a in self.aslices.iter().flatten() {
                    n += format!("{:?}", a).len() + format!("{:#?}", a).len();
                }
                for a in self.arenas.iter().flatten() {
                    n += format!("{:?}", a).len();
                }
                for b in self.brefs.iter().flatten() {
                    n += format!("{:?}", b).len();
                }
                if n == 0 && self.iovs.iter().flatten().count() > 0 {
                    so.violations.push("C03 empty Debug output".into());
                }
                so.tags.push("traits.dbg".into());
                Some(self.finish_api_traits(so, None))
            }
            _ => None,
        }
    }

    fn finish_api_traits(&mut self, mut so: StepOut, touched: Option<usize>) -> StepOut {
        self.describe(&mut so, touched);
        if so.violations.iter().any(|v| v.starts_with("C05")) {
            self.dead_memory = true;
        }
        so
    }

    /// Only `pop` / `sc_pop` / `backfill` may panic in this vocabulary (`panic_violation`): they are
    /// wrapped when the current state makes them valid.
    pub(super) fn unwind_safe_words(&self, w: &[&str]) -> bool {
        if self.dead_memory {
            return false;
        }
        match w {
            ["pop", v] | ["sc_pop", v] => match handle('v', v).and_then(|i| self.iovs.get(i)).and_then(|x| x.as_ref()) {
                Some(iov) => !iov.stable_prefix().is_empty(),
                None => false,
            },
            ["backfill", v, b, hex] => {
                let (Some(i), Some(bi), Some(bytes)) = (handle('v', v), handle('b', b), from_hex(hex)) else { return false };
                let Some(Some(tok)) = self.brefs.get(bi) else { return false };
                if self.iovs.get(i).map(|v| v.is_none()).unwrap_or(true) || self.bref_owner[bi] != i || self.shadows[i].unknown {
                    return false;
                }
                let holes = self.shadows[i].cells.iter().filter(|c| **c == Cell::Hole(bi)).count();
                holes > 0 && holes == bytes.len() && tok.len() == bytes.len()
            }
            [op, ..] => !matches!(*op, "pop" | "sc_pop" | "backfill"),
            [] => false,
        }
    }
}

/// `unwinding` on the ops that can never panic (the generator does not track which `pop` /
/// `backfill` are valid; those have hand-written cases).
pub fn sprinkle_iovec(rng: &mut Rng, ops: Vec<String>, num: u64, den: u64) -> Vec<String> {
    crate::unwind::sprinkle(rng, ops, num, den, |o| {
        let w = o.split(' ').next().unwrap_or("");
        !matches!(w, "pop" | "sc_pop" | "backfill")
    })
}

pub fn enumerated_cases() -> Vec<Vec<String>> {
    let c = |ops: &[&str]| ops.iter().map(|s| s.to_string()).collect::<Vec<String>>();
    let mut cases = vec![
        // valid backfill / pop made while unwinding; the invalid ones are refused on both sides
        c(&["new", "unwinding push_copy v0 0102", "unwinding register v0 0000", "unwinding push v0 03", "unwinding backfill v0 b0 aabb",
            "unwinding pop v0", "unwinding read v0 9", "unwinding pop v0"]),
        c(&["new", "register v0 0000", "unwinding pop v0", "unwinding backfill v0 b0 aa", "unwinding backfill v0 b0 aabb", "unwinding consume v0 9"]),
        c(&["new", "unwinding push_borrowed v0 0708", "unwinding clone v0", "unwinding take v0", "unwinding drop v0", "unwinding advance v1 1",
            "unwinding drop v1", "unwinding drop v2"]),
        // the last reference to a chunk dropped while unwinding
        c(&["new", "push_copy v0 ~10x5000", "unwinding drop v0"]),
        c(&["new", "push_copy v0 ~10x5000", "clone v0", "unwinding drop v0", "unwinding consume v1 99999", "unwinding drop v1"]),
        c(&["new_arena", "new_from_arena a0", "push_copy v0 ~20x300", "unwinding take_arena v0", "unwinding drop v0", "unwinding drop_arena a1"]),
        // objects owned by a scope that panics
        c(&["scoped_panic new ; push_copy v0 ~10x5000"]),
        c(&["scoped_panic new ; push_copy v0 ~10x5000 ; clone v0 ; take v0 ; register v2 0000"]),
        c(&["scoped_panic new_arena ; new_from_arena a0 ; push_copy v0 ~30x9000 ; take_arena v0"]),
        c(&["scoped_panic new ; register v0 0000 ; backfill v0 b0 aa"]),
        c(&["scoped_panic new ; register v0 0000 ; pop v0"]),
        c(&["new", "push_copy v0 ~10x5000", "scoped_panic new ; push_copy v0 ~40x70000", "push_copy v0 ~50x100", "drop v0"]),
        c(&["new", "dbg", "push_copy v0 0102", "register v0 0000", "push_borrowed v0 03", "dbg", "new_arena", "read_n a0 4 2 a1a2a3a4 d4", "s_default", "unwinding dbg",
            "backfill v0 b0 aabb", "clone v0", "consume v0 3", "dbg"]),
    ];
    // clone_from: destination states x source states
    let dsts: [&[&str]; 6] = [
        &[],
        &["push_copy v1 0a0b0c"],
        &["push_copy v1 0a0b0c", "consume v1 2"],
        &["push_copy v1 0a", "register v1 0000", "push_copy v1 0b"],
        &["push_copy v1 ~60x6000", "advance v1 1"],
        &["push_borrowed v1 0d0e", "push_copy v1 0f", "clear v1"],
    ];
    let srcs: [&[&str]; 5] = [
        &[],
        &["push_copy v0 010203"],
        &["push_copy v0 010203", "push_borrowed v0 0405", "consume v0 1"],
        &["push_copy v0 ~70x7000", "push_copy v0 99"],
        &["push_copy v0 01", "register v0 0000", "backfill v0 b0 aabb", "push_copy v0 02"],
    ];
    for (di, d) in dsts.iter().enumerate() {
        for (si, s) in srcs.iter().enumerate() {
            let mut ops = c(&["new", "new"]);
            ops.extend(c(s));
            ops.extend(c(d));
            ops.push(if (di + si) % 3 == 0 { "unwinding clone_from v1 v0".into() } else { "clone_from v1 v0".into() });
            // the overwritten destination now is v2 (v1 died); later v0 is overwritten in turn and becomes v3
            ops.extend(c(&["push_copy v2 e1", "read v2 3", "push_copy v0 e0", "consume v0 1", "clone_from v0 v2", "read v3 100000", "drop v3", "read v2 100000"]));
            cases.push(ops);
        }
    }
    // anchored slices and arenas (each clone_from retires the destination's handle and appends a new one)
    cases.push(c(&["new_arena", "read_n a0 8 2 0102030405060708 d8", "read_n a0 4 2 a1a2a3a4 d4", "s_clone_from s0 s1", "s_drop s1", "s_default",
        "s_clone_from s2 s3", "unwinding s_clone_from s3 s4", "drop_arena a0", "s_drop s4", "s_drop s5"]));
    // a destination without a chunk (Default) overwritten with a real slice must keep the chunk alive on its own
    cases.push(c(&["new_arena", "read_n a0 8 2 0102030405060708 d8", "s_default", "s_clone_from s1 s0", "s_drop s0", "drop_arena a0", "new_arena",
        "read_n a1 8 2 1112131415161718 d8", "s_drop s2", "s_drop s3", "drop_arena a1"]));
    cases.push(c(&["new_arena", "new_arena", "read_n a0 8 2 0102030405060708 d8", "read_n a1 4 2 a1a2a3a4 d4", "unwinding s_clone_from s1 s0", "s_drop s0",
        "drop_arena a0", "read_n a1 4 2 b1b2b3b4 d4", "s_drop s2", "s_drop s3", "drop_arena a1"]));
    cases.push(c(&["new_arena", "new_arena", "read_n a0 8 2 0102030405060708 d8", "a_clone_from a1 a0", "read_n a2 4 2 a1a2a3a4 d4", "drop_arena a0",
        "read_n a2 4 2 b1b2b3b4 d4", "new_arena", "unwinding a_clone_from a2 a3", "drop_arena a3", "drop_arena a4", "s_drop s0", "s_drop s1", "s_drop s2"]));
    cases
}

//! Family `iovec`, public-API completion (track `apigaps`): op words for the public functions of
//! `owning_iovec` that the family did not call yet.  The model side is
//! `lean/Woodpile/Model/IovecApi.lean` (one function per method) and `stepApi` in
//! `lean/Woodpile/Driver/Iovec.lean`.
//!
//!   from_iter <hex|hex..>            `FromIterator<IoSlice>`      (new iovec handle)
//!   from_iter_ref <hex|hex..>        `FromIterator<&IoSlice>`     (new iovec handle)
//!   new_from_slices_arena a<j> <..>  `new_from_slices(slices, Some(arena))`
//!   new_default                      `OwningIovec::default()`
//!   a_clone a<j>|v<i>                `ByteArena::clone()`         (new arena handle)
//!   s_default                        `AnchoredSlice::default()`   (new slice handle)
//!   bref_default v<i>                `Backref::default()`         (new token handle, owner v<i>)
//!   front v<i> / iter v<i>           `front()`, `IntoIterator for &OwningIovec`
//!   flatten_into v<i> <dst>          `OwningIovec::flatten_into(dst)`
//!   stable v<i> <dst>                `stable_consumer()`: Ok -> `StableIovec::{iovs, flatten, flatten_into}`,
//!                                    Err -> the `ConsumingIovec` handed back is read through `Deref`
//!   try_stable v<i>                  `StableIovec::try_from(consumer())`, both outcomes
//!   sc_consume|sc_pop                consumer call through `stable_consumer()`'s Ok (DerefMut) or Err side
//!   sc_advance|sc_read               the same through `StableIovec::try_from(consumer())`
//!   is_last v<i>|a<j> s<k>|f<i>|l<i> `ByteArena::is_last` on an anchored slice / first / last stable slice
//!   sink_copy|sink_borrow v<i> dyn|ref|refdyn <hex>   `ZeroCopySink` through `dyn`, `impl for &mut T`, both
//!   c_reserve v<i> <k>               `ConsumingIovec::arena()`
//!
//! Oracles (on the real code, independent of the model): every new read accessor must agree with
//! `stable_prefix()` (C03), expose only bytes that precede the first pending placeholder of the shadow
//! buffer (C04), only slices inside live chunks / caller buffers (C05); `flatten_into` must keep `dst`.
use super::*;
use owning_iovec::{StableIovec, ZeroCopySink};

pub(super) fn fmt_bytes(b: &[u8]) -> String {
    if b.len() <= 16 {
        to_hex(b)
    } else {
        format!("#{}:{:016x}", b.len(), fnv64(b))
    }
}

fn via_dyn(d: &mut dyn ZeroCopySink<'static>, copy: bool, bytes: &'static [u8]) {
    if copy {
        d.append_copy(bytes)
    } else {
        d.append_borrow(bytes)
    }
}

fn via_impl<'a>(mut d: impl ZeroCopySink<'a>, copy: bool, bytes: &'a [u8]) {
    if copy {
        d.append_copy(bytes)
    } else {
        d.append_borrow(bytes)
    }
}

impl IovecExec {
    fn live_iov(&self, t: &str) -> Option<usize> {
        let i = handle('v', t)?;
        if self.iovs.get(i).map(|v| v.is_some()).unwrap_or(false) {
            Some(i)
        } else {
            None
        }
    }

    /// canonical addresses of raw (ptr, len) slices; reports C05 for the ones outside live memory
    fn canon_list(&self, so: &mut StepOut, what: &str, raw: &[(usize, usize)]) -> String {
        let (live, _) = ByteArena::verif_live_chunks();
        let mut out = Vec::new();
        for (p, l) in raw {
            match self.canon(*p, *l, &live) {
                Some(a) => out.push(a),
                None => {
                    so.violations.push(format!("C05 {} exposes a slice outside live memory", what));
                    out.push("DEAD".into());
                }
            }
        }
        if out.is_empty() {
            "-".into()
        } else {
            out.join(",")
        }
    }

    /// C04/C03 shadow check of bytes some read accessor exposed for iovec `i`
    fn exposed_oracle(&self, so: &mut StepOut, i: usize, what: &str, bytes: &[u8], must_be_all: bool) {
        let sh = &self.shadows[i];
        if sh.unknown {
            return;
        }
        let exp = sh.expected_stable();
        if !exp.starts_with(bytes) {
            so.violations.push(format!(
                "C04 v{} {} exposes bytes that are not a prefix of the bytes appended before the first pending placeholder",
                i, what
            ));
        } else if must_be_all && !sh.pending() && bytes != &exp[..] {
            so.violations.push(format!("C03 v{} {} does not return every buffered byte although nothing is pending", i, what));
        }
    }

    fn finish_api(&mut self, mut so: StepOut, touched: Option<usize>) -> StepOut {
        if so.violations.iter().any(|v| v.starts_with("C05")) {
            // never read through a dangling pointer: stop the case here
            self.dead_memory = true;
            return so;
        }
        self.describe(&mut so, touched);
        if so.violations.iter().any(|v| v.starts_with("C05")) {
            self.dead_memory = true;
        }
        so
    }

    fn lend_all(&mut self, bufs: Vec<Vec<u8>>, sh: &mut Shadow) -> Vec<IoSlice<'static>> {
        let mut slices = Vec::new();
        for b in bufs {
            sh.cells.extend(b.iter().map(|x| Cell::Byte(*x)));
            let s = self.add_buf(b);
            slices.push(IoSlice::new(s));
        }
        slices
    }

    /// the stable prefix as raw (ptr, len) pairs and its concatenated bytes
    fn raw_stable(&self, i: usize) -> (Vec<(usize, usize)>, Vec<u8>) {
        let v = self.iovs[i].as_ref().unwrap();
        let mut raw = Vec::new();
        let mut bytes = Vec::new();
        for s in v.stable_prefix() {
            raw.push((s.as_ptr() as usize, s.len()));
        }
        // bytes are only read after the containment check of the caller
        let (live, _) = ByteArena::verif_live_chunks();
        for (p, l) in &raw {
            if self.canon(*p, *l, &live).is_some() {
                bytes.extend_from_slice(unsafe { std::slice::from_raw_parts(*p as *const u8, *l) });
            }
        }
        (raw, bytes)
    }

    /// `step_api` plus `# stat` tags (which op ran, and which outcome it had) for the evidence file
    pub(super) fn step_api_tagged(&mut self, w: &[&str]) -> Option<StepOut> {
        let mut r = self.step_api(w)?;
        let first = r.obs.first().cloned().unwrap_or_default();
        if first != "bad-op" {
            r.tags.push(format!("api.{}", w[0]));
            let outcome = ["R ok", "R err", "R none", "R front=none", "R 0", "R 1"].iter().find(|p| {
                first == **p || first.starts_with(&format!("{} ", p))
            });
            if let Some(o) = outcome {
                r.tags.push(format!("api.{}:{}", w[0], o[2..].replace('=', "_")));
            }
        }
        Some(r)
    }

    fn step_api(&mut self, w: &[&str]) -> Option<StepOut> {
        let mut so = StepOut::default();
        let bad = || Some(StepOut::bad());
        match w {
            ["new_default"] => {
                self.iovs.push(Some(OwningIovec::default()));
                self.shadows.push(Shadow::default());
                Some(self.finish_api(so, None))
            }
            ["s_default"] => {
                let a = AnchoredSlice::default();
                if !a.slice().is_empty() {
                    so.violations.push("C05 AnchoredSlice::default() is not empty".into());
                }
                self.aslices.push(Some(a));
                Some(self.finish_api(so, None))
            }
            ["bref_default", v] => {
                let Some(i) = self.live_iov(v) else { return bad() };
                let b = Backref::default();
                so.obs.push(format!("R len={}", b.len()));
                if !b.is_empty() || b.len() != 0 {
                    so.violations.push("C03 Backref::default() is not the zero-sized backref".into());
                }
                self.brefs.push(Some(b));
                self.bref_owner.push(i);
                Some(self.finish_api(so, Some(i)))
            }
            ["a_clone", x] => {
                let (c, touched) = if let Some(j) = handle('a', x) {
                    let Some(Some(a)) = self.arenas.get(j) else { return bad() };
                    (a.clone(), None)
                } else if let Some(i) = self.live_iov(x) {
                    (self.iovs[i].as_mut().unwrap().arena().clone(), Some(i))
                } else {
                    return bad();
                };
                if c.remaining() != 0 {
                    so.violations.push("C05 a cloned ByteArena shares its source's allocation cache".into());
                }
                self.arenas.push(Some(c));
                Some(self.finish_api(so, touched))
            }
            [op @ ("from_iter" | "from_iter_ref"), hexes] => {
                let Some(bufs) = parse_hex_list(hexes) else { return bad() };
                let mut sh = Shadow::default();
                let slices = self.lend_all(bufs, &mut sh);
                let v: OwningIovec<'static> = if *op == "from_iter" {
                    slices.into_iter().collect()
                } else {
                    // `FromIterator<&'life IoSlice<'life>>` copies the items out; the reference itself is
                    // not retained, so stretching the borrow of the local vector is fine
                    let r: &'static [IoSlice<'static>] = unsafe { std::mem::transmute(&slices[..]) };
                    let v = r.iter().collect();
                    drop(slices);
                    v
                };
                self.iovs.push(Some(v));
                self.shadows.push(sh);
                Some(self.finish_api(so, None))
            }
            ["new_from_slices_arena", a, hexes] => {
                let (Some(j), Some(bufs)) = (handle('a', a), parse_hex_list(hexes)) else { return bad() };
                if self.arenas.get(j).map(|x| x.is_none()).unwrap_or(true) {
                    return bad();
                }
                let mut sh = Shadow::default();
                let slices = self.lend_all(bufs, &mut sh);
                let ar = self.arenas[j].take().unwrap();
                self.iovs.push(Some(OwningIovec::new_from_slices(slices, Some(ar))));
                self.shadows.push(sh);
                Some(self.finish_api(so, None))
            }
            ["front", v] => {
                let Some(i) = self.live_iov(v) else { return bad() };
                let (raw, _) = self.raw_stable(i);
                let f = self.iovs[i].as_ref().unwrap().front().map(|s| (s.as_ptr() as usize, s.len()));
                match f {
                    None => {
                        so.obs.push("R front=none".into());
                        if !raw.is_empty() {
                            so.violations.push(format!("C03 v{} front() is None although the stable prefix is not empty", i));
                        }
                    }
                    Some((p, l)) => {
                        let at = self.canon_list(&mut so, &format!("v{} front()", i), &[(p, l)]);
                        if at != "DEAD" {
                            let bytes = unsafe { std::slice::from_raw_parts(p as *const u8, l) };
                            so.obs.push(format!("R front={} bytes={}", at, fmt_bytes(bytes)));
                            if raw.first() != Some(&(p, l)) {
                                so.violations.push(format!("C03 v{} front() is not the first slice of the stable prefix", i));
                            }
                            if l == 0 {
                                so.violations.push(format!("C03 v{} front() is an empty slice", i));
                            }
                            self.exposed_oracle(&mut so, i, "front()", bytes, false);
                        }
                    }
                }
                Some(self.finish_api(so, Some(i)))
            }
            ["iter", v] => {
                let Some(i) = self.live_iov(v) else { return bad() };
                let (raw, _) = self.raw_stable(i);
                let it: Vec<(usize, usize)> = {
                    let v: &OwningIovec<'static> = self.iovs[i].as_ref().unwrap();
                    let mut a: Vec<(usize, usize)> = v.into_iter().map(|s| (s.as_ptr() as usize, s.len())).collect();
                    let mut b = Vec::new();
                    for s in v {
                        b.push((s.as_ptr() as usize, s.len()));
                    }
                    if a != b {
                        a.clear();
                        so.violations.push(format!("C03 v{} two iterations over &OwningIovec differ", i));
                    }
                    a
                };
                let at = self.canon_list(&mut so, &format!("v{} iteration", i), &it);
                if !at.contains("DEAD") {
                    let mut bytes = Vec::new();
                    for (p, l) in &it {
                        bytes.extend_from_slice(unsafe { std::slice::from_raw_parts(*p as *const u8, *l) });
                    }
                    so.obs.push(format!("R iter n={} at={} bytes={}", it.len(), at, fmt_bytes(&bytes)));
                    if it != raw {
                        so.violations.push(format!("C03 v{} iterating &OwningIovec does not yield the stable prefix", i));
                    }
                    self.exposed_oracle(&mut so, i, "iteration", &bytes, true);
                }
                Some(self.finish_api(so, Some(i)))
            }
            ["try_stable", v] => {
                let Some(i) = self.live_iov(v) else { return bad() };
                let pend = self.iovs[i].as_ref().unwrap().has_pending_backrefs();
                let line = match StableIovec::try_from(self.iovs[i].as_mut().unwrap().consumer()) {
                    Ok(st) => format!("R ok len={} size={}", st.len(), st.total_size()),
                    Err(c) => format!("R err len={} size={}", c.len(), c.total_size()),
                };
                if line.starts_with("R ok") == pend {
                    so.violations.push(format!("C04 v{} StableIovec::try_from Ok={} with pending={}", i, !pend, pend));
                }
                if !self.shadows[i].unknown && line.starts_with("R ok") == self.shadows[i].pending() {
                    so.violations.push(format!("C04 v{} StableIovec::try_from disagrees with the shadow's pending placeholders", i));
                }
                so.obs.push(line);
                Some(self.finish_api(so, Some(i)))
            }
            ["sc_pop", v] => {
                let Some(i) = self.live_iov(v) else { return bad() };
                let before = self.iovs[i].as_ref().unwrap().total_size();
                let side = match self.iovs[i].as_mut().unwrap().stable_consumer() {
                    Ok(mut st) => {
                        st.pop_front();
                        "ok"
                    }
                    Err(mut c) => {
                        c.pop_front();
                        "err"
                    }
                };
                so.obs.push(format!("R {}", side));
                self.consumed_oracle(&mut so, i, before, None);
                Some(self.finish_api(so, Some(i)))
            }
            ["is_last", x, t] => {
                // the slice, as raw parts
                let sl: Option<(usize, usize)> = if let Some(k) = handle('s', t) {
                    let Some(Some(a)) = self.aslices.get(k) else { return bad() };
                    Some((a.slice().as_ptr() as usize, a.slice().len()))
                } else if let Some(i) = handle('f', t).or(handle('l', t)) {
                    let Some(Some(v)) = self.iovs.get(i) else { return bad() };
                    let sp = v.stable_prefix();
                    let pick = if handle('f', t).is_some() { sp.first() } else { sp.last() };
                    match pick {
                        Some(s) => Some((s.as_ptr() as usize, s.len())),
                        None => None,
                    }
                } else {
                    return bad();
                };
                let arena: &ByteArena = if let Some(i) = handle('v', x) {
                    let Some(Some(v)) = self.iovs.get_mut(i) else { return bad() };
                    v.arena()
                } else if let Some(j) = handle('a', x) {
                    let Some(Some(a)) = self.arenas.get(j) else { return bad() };
                    a
                } else {
                    return bad();
                };
                match sl {
                    None => so.obs.push("R none".into()),
                    Some((p, l)) => {
                        // (an empty slice may carry a dangling-but-aligned pointer; never dereferenced here)
                        let s = IoSlice::new(unsafe { std::slice::from_raw_parts(p as *const u8, l) });
                        so.obs.push(format!("R {}", arena.is_last(s) as u8));
                    }
                }
                Some(self.finish_api(so, None))
            }
            [op @ ("flatten_into" | "stable"), v, dst] => {
                let (Some(i), Some(dst)) = (self.live_iov(v), from_hex(dst)) else { return bad() };
                let (raw, bytes) = self.raw_stable(i);
                let at = self.canon_list(&mut so, &format!("v{} stable_prefix()", i), &raw);
                if at.contains("DEAD") {
                    return Some(self.finish_api(so, Some(i)));
                }
                let mut want = dst.clone();
                want.extend_from_slice(&bytes);
                let pend = self.iovs[i].as_ref().unwrap().has_pending_backrefs();
                if *op == "flatten_into" {
                    let r = self.iovs[i].as_ref().unwrap().flatten_into(dst.clone());
                    let okf = r.is_ok();
                    let got = match r {
                        Ok(b) | Err(b) => b,
                    };
                    so.obs.push(format!("R {} {}", if okf { "ok" } else { "err" }, fmt_bytes(&got)));
                    if !got.starts_with(&dst) {
                        so.violations.push(format!("C03 v{} flatten_into(dst) does not keep dst's contents in front", i));
                    } else {
                        if got != want {
                            so.violations.push(format!("C03 v{} flatten_into(dst) != dst ++ stable prefix", i));
                        }
                        self.exposed_oracle(&mut so, i, "flatten_into", &got[dst.len()..], true);
                    }
                    if okf == pend || (!self.shadows[i].unknown && okf == self.shadows[i].pending()) {
                        so.violations.push(format!("C04 v{} flatten_into Ok={} with pending={}", i, okf, pend));
                    }
                } else {
                    let line;
                    let mut exposed: Option<(Vec<(usize, usize)>, Vec<u8>, Vec<u8>)> = None;
                    match self.iovs[i].as_mut().unwrap().stable_consumer() {
                        Ok(st) => {
                            let iovs: Vec<(usize, usize)> = st.iovs().iter().map(|s| (s.as_ptr() as usize, s.len())).collect();
                            let fl = st.flatten();
                            let into = st.flatten_into(dst.clone());
                            exposed = Some((iovs, fl, into));
                            line = String::new();
                        }
                        Err(c) => {
                            let sp: Vec<(usize, usize)> = c.stable_prefix().iter().map(|s| (s.as_ptr() as usize, s.len())).collect();
                            if sp != raw {
                                so.violations.push(format!("C03 v{} the ConsumingIovec returned as Err sees another stable prefix", i));
                            }
                            line = format!("R err size={} iovs={}", c.total_size(), at);
                        }
                    }
                    let okf = exposed.is_some();
                    if let Some((iovs, fl, into)) = exposed {
                        let iat = self.canon_list(&mut so, &format!("v{} StableIovec::iovs()", i), &iovs);
                        so.obs.push(format!("R ok iovs={} flat={} into={}", iat, fmt_bytes(&fl), fmt_bytes(&into)));
                        if iovs != raw {
                            so.violations.push(format!("C03 v{} StableIovec::iovs() is not the stable prefix", i));
                        }
                        if fl != bytes {
                            so.violations.push(format!("C03 v{} StableIovec::flatten() != concatenated slices", i));
                        }
                        if into != want {
                            so.violations.push(format!("C03 v{} StableIovec::flatten_into(dst) != dst ++ contents", i));
                        }
                        self.exposed_oracle(&mut so, i, "StableIovec::flatten", &fl, true);
                    } else {
                        so.obs.push(line);
                    }
                    if okf == pend || (!self.shadows[i].unknown && okf == self.shadows[i].pending()) {
                        so.violations.push(format!("C04 v{} stable_consumer Ok={} with pending={}", i, okf, pend));
                    }
                }
                Some(self.finish_api(so, Some(i)))
            }
            [op @ ("sc_consume" | "sc_advance" | "sc_read" | "c_reserve"), v, k] => {
                let (Some(i), Ok(k)) = (self.live_iov(v), k.parse::<usize>()) else { return bad() };
                let before = self.iovs[i].as_ref().unwrap().total_size();
                let nslices_before = self.iovs[i].as_ref().unwrap().len();
                let iov = self.iovs[i].as_mut().unwrap();
                match *op {
                    "c_reserve" => iov.consumer().arena().ensure_capacity(k),
                    "sc_consume" => {
                        let (side, n) = match iov.stable_consumer() {
                            Ok(mut st) => ("ok", st.consume(k)),
                            Err(mut c) => ("err", c.consume(k)),
                        };
                        so.obs.push(format!("R {} {}", side, n));
                        let nslices_after = self.iovs[i].as_ref().unwrap().len();
                        if nslices_before - nslices_after != n || n > k {
                            so.violations.push(format!("C03 v{} consume({}) via stable_consumer reported {} but removed {} slices", i, k, n, nslices_before - nslices_after));
                        }
                        self.consumed_oracle(&mut so, i, before, None);
                    }
                    "sc_advance" => {
                        let (side, n) = match StableIovec::try_from(iov.consumer()) {
                            Ok(mut st) => ("ok", st.advance_slices(k)),
                            Err(mut c) => ("err", c.advance_slices(k)),
                        };
                        so.obs.push(format!("R {} {}", side, n));
                        let after = self.iovs[i].as_ref().unwrap().total_size();
                        if before - after != n || n > k {
                            so.violations.push(format!("C03 v{} advance_slices({}) via StableIovec reported {} but removed {} bytes", i, k, n, before - after));
                        }
                        self.consumed_oracle(&mut so, i, before, None);
                    }
                    _ => {
                        let mut dst = vec![0u8; k];
                        let (side, n) = match StableIovec::try_from(iov.consumer()) {
                            Ok(mut st) => ("ok", st.read(&mut dst).unwrap_or(usize::MAX)),
                            Err(mut c) => ("err", c.read(&mut dst).unwrap_or(usize::MAX)),
                        };
                        if n > k {
                            so.violations.push(format!("C03 v{} Read via StableIovec failed or overran", i));
                            dst.clear();
                        } else {
                            dst.truncate(n);
                        }
                        so.obs.push(format!("R {} {}", side, to_hex(&dst)));
                        self.consumed_oracle(&mut so, i, before, Some(&dst));
                    }
                }
                Some(self.finish_api(so, Some(i)))
            }
            [op @ ("sink_copy" | "sink_borrow"), v, mode, hex] => {
                let (Some(i), Some(bytes)) = (self.live_iov(v), from_hex(hex)) else { return bad() };
                if !matches!(*mode, "dyn" | "ref" | "refdyn") {
                    return bad();
                }
                let copy = *op == "sink_copy";
                self.push_shadow_bytes(i, &bytes);
                // a copied source needs no caller buffer (and the model registers none)
                let src: &'static [u8] = if copy {
                    unsafe { std::slice::from_raw_parts(bytes.as_ptr(), bytes.len()) }
                } else {
                    self.add_buf(bytes.clone())
                };
                let iov: &mut OwningIovec<'static> = self.iovs[i].as_mut().unwrap();
                match *mode {
                    "dyn" => via_dyn(iov, copy, src),
                    "ref" => via_impl(&mut *iov, copy, src),
                    _ => {
                        let mut r: &mut OwningIovec<'static> = &mut *iov;
                        via_dyn(&mut r, copy, src)
                    }
                }
                drop(bytes);
                Some(self.finish_api(so, Some(i)))
            }
            _ => None,
        }
    }
}

// ------------------------------------------------------------------ generator

fn dst_hex(rng: &mut Rng) -> String {
    let n = *rng.pick(&[0usize, 0, 1, 3, 20]);
    let v: Vec<u8> = (0..n).map(|k| 0xD0u8.wrapping_add(k as u8)).collect();
    to_hex(&v)
}

fn parts(g: &mut Gen<'_>, max: u64) -> String {
    let n = g.rng.range(0, max) as usize;
    let parts: Vec<String> = (0..n).map(|_| g.payload()).collect();
    if parts.is_empty() {
        "-".to_string()
    } else {
        parts.join("|")
    }
}

/// One op of the new vocabulary on iovec `v`; `false` = nothing was generated.
pub(super) fn gen_op(g: &mut Gen<'_>, v: usize) -> bool {
    match g.rng.below(26) {
        0 | 1 => {
            let kind = *g.rng.pick(&["from_iter", "from_iter_ref"]);
            let p = parts(g, 4);
            g.ops.push(format!("{} {}", kind, p));
            g.new_iov();
        }
        2 => {
            if let Some(a) = Gen::pick_alive(g.rng, &g.arena_alive) {
                let p = parts(g, 3);
                g.ops.push(format!("new_from_slices_arena a{} {}", a, p));
                g.arena_alive[a] = false;
                g.new_iov();
            } else {
                g.ops.push("new_default".into());
                g.new_iov();
            }
        }
        3 | 4 => g.ops.push(format!("front v{}", v)),
        5 | 6 => g.ops.push(format!("iter v{}", v)),
        7 | 8 => {
            let d = dst_hex(g.rng);
            g.ops.push(format!("flatten_into v{} {}", v, d));
        }
        9 | 10 => {
            let d = dst_hex(g.rng);
            g.ops.push(format!("stable v{} {}", v, d));
        }
        11 => g.ops.push(format!("try_stable v{}", v)),
        12 | 13 | 14 => {
            let k = match g.rng.below(6) {
                0 => 0,
                1 => 1,
                2 => g.rng.range(1, 5),
                3 => g.rng.range(1, 70),
                4 => g.rng.range(60, 300),
                _ => 5000,
            };
            let kind = *g.rng.pick(&["sc_consume", "sc_advance", "sc_read"]);
            g.ops.push(format!("{} v{} {}", kind, v, k));
        }
        15 => {
            if g.rng.chance(1, 4) {
                g.ops.push(format!("sc_pop v{}", v))
            } else {
                g.ops.push(format!("sc_consume v{} 1", v))
            }
        }
        16 | 17 | 18 => {
            // is_last: own arena / a detached arena  x  anchored slice / first / last stable slice
            let arena = if g.rng.chance(1, 4) {
                Gen::pick_alive(g.rng, &g.arena_alive).map(|a| format!("a{}", a)).unwrap_or(format!("v{}", v))
            } else {
                format!("v{}", v)
            };
            let target = match g.rng.below(4) {
                0 => Gen::pick_alive(g.rng, &g.slice_alive).map(|s| format!("s{}", s)).unwrap_or(format!("l{}", v)),
                1 => format!("f{}", v),
                _ => format!("l{}", v),
            };
            g.ops.push(format!("is_last {} {}", arena, target));
        }
        19 | 20 | 21 => {
            let kind = *g.rng.pick(&["sink_copy", "sink_borrow", "sink_borrow"]);
            let mode = *g.rng.pick(&["dyn", "ref", "refdyn"]);
            let p = g.payload();
            g.ops.push(format!("{} v{} {} {}", kind, v, mode, p));
        }
        22 => {
            let n = *g.rng.pick(&[0u64, 1, 100, 4096, 4097, 9000]);
            g.ops.push(format!("c_reserve v{} {}", v, n));
        }
        23 => {
            let x = if g.rng.chance(1, 2) {
                Gen::pick_alive(g.rng, &g.arena_alive).map(|a| format!("a{}", a)).unwrap_or(format!("v{}", v))
            } else {
                format!("v{}", v)
            };
            g.ops.push(format!("a_clone {}", x));
            g.n_arena += 1;
            g.arena_alive.push(true);
        }
        24 => {
            g.ops.push("s_default".into());
            g.n_slice += 1;
            g.slice_alive.push(true);
        }
        _ => {
            g.ops.push(format!("bref_default v{}", v));
            // "pending" so that the generator backfills it (with an empty source, rarely a 1-byte one)
            g.bref_state.push((v, 0, true));
            g.n_bref += 1;
        }
    }
    true
}

/// Scripted histories for the new vocabulary (run before the random ones).
pub(super) fn enumerated_cases() -> Vec<Vec<String>> {
    let pay = |tag: u8, n: usize| to_hex(&(0..n).map(|k| tag.wrapping_add(k as u8)).collect::<Vec<u8>>());
    let c = |ops: &[String]| ops.to_vec();
    let s = |x: &str| x.to_string();
    let mut cases: Vec<Vec<String>> = Vec::new();

    // (1) Read / front / iter / flatten with a pending placeholder in the middle: destination sizes
    // below, at and above the first slice (70) and the stable prefix (70 bytes: the merged arena slice
    // `01 02 03 __ __ 04` is hidden as a whole), then after the backfill (stable = 70 + 6 + 70).
    for via in ["read", "sc_read"] {
        for k in [0usize, 1, 69, 70, 71, 73, 75, 76, 77, 145, 146, 147, 400] {
            for fill_first in [false, true] {
                let mut ops = vec![
                    s("new"),
                    format!("push_borrowed v0 {}", pay(0x10, 70)),
                    s("push_copy v0 010203"),
                    s("register v0 0000"),
                    s("push_copy v0 04"),
                    format!("sink_borrow v0 dyn {}", pay(0x80, 70)),
                ];
                if fill_first {
                    ops.push(s("backfill v0 b0 0506"));
                }
                ops.extend([s("front v0"), s("iter v0"), s("flatten_into v0 aabb"), s("stable v0 cc"), s("try_stable v0")]);
                ops.push(format!("{} v0 {}", via, k));
                ops.extend([s("front v0"), s("iter v0"), s("flatten_into v0 -"), s("stable v0 -")]);
                if !fill_first {
                    ops.push(s("backfill v0 b0 0506"));
                    ops.push(format!("{} v0 {}", via, k));
                    ops.extend([s("front v0"), s("flatten_into v0 ee"), s("stable v0 ff")]);
                }
                cases.push(ops);
            }
        }
    }

    // (2) from_iter (both impls) / new_from_slices with an arena: empty slices in every position, order
    // visible in the payload, then everything that reads it back, then mixed with arena pushes.
    let a = pay(0x20, 3);
    let b = pay(0x40, 70);
    let d = pay(0x60, 2);
    let shapes: Vec<Vec<&str>> = vec![
        vec![],
        vec!["-"],
        vec![&a],
        vec!["-", &a],
        vec![&a, "-"],
        vec![&a, &b],
        vec![&b, &a],
        vec![&a, "-", &b, "-", &d],
        vec!["-", "-", &d, &a, &b, "-"],
    ];
    for shape in &shapes {
        let arg = if shape.is_empty() { s("-") } else { shape.join("|") };
        for ctor in ["from_iter", "from_iter_ref", "new_from_slices_arena"] {
            let mut ops: Vec<String> = Vec::new();
            if ctor == "new_from_slices_arena" {
                ops.extend([s("new_arena"), s("a_reserve a0 100"), format!("new_from_slices_arena a0 {}", arg)]);
            } else {
                ops.push(format!("{} {}", ctor, arg));
            }
            ops.extend([
                s("front v0"),
                s("iter v0"),
                s("flatten_into v0 0102"),
                s("stable v0 03"),
                s("is_last v0 f0"),
                s("push_copy v0 a1a2"),
                s("is_last v0 l0"),
                s("sink_copy v0 ref a3"),
                s("is_last v0 l0"),
                s("iter v0"),
                s("sc_consume v0 1"),
                s("front v0"),
                s("sc_advance v0 2"),
                s("front v0"),
                s("flatten_into v0 -"),
                s("sc_read v0 500"),
                s("front v0"),
            ]);
            cases.push(ops);
        }
    }

    // (3) is_last: the arena's last allocation is exactly the slice that ends at the bump pointer
    cases.push(c(&[
        s("new"),
        s("is_last v0 f0"),
        s("push_copy v0 0102"),
        s("is_last v0 f0"),
        s("push_copy v0 03"),
        s("is_last v0 l0"),
        format!("push_borrowed v0 {}", pay(1, 70)),
        s("is_last v0 l0"),
        s("is_last v0 f0"),
        s("push_copy v0 04"),
        s("is_last v0 l0"),
        s("is_last v0 f0"),
        format!("read_n v0 10 4 {} d10", pay(7, 14)),
        s("is_last v0 s0"),
        s("is_last v0 l0"),
        s("s_clone s0"),
        s("s_dropsuf s0 1"),
        s("is_last v0 s0"),
        s("s_skip s1 10"),
        s("is_last v0 s1"),
        s("s_skip s0 3"),
        s("is_last v0 s0"),
        s("s_default"),
        s("is_last v0 s2"),
        s("take_arena v0"),
        s("is_last v0 s1"),
        s("is_last a0 s1"),
        s("is_last a0 l0"),
        s("a_clone a0"),
        s("is_last a1 s1"),
        s("a_reserve a0 9000"),
        s("is_last a0 s1"),
        s("push_aslice v0 s2"),
        s("push_aslice v0 s1"),
        s("iter v0"),
    ]));
    cases.push(c(&[
        s("new"),
        s("new_arena"),
        format!("read_n a0 8 4 {} d3,e", pay(7, 12)),
        s("is_last a0 s0"),
        format!("read_n a0 8 4 {} x0,x3", pay(7, 12)),
        s("is_last a0 s0"),
        format!("read_n a0 5 4 {} d5", pay(9, 9)),
        s("is_last a0 s0"),
        s("is_last a0 s1"),
        s("a_flush a0"),
        s("is_last a0 s1"),
        s("is_last v0 s1"),
    ]));

    // (4) every sink mode, sizes on both sides of the copy thresholds (64 / 256 after an arena slice)
    for mode in ["dyn", "ref", "refdyn"] {
        for n in [0usize, 1, 64, 65, 256, 257] {
            cases.push(c(&[
                s("new"),
                format!("sink_copy v0 {} {}", mode, pay(3, 5)),
                format!("sink_borrow v0 {} {}", mode, pay(9, n)),
                format!("sink_copy v0 {} {}", mode, pay(5, n)),
                format!("sink_borrow v0 {} {}", mode, pay(11, 300)),
                format!("sink_borrow v0 {} {}", mode, pay(13, n)),
                s("iter v0"),
                s("stable v0 -"),
            ]));
        }
    }

    // (5) both outcomes of stable_consumer / try_from, and the Err side used as a consumer
    cases.push(c(&[
        s("new"),
        s("try_stable v0"),
        s("stable v0 aa"),
        format!("push_borrowed v0 {}", pay(0x30, 70)),
        s("push_copy v0 0102"),
        s("try_stable v0"),
        s("register v0 00"),
        s("bref_default v0"),
        s("try_stable v0"),
        s("stable v0 aa"),
        s("sc_consume v0 5"),
        s("sc_advance v0 5"),
        s("try_stable v0"),
        s("backfill v0 b1 -"),
        s("try_stable v0"),
        s("backfill v0 b0 07"),
        s("try_stable v0"),
        s("stable v0 aa"),
        s("sc_pop v0"),
        s("sc_pop v0"),
    ]));
    cases.push(c(&[s("new"), s("register v0 0000"), s("sc_pop v0")]));
    cases.push(c(&[s("new_default"), s("sc_pop v0")]));
    cases.push(c(&[s("new_default"), s("bref_default v0"), s("backfill v0 b0 01")]));
    cases.push(c(&[
        s("new_default"),
        s("c_reserve v0 10"),
        s("push_copy v0 01"),
        s("a_clone v0"),
        s("is_last a0 f0"),
        s("is_last v0 f0"),
        s("c_reserve v0 5000"),
        s("is_last v0 f0"),
    ]));
    cases
}

//! Family `iovec`, track `sraw`: RAW pushes of arena-resident bytes.
//!
//!   push_sraw v<i> s<k>            `iov.push(aslice.slice())`
//!   push_sraw_borrowed v<i> s<k>   `iov.push_borrowed(aslice.slice())`
//!
//! The bytes of the detached anchored slice `s<k>` are pushed as a PLAIN borrowed slice: the
//! `AnchoredSlice` object stays in the harness's table, its own anchor keeps the chunk live, the
//! iovec gets no anchor for it.  This is legal safe-API use (`iov.push_borrowed(aslice.slice())` with
//! the `AnchoredSlice` held elsewhere, outliving the iovec) and the only way to put two ADJACENT
//! pieces of one chunk next to each other in an iovec WITHOUT their being merged at push time (the
//! iovec holds another arena at that moment: `take_arena`, `read_n` into the free-standing arena,
//! raw push, `swap_arena` back).  Anything that re-runs the last-pair merge later (`optimize()` from
//! an empty `extend` item, from `push_anchor`, from `swap_arena` ...) then joins a pair whose second
//! half may hold a pending placeholder, and the logical slice index of the backref is off by one.
//!
//! Borrow discipline: the pushed `&[u8]` borrows `s<k>` for the iovec's lifetime parameter, so in
//! safe Rust `s<k>` can no longer be moved or mutated.  Every iovec of the harness is
//! `OwningIovec<'static>`; hence `s<k>` is PINNED for the rest of the case: `push_aslice`, `s_skip`,
//! `s_dropsuf`, `s_split`, `s_take`, `s_drop` and `s_clone_from` (as the destination) answer `bad-op`
//! on a pinned slice, on both sides (`Driver/Iovec.lean`: `stepSraw`).  `s_clone`, `is_last`, further
//! raw pushes only read it.  At the end of a case iovecs are dropped before slices.
//!
//! Model side: no new `WOp` constructor; the driver calls `World.push` / `World.pushBorrowed` with
//! the slice `(chunk c, off, len)` read from `w.aslices[k]` (histories with these ops are compared,
//! not covered by the per-`WOp` theorems).
//!
//! Generators: `gen_op` (random raw pushes, `extend` with empty items, and the whole hand-off
//! composite), `enumerated_cases` (hand-off histories x probe ops inserted at every point).
use super::*;

impl IovecExec {
    /// ops that would move / mutate a detached slice some iovec borrows from
    pub(super) fn sraw_refuses(&self, w: &[&str]) -> bool {
        let k = match w {
            ["push_aslice", _, s] => handle('s', s),
            ["s_skip" | "s_dropsuf" | "s_split" | "s_clone_from", s, _] => handle('s', s),
            ["s_take" | "s_drop", s] => handle('s', s),
            _ => None,
        };
        k.map(|k| self.pinned.contains(&k)).unwrap_or(false)
    }

    pub(super) fn step_sraw(&mut self, w: &[&str]) -> Option<StepOut> {
        let mut so = StepOut::default();
        match w {
            [op @ ("push_sraw" | "push_sraw_borrowed"), v, s] => {
                let (Some(i), Some(k)) = (handle('v', v), handle('s', s)) else { return Some(StepOut::bad()) };
                if !self.iovs.get(i).map(|x| x.is_some()).unwrap_or(false) {
                    return Some(StepOut::bad());
                }
                let Some(Some(a)) = self.aslices.get(k) else { return Some(StepOut::bad()) };
                // C05 first: never read through a slice that is not inside live memory
                if !a.slice().is_empty() {
                    let (live, _) = ByteArena::verif_live_chunks();
                    if self.canon(a.slice().as_ptr() as usize, a.slice().len(), &live).is_none() {
                        so.violations.push(format!("C05 anchored slice s{} points outside live memory ({})", k, op));
                        self.dead_memory = true;
                        return Some(so);
                    }
                }
                // the borrow the caller would hold on `s<k>`: the slice object outlives every iovec of
                // the case (pinned below; `finish` and the field order drop iovecs first)
                let raw: &'static [u8] = unsafe { std::mem::transmute::<&[u8], &'static [u8]>(a.slice()) };
                let bytes = raw.to_vec();
                if !self.pinned.contains(&k) {
                    self.pinned.push(k);
                }
                let iov = self.iovs[i].as_mut().unwrap();
                let n_before = iov.len();
                if *op == "push_sraw" {
                    iov.push(raw);
                } else {
                    iov.push_borrowed(raw);
                }
                let n_after = iov.len();
                self.push_shadow_bytes(i, &bytes);
                so.tags.push(format!("sraw.{}", op));
                if !bytes.is_empty() {
                    so.tags.push(format!("sraw.{}:{}", op, if n_after == n_before { "joined" } else { "appended" }));
                }
                self.describe(&mut so, Some(i));
                if so.violations.iter().any(|v| v.starts_with("C05")) {
                    self.dead_memory = true;
                }
                Some(so)
            }
            _ => None,
        }
    }
}

// ------------------------------------------------------------------ generator

fn pay(tag: u8, n: usize) -> String {
    to_hex(&(0..n).map(|k| tag.wrapping_add(k as u8)).collect::<Vec<u8>>())
}

/// `extend` argument with empty items in it
fn holey_extend_arg(g: &mut Gen<'_>) -> String {
    match g.rng.below(5) {
        0 => "-|-".to_string(),
        1 => format!("{}|-", g.payload()),
        2 => format!("-|{}", g.payload()),
        3 => format!("{}|-|{}", g.payload(), g.payload()),
        _ => "-|-|-".to_string(),
    }
}

/// One op (or the whole hand-off composite) on iovec `v`; `false` = nothing was generated.
pub(super) fn gen_op(g: &mut Gen<'_>, v: usize) -> bool {
    match g.rng.below(10) {
        // a raw push of a live detached slice
        0 | 1 | 2 | 3 => {
            let Some(s) = Gen::pick_alive(g.rng, &g.slice_alive) else { return false };
            let kind = *g.rng.pick(&["push_sraw", "push_sraw_borrowed", "push_sraw_borrowed"]);
            g.ops.push(format!("{} v{} s{}", kind, v, s));
            // pinned from now on: the generator leaves it alone (no moves / mutations), but may push it again
            g.slice_alive[s] = false;
            g.slice_pinned.push(s);
        }
        4 => {
            if g.slice_pinned.is_empty() {
                return false;
            }
            let s = *g.rng.pick(&g.slice_pinned);
            let kind = *g.rng.pick(&["push_sraw", "push_sraw_borrowed"]);
            g.ops.push(format!("{} v{} s{}", kind, v, s));
        }
        5 | 6 => {
            let arg = holey_extend_arg(g);
            g.ops.push(format!("extend v{} {}", v, arg));
        }
        // the hand-off composite: arena out, read into it, raw push, arena back (either order), then
        // something that must not change anything, a placeholder, reads
        _ => {
            let head = *g.rng.pick(&[1usize, 4, 30, 64, 65, 100, 300]);
            let body = *g.rng.pick(&[1usize, 4, 63, 64, 65, 70, 256, 257, 300]);
            g.ops.push(format!("push_copy v{} {}", v, pay(g.rng.next() as u8, head)));
            g.ops.push(format!("take_arena v{}", v));
            let a = g.n_arena;
            g.n_arena += 1;
            g.arena_alive.push(true);
            let script = if g.rng.chance(1, 4) { format!("d{},e", (body / 2).max(1)) } else { format!("d{}", body) };
            g.ops.push(format!("read_n a{} {} 4 {} {}", a, body, pay(g.rng.next() as u8, body + 4), script));
            let s = g.n_slice;
            g.n_slice += 1;
            g.slice_alive.push(false); // pinned at once
            g.slice_pinned.push(s);
            let kind = *g.rng.pick(&["push_sraw", "push_sraw_borrowed", "push_sraw_borrowed"]);
            let push = format!("{} v{} s{}", kind, v, s);
            let swap = format!("swap_arena v{} a{}", v, a);
            if g.rng.chance(2, 3) {
                g.ops.push(push);
                g.ops.push(swap);
            } else {
                g.ops.push(swap);
                g.ops.push(push);
            }
            let n_tail = g.rng.range(1, 4);
            for _ in 0..n_tail {
                match g.rng.below(6) {
                    0 | 1 => {
                        let len = *g.rng.pick(&[1usize, 2, 2, 8]);
                        g.ops.push(format!("register v{} {}", v, to_hex(&vec![0u8; len])));
                        g.bref_state.push((v, len, true));
                        g.n_bref += 1;
                    }
                    2 | 3 => {
                        let arg = holey_extend_arg(g);
                        g.ops.push(format!("extend v{} {}", v, arg));
                    }
                    4 => g.ops.push(format!("push_anchor_default v{} 0", v)),
                    _ => g.ops.push(format!("read v{} {}", v, g.rng.range(0, 400))),
                }
            }
        }
    }
    true
}

// ------------------------------------------------------------------ enumerated cases

/// One hand-off history.  `spare`: the case starts with `new_arena` (a0 = a spare arena the probes can
/// swap through; the hand-off arena then is a1).
fn handoff(head: usize, body: usize, kind: &str, push_first: bool, own: bool, spare: bool, pat: usize, two: bool) -> Vec<String> {
    let s = |x: &str| x.to_string();
    let a = if spare { 1 } else { 0 };
    let mut c: Vec<String> = Vec::new();
    if spare {
        c.push(s("new_arena"));
    }
    c.push(s("new"));
    c.push(format!("push_copy v0 {}", pay(0x10, head)));
    let read = |target: String| format!("read_n {} {} 4 {} d{}", target, body, pay(0x90, body + 4), body);
    let push = format!("{} v0 s0", kind);
    if own {
        // no hand-off: the slice is read into the iovec's own arena and pushed raw at once (joined at push time)
        c.push(read(s("v0")));
        c.push(push);
    } else {
        c.push(s("take_arena v0"));
        c.push(read(format!("a{}", a)));
        if push_first {
            c.push(push);
            c.push(format!("swap_arena v0 a{}", a));
        } else {
            c.push(format!("swap_arena v0 a{}", a));
            c.push(push);
        }
    }
    c.push(format!("register v0 {}", to_hex(&vec![0x3fu8; pat])));
    if two {
        // a second placeholder in the same slice, filled after the first
        c.push(s("register v0 2e"));
    }
    c.push(s("stable v0 -"));
    c.push(s("read v0 2"));
    c.push(format!("backfill v0 b0 {}", pay(0xa0, pat)));
    c.push(s("iter v0"));
    if two {
        c.push(s("read v0 2000"));
        c.push(s("backfill v0 b1 b7"));
    }
    c.push(s("read v0 2000"));
    c
}

/// the iovec an inserted probe should address: the last `v<i>` named before position `p` that is not
/// dropped there (the snapshot histories of `handoff_cases` drop v0 and go on with v1)
fn probe_target(ops: &[String], p: usize) -> usize {
    let mut t = 0usize;
    for o in &ops[..p] {
        let w: Vec<&str> = o.split(' ').collect();
        match w.as_slice() {
            ["clone" | "take", _] => t += 1,
            _ => {}
        }
    }
    // `clone v0` / `take v0` followed by `drop v0`: the live one is the newest handle
    let dropped: Vec<usize> = ops[..p].iter().filter_map(|o| o.strip_prefix("drop v").and_then(|x| x.parse().ok())).collect();
    let mut v = t;
    while dropped.contains(&v) && v > 0 {
        v -= 1;
    }
    v
}

/// Probes that must not change anything an iovec shows (inserted at every point of a history).
fn probes(spare: bool) -> Vec<Vec<&'static str>> {
    let mut p = vec![
        vec!["extend @ -|-"],
        vec!["extend @ -"],
        vec!["extend @ -|-|-"],
        vec!["push_anchor_default @ 0"],
        vec!["sink_borrow @ dyn -"],
        vec!["push_borrowed @ -"],
    ];
    if spare {
        p.push(vec!["swap_arena @ a0", "swap_arena @ a0"]);
    }
    p
}

/// the same with payload around the empty items (these do change the contents)
const LOADED_PROBES: [&str; 2] = ["extend @ aa|-|bb", "extend @ -|cc"];

fn with_probe(base: &[String], p: usize, probe: &[&str]) -> Vec<String> {
    let v = probe_target(base, p);
    let mut c: Vec<String> = base[..p].to_vec();
    for o in probe {
        c.push(o.replace('@', &format!("v{}", v)));
    }
    c.extend_from_slice(&base[p..]);
    c
}

/// Hand-off histories (this file's and `handoff_cases`'s), each with every probe inserted at every
/// point.  Quick tier: the `-|-` probe at every point of a thin slice of the grid, every probe right
/// after the placeholder; thorough tier (which the failing-input search also runs): the full grid.
pub(super) fn enumerated_cases(thorough: bool, older: &[Vec<String>]) -> Vec<Vec<String>> {
    let mut cases: Vec<Vec<String>> = Vec::new();
    let mut bases: Vec<(Vec<String>, bool)> = Vec::new();
    let heads: &[usize] = if thorough { &[4, 100, 300] } else { &[4, 100] };
    let bodies: &[usize] = if thorough { &[4, 65, 300] } else { &[4, 70] };
    for &head in heads {
        for &body in bodies {
            for kind in ["push_sraw_borrowed", "push_sraw"] {
                for push_first in [true, false] {
                    bases.push((handoff(head, body, kind, push_first, false, false, 2, false), false));
                    if thorough {
                        bases.push((handoff(head, body, kind, push_first, false, false, 8, false), false));
                    }
                    if thorough || (head == 4 && body == 4) {
                        bases.push((handoff(head, body, kind, push_first, false, true, 2, false), true));
                    }
                    if push_first && (thorough || head == 4) {
                        bases.push((handoff(head, body, kind, push_first, false, false, 2, true), false));
                    }
                }
                if thorough || head == 4 {
                    bases.push((handoff(head, body, kind, true, true, false, 2, false), false));
                }
            }
        }
    }
    // the plain histories first
    for (b, _) in &bases {
        cases.push(b.clone());
    }
    for (b, spare) in &bases {
        let first = if *spare { 2 } else { 1 }; // after `new`
        let reg = b.iter().position(|o| o.starts_with("register ")).unwrap();
        for (k, probe) in probes(*spare).iter().enumerate() {
            for p in first..=b.len() {
                // quick: probe 0 everywhere, every probe right after the placeholder
                if thorough || k == 0 || p == reg + 1 {
                    cases.push(with_probe(b, p, probe));
                }
            }
        }
        if thorough {
            for probe in LOADED_PROBES {
                for p in first..=b.len() {
                    cases.push(with_probe(b, p, &[probe]));
                }
            }
        }
    }
    // the older hand-off histories (anchors X..Y..X, anchored slice across a rollover): empty `extend`
    // items and a chunk-less anchor at every point
    for (n, b) in older.iter().enumerate() {
        if !thorough && n % 9 != 0 {
            continue;
        }
        for (k, probe) in probes(false).iter().enumerate() {
            if !thorough && k != 0 && k != 3 {
                continue;
            }
            for p in 1..=b.len() {
                cases.push(with_probe(b, p, probe));
            }
        }
        if thorough {
            for p in 1..=b.len() {
                cases.push(with_probe(b, p, &[LOADED_PROBES[0]]));
            }
        }
    }
    // raw pushes after every derivation of a slice, and the raw slice as the only holder of its chunk
    let s = |x: &str| x.to_string();
    for body in [8usize, 70, 300] {
        let read = format!("read_n a0 {} 4 {} d{}", body, pay(0x55, body + 4), body);
        for kind in ["push_sraw_borrowed", "push_sraw"] {
            // the arena is dropped: the detached slice alone keeps the chunk live while the iovec reads it
            cases.push(vec![s("new"), s("new_arena"), read.clone(), format!("{} v0 s0", kind), s("drop_arena a0"), s("iter v0"),
                s("s_drop s0"), s("s_skip s0 1"), s("push_aslice v0 s0"), s("s_clone s0"), format!("{} v0 s1", kind), s("clone v0"),
                s("drop v0"), s("read v1 1000"), format!("{} v1 s0", kind), s("read v1 1000")]);
            // halves of a split pushed raw in both orders (adjacent pieces of a chunk the iovec does not hold)
            cases.push(vec![s("new"), s("new_arena"), read.clone(), format!("s_split s0 {}", body / 2), format!("{} v0 s1", kind),
                format!("{} v0 s2", kind), s("register v0 0000"), s("extend v0 -|-"), s("stable v0 -"), s("swap_arena v0 a0"),
                s("extend v0 -|-"), s("stable v0 -"), format!("{} v0 s2", kind), format!("{} v0 s1", kind), s("extend v0 -|-"),
                s("backfill v0 b0 a1a2"), s("read v0 2000")]);
            // raw, then anchored, pushes of clones of one slice; unwinding
            cases.push(vec![s("new"), format!("read_n v0 {} 4 {} d{}", body, pay(0x66, body + 4), body), s("s_clone s0"),
                format!("unwinding {} v0 s0", kind), s("push_aslice v0 s1"), s("unwinding s_drop s0"), s("extend v0 -|-"),
                format!("{} v0 s0", kind), s("consume v0 1"), s("read v0 2000")]);
        }
    }
    cases
}

//! Standard-trait methods of `SortedDeque` over several object instances (track traits).
//!
//! Same handle ops as the `sdeque` family (`fam_sdeque/traits.rs`; the Lean driver runs
//! `DequeTraits.mstep` with `sortedTraits`):
//!
//!   dnew | ddefault | dstore k | dload k | dswap k | dclone_from k | dclone_into k | dtake k | ddebug
//!
//! (`dnew` and `ddefault` both are `Default::default()`, the only argument-free constructor;
//! `dtake` is `mem::take`.)  Each object is the triple (Vec-backed real deque, SmallVec-backed real
//! deque, reference `BTreeMap`) plus the bookkeeping of the property's preconditions.  Observation:
//! the usual line (`() iter=… first=… last=… empty=… probe=…`) of the object the op wrote, or
//! `nohandle`.  Oracle (C16): after every handle op EVERY lawful object's real deques iterate / find
//! / first / last exactly like their own reference map - `clone_from` is assignment whatever
//! tombstones or consumed prefix the destination held, the source is unchanged.
use super::*;
pub use crate::fam_sdeque::traits::{parse_mop, MOp};

/// the observation line of a state, without an op
fn observe_real<C, V>(d: &SortedDeque<C>, digest: bool) -> String
where
    V: Convn,
    C: PushTruncateContainer<Item = V::Item> + Clone + Default + FromIterator<V::Item>,
    (): SortedDequeMarker<V::Item> + SortedDequeComparator<V::Item, Key = V::Key>,
{
    if digest {
        return fmt_line_digest("()", d.first().map(V::raw), d.last().map(V::raw), d.is_empty());
    }
    let iter: Vec<Raw> = d.iter().map(V::raw).collect();
    let probes: Vec<Option<Raw>> = V::probes().iter().map(|k| d.find(k).map(V::raw)).collect();
    fmt_line("()", &iter, d.first().map(V::raw), d.last().map(V::raw), d.is_empty(), &probes)
}

fn observe_ref<V: Convn>(m: &BTreeMap<V::Key, V::Item>, digest: bool) -> String {
    let first = m.first_key_value().map(|(_, x)| V::raw(x));
    let last = m.last_key_value().map(|(_, x)| V::raw(x));
    if digest {
        return fmt_line_digest("()", first, last, m.is_empty());
    }
    let iter: Vec<Raw> = m.values().map(V::raw).collect();
    let probes: Vec<Option<Raw>> = V::probes().iter().map(|k| m.get(k).map(V::raw)).collect();
    fmt_line("()", &iter, first, last, m.is_empty(), &probes)
}

impl<V: Convn> Runner<V>
where
    (): SortedDequeMarker<V::Item> + SortedDequeComparator<V::Item, Key = V::Key>,
    [V::Item; 4]: smallvec::Array<Item = V::Item>,
{
    /// every object against its own reference map (always the full listing: objects are small
    /// whenever handle ops are generated; digest mode compares digests of the same text)
    fn check_all(&self, text: &str, so: &mut StepOut) {
        let all = std::iter::once(("cur".to_string(), &self.cur)).chain(self.objs.iter().enumerate().map(|(i, o)| (format!("d{}", i), o)));
        for (name, st) in all {
            if !st.lawful {
                continue;
            }
            let want = observe_ref::<V>(&st.r, false);
            let a = observe_real::<Vec<V::Item>, V>(&st.v, false);
            let b = observe_real::<SmallVec<[V::Item; 4]>, V>(&st.s, false);
            if a != want {
                so.violations.push(format!("C16 {}/vec: after `{}` object {} reads [{}] but its reference ordered map gives [{}]", V::NAME, text, name, a, want));
            }
            if b != want {
                so.violations.push(format!("C16 {}/smallvec: after `{}` object {} reads [{}] but its reference ordered map gives [{}]", V::NAME, text, name, b, want));
            }
        }
    }

    pub(super) fn step_traits(&mut self, w: &[&str]) -> Option<StepOut> {
        let op = parse_mop(w)?;
        if self.dead {
            return Some(StepOut::obs("dead"));
        }
        let text = w.join(" ");
        let mut so = StepOut::default();
        so.tags.push(format!("{}_op_{}", V::NAME, w[0]));
        let n = self.objs.len();
        let handle_ok = match op {
            MOp::New | MOp::Default | MOp::Debug => true,
            MOp::Store(k) => k <= n,
            MOp::Load(k) | MOp::Swap(k) | MOp::CloneFrom(k) | MOp::CloneInto(k) | MOp::Take(k) => k < n,
        };
        if !handle_ok {
            so.obs.push("nohandle".into());
            return Some(so);
        }
        let digest = self.digest;
        let cur = &mut self.cur;
        let objs = &mut self.objs;
        let lawful_all = cur.lawful && objs.iter().all(|o| o.lawful);
        let real = catch_unwind(AssertUnwindSafe(|| -> (String, String) {
            let shown: &St<V> = match op {
                MOp::New | MOp::Default => {
                    objs.push(Self::fresh());
                    &objs[n]
                }
                MOp::Store(k) => {
                    let c = cur.clone();
                    if k == n {
                        objs.push(c);
                    } else {
                        objs[k] = c;
                    }
                    &objs[k]
                }
                MOp::Load(k) => {
                    *cur = objs[k].clone();
                    cur
                }
                MOp::Swap(k) => {
                    std::mem::swap(cur, &mut objs[k]);
                    cur
                }
                MOp::CloneFrom(k) => {
                    cur.v.clone_from(&objs[k].v);
                    cur.s.clone_from(&objs[k].s);
                    // the reference: assignment
                    cur.r = objs[k].r.clone();
                    cur.seen = objs[k].seen.clone();
                    cur.lawful = objs[k].lawful;
                    cur.tombs = objs[k].tombs.clone();
                    cur
                }
                MOp::CloneInto(k) => {
                    objs[k].v.clone_from(&cur.v);
                    objs[k].s.clone_from(&cur.s);
                    objs[k].r = cur.r.clone();
                    objs[k].seen = cur.seen.clone();
                    objs[k].lawful = cur.lawful;
                    objs[k].tombs = cur.tombs.clone();
                    &objs[k]
                }
                MOp::Take(k) => {
                    cur.v = std::mem::take(&mut objs[k].v);
                    cur.s = std::mem::take(&mut objs[k].s);
                    let rest = std::mem::replace(&mut objs[k], Self::fresh());
                    cur.r = rest.r;
                    cur.seen = rest.seen;
                    cur.lawful = rest.lawful;
                    cur.tombs = rest.tombs;
                    cur
                }
                MOp::Debug => {
                    let _ = format!("{:?} {:#?}", cur.v, cur.s);
                    cur
                }
            };
            (observe_real::<Vec<V::Item>, V>(&shown.v, digest), observe_real::<SmallVec<[V::Item; 4]>, V>(&shown.s, digest))
        }));
        match real {
            Err(_) => {
                self.dead = true;
                so.obs.push("panic".into());
                if lawful_all {
                    so.violations.push(format!("C16 {}: panic in `{}` although the sequence is valid (Clone / Default / Debug never panic)", V::NAME, text));
                }
            }
            Ok((a, b)) => {
                let checked = catch_unwind(AssertUnwindSafe(|| {
                    let mut tmp = StepOut::default();
                    self.check_all(&text, &mut tmp);
                    tmp
                }));
                match checked {
                    Ok(mut tmp) => {
                        so.violations.append(&mut tmp.violations);
                        if a != b {
                            so.violations.push(format!("C16 {}: vec and smallvec deques disagree on `{}`: [{}] vs [{}]", V::NAME, text, a, b));
                            so.obs.push(format!("small {}", b));
                        }
                        so.obs.push(a);
                    }
                    Err(_) => {
                        self.dead = true;
                        so.obs.push("panic".into());
                        if lawful_all {
                            so.violations.push(format!("C16 {}: panic while reading the objects after `{}`", V::NAME, text));
                        }
                    }
                }
            }
        }
        Some(so)
    }

    /// May `unwinding <w>` run here?  Only ops specified not to panic on the current state: no
    /// `at` / `new` / `conv`, no push of a live item whose key is not above the last one, nothing
    /// once the case left the regime the property talks about.
    pub(super) fn unwind_safe(&self, w: &[&str]) -> bool {
        if self.dead || !self.cur.lawful {
            return false;
        }
        if parse_mop(w).is_some() {
            return self.objs.iter().all(|o| o.lawful);
        }
        match parse_op(w) {
            Some(op) if op_ok::<V>(&op) => match op {
                SOp::New(_) => false,
                SOp::Push(_) => apply_ref::<V>(&mut self.cur.r.clone(), &op, true).is_some(),
                _ => true,
            },
            _ => false,
        }
    }
}

// ------------------------------------------------------------------ generators

/// Ways to bring a deque into an interesting state (applied to `cur`); keys from `base` upwards.
pub fn prep(i: usize, base: u32) -> Vec<String> {
    let push = |n: u32| -> Vec<String> { (0..n).map(|j| format!("push {} {}", base + j, val(base + j))).collect() };
    let rm = |k: u32| format!("remove {} {}", base + k, val(base + k));
    let mut ops = Vec::new();
    match i {
        0 => {}                                                                                    // fresh
        1 => { ops.extend(push(3)); ops.push("clear".into()); }                                    // cleared
        2 => { ops.extend(push(6)); ops.push("pop_first".into()); }                                // consumed 1 of 6, not slid
        3 => { ops.extend(push(6)); ops.push(rm(0)); ops.push(rm(1)); }                            // front removes
        4 => { ops.extend(push(6)); ops.push(rm(2)); ops.push(rm(3)); }                            // tombstones inside
        5 => { ops.extend(push(6)); ops.push(rm(1)); ops.push(rm(2)); ops.push("pop_first".into()); } // pop_first sweeps tombstones
        6 => { ops.extend(push(9)); }                                                              // SmallVec spilled
        7 => { ops.extend(push(9)); ops.push("pop_first".into()); ops.push("pop_first".into()); ops.push(rm(5)); }
        8 => { ops.extend(push(2)); ops.push("pop_first".into()); ops.push("pop_first".into()); }  // emptied by pops
        9 => { ops.extend(push(4)); ops.push("pop_last".into()); ops.push("pop_first".into()); }
        10 => { ops.extend(push(1)); }                                                             // shorter than most stale cursors
        _ => { ops.extend(push(12)); for _ in 0..5 { ops.push("pop_first".into()); } ops.push(rm(8)); ops.push("pop_last".into()); }
    }
    ops
}
pub const NPREP: usize = 12;

/// source state x destination state x the method; then both objects are used independently.
/// Destination keys (from 1) are below the source's (from 40): a stale cursor hides the smallest keys.
pub fn clone_matrix_case(conv: &str, src: usize, dst: usize, how: usize, unwinding: bool) -> Vec<String> {
    let mut ops = vec![format!("conv {}", conv)];
    ops.extend(prep(src, 40));
    ops.push("dstore 0".into());
    ops.push("dnew".into());
    ops.push("dswap 1".into());
    ops.extend(prep(dst, 1));
    let u = |s: &str| if unwinding { format!("unwinding {}", s) } else { s.to_string() };
    match how {
        0 => ops.push(u("dclone_from 0")),
        1 => {
            ops.push("dswap 0".into());
            ops.push(u("dclone_into 0"));
            ops.push("dswap 0".into());
        }
        2 => ops.push(u("dload 0")),
        _ => {
            ops.push(u("dtake 0"));
            ops.push("dstore 0".into());
        }
    }
    // use the destination ...
    ops.extend(["ddebug", "first", "last", "iter"].iter().map(|s| s.to_string()));
    ops.push(format!("find 40 {}", val(40)));
    ops.push(format!("remove 41 {}", val(41)));
    ops.push("pop_first".into());
    ops.push(format!("push 90 {}", val(90)));
    ops.push("pop_last".into());
    // ... then the source (it must not have noticed), then the original
    ops.push("dswap 0".into());
    ops.push("iter".into());
    ops.push("pop_first".into());
    ops.push(format!("push 91 {}", val(91)));
    ops.push("dswap 1".into());
    ops.push("iter".into());
    ops.push("pop_first".into());
    // and once more in the other direction
    ops.push(u("dclone_from 0"));
    ops.push("pop_first".into());
    ops.push(u("dclone_into 1"));
    ops
}

//! Family `sdeque`: `sliding_deque::SlidingDeque` (C15).
//!
//! Every op runs on a `SlidingVec<u32>`, on a `SlidingSmallVec<[u32; 4]>` (so that
//! inline -> heap transitions happen) and on a `std::collections::VecDeque<u32>`
//! (the reference double-ended queue = the direct oracle).  Observations: return
//! value, the whole `Deref` slice view, `len()`.
//!
//! The space bound ("consumed prefix <= half of the container's length") is not
//! observable through the public API proper; it is (a) the crate's own `check_rep`
//! debug assertion - the harness profile keeps debug assertions ON, so a violation
//! is a panic, reported as `V C15 panic` - and (b) read off the derived `Debug`
//! output (`consumed_prefix: N, container: [...]`) when that output has the expected
//! shape (if it does not, the oracle stays silent and counts `debug_unparsed`).
//!
//! Op vocabulary (the Lean driver `Woodpile/Driver/SlidingDeque.lean` speaks the same):
//!   push v | front | back | pop_front | pop_back | advance n | clear | slide
//!   wfront v | wback v | wat i v | from v1,v2,..
//!   iterscript <script>   iterator-protocol script (`iterscript.rs`) on `deque.iter()` (the Deref slice's iterator)
//!   at k <op>   : restart from snapshot k (a `clone()`; snapshot 0 = the fresh deque),
//!                 run <op>, and record the result as snapshot k+1 (dropping deeper ones).
//!                 This is how the exhaustive enumeration walks the tree of op sequences
//!                 without replaying every prefix.
//!
//! Zero-sized items (`z...` ops): a `SlidingDeque<Vec<()>>` and a `SlidingDeque<Probe>` (a
//! `Vec<()>` wrapper that publishes its length, so the backing length - hence the consumed
//! prefix - is observable).  A `Vec<()>` of any length up to `usize::MAX` costs nothing, and
//! every deque operation on it is O(1) (`copy_within` moves 0 bytes, `truncate` has nothing
//! to drop), so this is where lengths and consumed prefixes near 2^63 / 2^64 are reached:
//!   zfrom n | zadvance n | zpop_front | zpop_back | zpush | zfront | zback | zslide | zclear | zlen
//! Observations: `zvec <ret> len=<len()>` and `zprobe <ret> len=<len()> backing=<container length>`.
//! Oracle: the reference deque of units is its length (u128 arithmetic); the space bound is
//! `backing - len() <= backing / 2` on the probe.  `zpush` on a backing `Vec<()>` that already
//! holds `usize::MAX` units is not executed (`cap`): std specifies a capacity-overflow panic.
//! Nothing here may format a deque with `{:?}` or iterate it.
use crate::util::*;
use sliding_deque::traits::PushTruncateContainer;
use sliding_deque::{SlidingDeque, SlidingSmallVec, SlidingVec};
use std::collections::VecDeque;
use std::fmt::Debug;
use std::cell::Cell;
use std::panic::{catch_unwind, AssertUnwindSafe};
use std::rc::Rc;

// standard-trait methods over several object instances (track traits): handle ops `d…`
pub mod traits;

#[derive(Clone, Debug)]
pub enum Op {
    Push(u32),
    Front,
    Back,
    PopFront,
    PopBack,
    Advance(usize),
    Clear,
    Slide,
    WFront(u32),
    WBack(u32),
    WAt(usize, u32),
    From(Vec<u32>),
}

pub fn parse_u32_list(s: &str) -> Option<Vec<u32>> {
    if s == "-" {
        return Some(vec![]);
    }
    s.split(',').map(|t| t.parse().ok()).collect()
}

pub fn u32_list(xs: &[u32]) -> String {
    if xs.is_empty() {
        "-".to_string()
    } else {
        xs.iter().map(|x| x.to_string()).collect::<Vec<_>>().join(",")
    }
}

pub fn parse_op(w: &[&str]) -> Option<Op> {
    Some(match w {
        ["push", v] => Op::Push(v.parse().ok()?),
        ["front"] => Op::Front,
        ["back"] => Op::Back,
        ["pop_front"] => Op::PopFront,
        ["pop_back"] => Op::PopBack,
        ["advance", n] => Op::Advance(n.parse().ok()?),
        ["clear"] => Op::Clear,
        ["slide"] => Op::Slide,
        ["wfront", v] => Op::WFront(v.parse().ok()?),
        ["wback", v] => Op::WBack(v.parse().ok()?),
        ["wat", i, v] => Op::WAt(i.parse().ok()?, v.parse().ok()?),
        ["from", l] => Op::From(parse_u32_list(l)?),
        _ => return None,
    })
}

fn fmt_item(o: Option<u32>) -> String {
    match o {
        Some(v) => format!("some:{}", v),
        None => "none".into(),
    }
}

fn fmt_wrote(b: bool) -> String {
    if b { "w=1".into() } else { "w=0".into() }
}

fn fmt_obs(ret: &str, view: &[u32]) -> String {
    format!("{} view={} len={}", ret, u32_list(view), view.len())
}

/// One op on the real deque; returns the observation line.
fn apply_real<C>(d: &mut SlidingDeque<C>, op: &Op) -> String
where
    C: PushTruncateContainer<Item = u32> + Clone + Default + FromIterator<u32>,
{
    let ret = match op {
        Op::Push(v) => {
            d.push_back(*v);
            "()".to_string()
        }
        Op::Front => fmt_item(d.front().copied()),
        Op::Back => fmt_item(d.back().copied()),
        Op::PopFront => fmt_item(d.pop_front()),
        Op::PopBack => fmt_item(d.pop_back()),
        Op::Advance(n) => format!("n={}", d.advance(*n)),
        Op::Clear => {
            d.clear();
            "()".to_string()
        }
        Op::Slide => {
            d.slide();
            "()".to_string()
        }
        Op::WFront(v) => fmt_wrote(match d.front_mut() {
            Some(r) => {
                *r = *v;
                true
            }
            None => false,
        }),
        Op::WBack(v) => fmt_wrote(match d.back_mut() {
            Some(r) => {
                *r = *v;
                true
            }
            None => false,
        }),
        Op::WAt(i, v) => fmt_wrote(match d.get_mut(*i) {
            Some(r) => {
                *r = *v;
                true
            }
            None => false,
        }),
        Op::From(l) => {
            *d = SlidingDeque::from(l.iter().copied().collect::<C>());
            "()".to_string()
        }
    };
    let len = d.len();
    let view: &[u32] = d;
    assert_eq!(len, view.len());
    assert_eq!(d.is_empty(), view.is_empty());
    fmt_obs(&ret, view)
}

/// The same op on the reference deque.
fn apply_ref(r: &mut VecDeque<u32>, op: &Op) -> String {
    let ret = match op {
        Op::Push(v) => {
            r.push_back(*v);
            "()".to_string()
        }
        Op::Front => fmt_item(r.front().copied()),
        Op::Back => fmt_item(r.back().copied()),
        Op::PopFront => fmt_item(r.pop_front()),
        Op::PopBack => fmt_item(r.pop_back()),
        Op::Advance(n) => {
            let k = (*n).min(r.len());
            r.drain(..k);
            format!("n={}", k)
        }
        Op::Clear => {
            r.clear();
            "()".to_string()
        }
        Op::Slide => "()".to_string(),
        Op::WFront(v) => fmt_wrote(match r.front_mut() {
            Some(x) => {
                *x = *v;
                true
            }
            None => false,
        }),
        Op::WBack(v) => fmt_wrote(match r.back_mut() {
            Some(x) => {
                *x = *v;
                true
            }
            None => false,
        }),
        Op::WAt(i, v) => fmt_wrote(match r.get_mut(*i) {
            Some(x) => {
                *x = *v;
                true
            }
            None => false,
        }),
        Op::From(l) => {
            *r = l.iter().copied().collect();
            "()".to_string()
        }
    };
    let view: Vec<u32> = r.iter().copied().collect();
    fmt_obs(&ret, &view)
}

/// `(consumed_prefix, container length)` read off the derived `Debug` output
/// `SlidingDeque { consumed_prefix: N, container: [a, b, c] }`.
pub fn parse_debug(s: &str) -> Option<(usize, usize)> {
    let rest = s.strip_prefix("SlidingDeque { consumed_prefix: ")?;
    let (num, rest) = rest.split_once(", container: [")?;
    let consumed: usize = num.parse().ok()?;
    let body = rest.strip_suffix("] }")?;
    let n = if body.is_empty() {
        0
    } else {
        if !body.split(", ").all(|t| !t.is_empty() && t.bytes().all(|b| b.is_ascii_digit())) {
            return None;
        }
        body.split(", ").count()
    };
    Some((consumed, n))
}

/// The space-bound half of C15, on the real representation.
fn space_oracle<T: Debug>(which: &str, d: &T, view_len: usize, v: &mut Vec<String>, tags: &mut Vec<String>) {
    match parse_debug(&format!("{:?}", d)) {
        Some((consumed, clen)) => {
            if consumed * 2 > clen {
                v.push(format!(
                    "C15 {}: space bound broken: consumed_prefix={} > half of container length {}",
                    which, consumed, clen
                ));
            }
            if clen < consumed || clen - consumed != view_len {
                v.push(format!(
                    "C15 {}: view length {} is not container length {} - consumed_prefix {}",
                    which, view_len, clen, consumed
                ));
            }
            if consumed > 0 {
                tags.push(format!("{}_consumed_nonzero", which));
            }
        }
        None => tags.push("debug_unparsed".into()),
    }
}

#[derive(Clone)]
struct St {
    v: SlidingVec<u32>,
    s: SlidingSmallVec<[u32; 4]>,
    r: VecDeque<u32>,
}

impl St {
    fn new() -> Self {
        St { v: SlidingDeque::new(), s: SlidingDeque::new(), r: VecDeque::new() }
    }
}

struct SdExec {
    cur: St,
    snaps: Vec<St>,
    dead: bool,
    /// the deques of zero-sized items (`z...` ops)
    z: ZSt,
    /// further object instances `d0, d1, …` (handle ops, `fam_sdeque/traits.rs`)
    objs: Vec<St>,
}

impl SdExec {
    fn fresh() -> SdExec {
        SdExec { cur: St::new(), snaps: vec![St::new()], dead: false, z: ZSt::from_len(0), objs: Vec::new() }
    }
}

/// C15: no operation sequence may panic, so every op may run while the thread is unwinding.
impl crate::unwind::Probe for SdExec {
    fn unwind_safe(&self, _w: &[&str]) -> bool {
        true
    }
}

impl SdExec {
    fn run_op(&mut self, op: &Op, text: &str) -> StepOut {
        let mut so = StepOut::default();
        let cur = &mut self.cur;
        let real = catch_unwind(AssertUnwindSafe(|| {
            let a = apply_real(&mut cur.v, op);
            let b = apply_real(&mut cur.s, op);
            (a, b)
        }));
        let expected = apply_ref(&mut cur.r, op);
        match real {
            Err(_) => {
                self.dead = true;
                so.obs.push("panic".into());
                so.violations.push(format!("C15 panic in `{}` (no operation sequence may panic; debug assertions are on)", text));
            }
            Ok((a, b)) => {
                if a != expected {
                    so.violations.push(format!("C15 vec: `{}` gave [{}] but the reference deque gives [{}]", text, a, expected));
                }
                if b != expected {
                    so.violations.push(format!("C15 smallvec: `{}` gave [{}] but the reference deque gives [{}]", text, b, expected));
                }
                let n = cur.r.len();
                space_oracle("vec", &cur.v, n, &mut so.violations, &mut so.tags);
                space_oracle("smallvec", &cur.s, n, &mut so.violations, &mut so.tags);
                if n > 4 {
                    so.tags.push("len_gt_inline".into());
                }
                if n > 32 {
                    so.tags.push("len_gt_32".into());
                }
                so.obs.push(format!("vec {}", a));
                so.obs.push(format!("small {}", b));
            }
        }
        so.tags.push(format!("op_{}", text.split(' ').next().unwrap_or("?")));
        so
    }
}


// ------------------------------------------------------------------ zero-sized items

/// A `Vec<()>` that publishes its length after every mutation.
#[derive(Clone, Default)]
pub struct Probe {
    inner: Vec<()>,
    backing: Rc<Cell<usize>>,
}

impl Probe {
    fn publish(&self) {
        self.backing.set(self.inner.len());
    }
}

impl PushTruncateContainer for Probe {
    type Item = ();
    fn push(&mut self, value: ()) {
        self.inner.push(value);
        self.publish();
    }
    fn pop(&mut self) -> Option<()> {
        let r = self.inner.pop();
        self.publish();
        r
    }
    fn truncate(&mut self, len: usize) {
        self.inner.truncate(len);
        self.publish();
    }
    fn slice(&self) -> &[()] {
        &self.inner
    }
    fn slice_mut(&mut self) -> &mut [()] {
        &mut self.inner
    }
}

/// `n` units, in constant time and without `unsafe`: a boxed zero-sized array, truncated.
fn unit_vec(n: usize) -> Vec<()> {
    let boxed: Box<[()]> = Box::new([(); usize::MAX]);
    let mut v = boxed.into_vec();
    v.truncate(n);
    assert_eq!(v.len(), n);
    v
}

#[derive(Clone, Copy, Debug)]
pub enum ZOp {
    From(usize),
    Advance(usize),
    PopFront,
    PopBack,
    Push,
    Front,
    Back,
    Slide,
    Clear,
    Len,
}

pub fn parse_zop(w: &[&str]) -> Option<ZOp> {
    Some(match w {
        ["zfrom", n] => ZOp::From(n.parse().ok()?),
        ["zadvance", n] => ZOp::Advance(n.parse().ok()?),
        ["zpop_front"] => ZOp::PopFront,
        ["zpop_back"] => ZOp::PopBack,
        ["zpush"] => ZOp::Push,
        ["zfront"] => ZOp::Front,
        ["zback"] => ZOp::Back,
        ["zslide"] => ZOp::Slide,
        ["zclear"] => ZOp::Clear,
        ["zlen"] => ZOp::Len,
        _ => return None,
    })
}

fn fmt_has(b: bool) -> String {
    if b { "some".into() } else { "none".into() }
}

/// One op on a real deque of units; returns `(return value, len())`.
fn zapply_real<C>(d: &mut SlidingDeque<C>, op: ZOp) -> (String, usize)
where
    C: PushTruncateContainer<Item = ()> + Clone + Default,
{
    let ret = match op {
        ZOp::From(_) => unreachable!(),
        ZOp::Advance(n) => format!("n={}", d.advance(n)),
        ZOp::PopFront => fmt_has(d.pop_front().is_some()),
        ZOp::PopBack => fmt_has(d.pop_back().is_some()),
        ZOp::Push => {
            d.push_back(());
            "()".to_string()
        }
        ZOp::Front => fmt_has(d.front().is_some()),
        ZOp::Back => fmt_has(d.back().is_some()),
        ZOp::Slide => {
            d.slide();
            "()".to_string()
        }
        ZOp::Clear => {
            d.clear();
            "()".to_string()
        }
        ZOp::Len => "()".to_string(),
    };
    let len = d.len();
    assert_eq!(d.is_empty(), len == 0);
    (ret, len)
}

/// Reference arithmetic in u128: the deque of units is its length `clen - consumed`;
/// `(consumed, clen)` follows the documented policy (slide when more than half of the
/// container is consumed, or when the deque is empty).
#[derive(Clone, Copy, Default)]
pub struct ZRef {
    consumed: u128,
    clen: u128,
}

impl ZRef {
    fn len(&self) -> u128 {
        self.clen - self.consumed
    }
    fn maybe_slide(&mut self) {
        if self.consumed > self.clen / 2 || self.consumed == self.clen {
            self.slide();
        }
    }
    fn slide(&mut self) {
        self.clen -= self.consumed;
        self.consumed = 0;
    }
    fn apply(&mut self, op: ZOp) -> String {
        match op {
            ZOp::From(n) => {
                *self = ZRef { consumed: 0, clen: n as u128 };
                "()".into()
            }
            ZOp::Advance(n) => {
                let k = (n as u128).min(self.len());
                self.consumed += k;
                self.maybe_slide();
                format!("n={}", k)
            }
            ZOp::PopFront => {
                let has = self.len() > 0;
                if has {
                    self.consumed += 1;
                    self.maybe_slide();
                }
                fmt_has(has)
            }
            ZOp::PopBack => {
                let has = self.len() > 0;
                if has {
                    self.clen -= 1;
                    self.maybe_slide();
                }
                fmt_has(has)
            }
            ZOp::Push => {
                self.clen += 1;
                "()".into()
            }
            ZOp::Front | ZOp::Back => fmt_has(self.len() > 0),
            ZOp::Slide => {
                self.slide();
                "()".into()
            }
            ZOp::Clear => {
                *self = ZRef::default();
                "()".into()
            }
            ZOp::Len => "()".into(),
        }
    }
}

struct ZSt {
    v: SlidingDeque<Vec<()>>,
    p: SlidingDeque<Probe>,
    backing: Rc<Cell<usize>>,
    r: ZRef,
}

impl ZSt {
    fn from_len(n: usize) -> Self {
        let backing = Rc::new(Cell::new(n));
        let probe = Probe { inner: unit_vec(n), backing: backing.clone() };
        ZSt { v: SlidingDeque::from(unit_vec(n)), p: SlidingDeque::from(probe), backing, r: ZRef { consumed: 0, clen: n as u128 } }
    }
}

impl SdExec {
    fn run_zop(&mut self, op: ZOp, text: &str) -> StepOut {
        let mut so = StepOut::default();
        so.tags.push(format!("op_{}", text.split(' ').next().unwrap_or("?")));
        if let ZOp::From(n) = op {
            self.z = ZSt::from_len(n);
            if n as u128 >= 1u128 << 63 {
                so.tags.push("z_from_ge_2pow63".into());
            }
        }
        let z = &mut self.z;
        if matches!(op, ZOp::Push) && z.r.clen >= usize::MAX as u128 {
            // `Vec::<()>::push` at `usize::MAX` elements: capacity overflow, by std's specification
            so.tags.push("z_push_at_capacity".into());
            return StepOut { obs: vec!["cap".into()], ..so };
        }
        let real = if let ZOp::From(n) = op {
            Ok((("()".to_string(), n), ("()".to_string(), n)))
        } else {
            catch_unwind(AssertUnwindSafe(|| (zapply_real(&mut z.v, op), zapply_real(&mut z.p, op))))
        };
        let expected = z.r.apply(op);
        match real {
            Err(_) => {
                self.dead = true;
                so.obs.push("panic".into());
                so.violations.push(format!("C15 panic in `{}` on a deque of zero-sized items (no operation sequence may panic; debug assertions and overflow checks are on)", text));
            }
            Ok(((ra, la), (rb, lb))) => {
                let want = z.r.len();
                for (which, ret, len) in [("zvec", &ra, la), ("zprobe", &rb, lb)] {
                    if *ret != expected || len as u128 != want {
                        so.violations.push(format!(
                            "C15 {}: `{}` gave [{} len={}] but the reference deque of units gives [{} len={}]",
                            which, text, ret, len, expected, want
                        ));
                    }
                }
                let backing = z.backing.get() as u128;
                let wasted = backing.wrapping_sub(lb as u128);
                if (lb as u128) > backing || wasted > backing / 2 {
                    so.violations.push(format!(
                        "C15 zprobe: space bound broken after `{}`: backing length {} - len {} exceeds half of the backing length",
                        text, backing, lb
                    ));
                }
                if wasted > 0 {
                    so.tags.push("z_consumed_nonzero".into());
                }
                if wasted >= 1u128 << 62 {
                    so.tags.push("z_consumed_ge_2pow62".into());
                }
                if backing >= 1u128 << 63 {
                    so.tags.push("z_backing_ge_2pow63".into());
                }
                so.obs.push(format!("zvec {} len={}", ra, la));
                so.obs.push(format!("zprobe {} len={} backing={}", rb, lb, backing));
            }
        }
        so
    }
}

impl SdExec {
    /// `iterscript <script>`: an iterator-protocol script (`iterscript.rs`) on the iterator of the
    /// `Deref` slice of both real deques (`deque.iter()`: double-ended, exact size), against a `Vec` of
    /// the reference deque's items.  The deques are not changed.
    fn run_iterscript(&mut self, script: &str) -> StepOut {
        use crate::iterscript as its;
        let Some(steps) = its::parse(script) else { return StepOut::bad() };
        let mut so = StepOut::default();
        let cur = &self.cur;
        let items: Vec<String> = cur.r.iter().map(|x| x.to_string()).collect();
        let res = catch_unwind(AssertUnwindSafe(|| {
            let a = its::run_both("C15", "vec: iter() of the Deref slice against the reference deque", &steps, script, its::double_ended(cur.v.iter(), |x: &u32| x.to_string(), its::cap_for(items.len())), items.clone(), true);
            let b = its::run_both("C15", "smallvec: iter() of the Deref slice against the reference deque", &steps, script, its::double_ended(cur.s.iter(), |x: &u32| x.to_string(), its::cap_for(items.len())), items.clone(), true);
            (a, b)
        }));
        match res {
            Err(_) => {
                self.dead = true;
                so.obs.push("panic".into());
                so.violations.push(format!("C15 panic in `iterscript {}`", script));
            }
            Ok(((oa, da), (ob, db))) => {
                so.violations.extend(da);
                so.violations.extend(db);
                so.obs.push(format!("vec {}", oa));
                so.obs.push(format!("small {}", ob));
            }
        }
        so.tags.push("op_iterscript".into());
        so
    }
}

impl Exec for SdExec {
    fn flush_before(&self, w: &[&str]) -> bool {
        matches!(w, ["iterscript", ..])
    }
    fn step(&mut self, w: &[&str]) -> StepOut {
        if self.dead {
            return StepOut::obs("dead");
        }
        if let Some(so) = self.step_traits(w) {
            return so;
        }
        match w {
            ["iterscript", script] => self.run_iterscript(script),
            ["at", k, rest @ ..] => {
                let (Ok(k), Some(op)) = (k.parse::<usize>(), parse_op(rest)) else { return StepOut::bad() };
                if k >= self.snaps.len() {
                    return StepOut::obs("nosnap");
                }
                self.cur = self.snaps[k].clone();
                let so = self.run_op(&op, &rest.join(" "));
                self.snaps.truncate(k + 1);
                if !self.dead {
                    self.snaps.push(self.cur.clone());
                }
                so
            }
            _ => match (parse_op(w), parse_zop(w)) {
                (Some(op), _) => self.run_op(&op, &w.join(" ")),
                (None, Some(zop)) => self.run_zop(zop, &w.join(" ")),
                (None, None) => StepOut::bad(),
            },
        }
    }
}

pub struct SDequeFamily;

/// The 11-symbol alphabet of the exhaustive enumeration; `lvl` makes the values
/// written at different depths distinct.
pub fn symbol(i: usize, lvl: usize) -> String {
    match i {
        0 => format!("push {}", lvl + 1),
        1 => "pop_front".into(),
        2 => "pop_back".into(),
        3 => "advance 0".into(),
        4 => "advance 1".into(),
        5 => "advance 2".into(),
        6 => "advance 9".into(),
        7 => "clear".into(),
        8 => "slide".into(),
        9 => format!("wfront {}", 70 + lvl),
        _ => format!("wback {}", 80 + lvl),
    }
}
pub const NSYM: usize = 11;

/// Depth-first walk of all op sequences of length `depth` that start with `prefix`,
/// as one case using `at k <op>` (one line per tree node).
pub fn tree_case(prefix: &[usize], depth: usize) -> Vec<String> {
    let mut ops = Vec::new();
    for (lvl, &sym) in prefix.iter().enumerate() {
        ops.push(format!("at {} {}", lvl, symbol(sym, lvl)));
    }
    fn rec(ops: &mut Vec<String>, lvl: usize, depth: usize) {
        if lvl >= depth {
            return;
        }
        for sym in 0..NSYM {
            ops.push(format!("at {} {}", lvl, symbol(sym, lvl)));
            rec(ops, lvl + 1, depth);
        }
    }
    rec(&mut ops, prefix.len(), depth);
    ops
}


/// The lengths / counts at which machine-integer arithmetic on `usize` could go wrong.
pub const ZEDGES: [usize; 9] = [0, 1, 2, 1 << 32, (1 << 63) - 1, 1 << 63, (1 << 63) + 1, usize::MAX - 1, usize::MAX];

/// The 14-symbol alphabet of the zero-sized-item enumeration.
pub fn zsymbol(i: usize) -> String {
    match i {
        0..=8 => format!("zadvance {}", ZEDGES[i]),
        9 => "zpop_front".into(),
        10 => "zpop_back".into(),
        11 => "zpush".into(),
        12 => "zslide".into(),
        _ => "zclear".into(),
    }
}
pub const ZNSYM: usize = 14;

/// All sequences of `depth` z-symbols that start with `first`, each from a fresh
/// `zfrom <len>` (one case: `zfrom` resets the deques of units).
pub fn ztree_case(len: usize, first: usize, depth: usize) -> Vec<String> {
    let mut ops = Vec::new();
    let mut idx = vec![0usize; depth - 1];
    loop {
        ops.push(format!("zfrom {}", len));
        ops.push(zsymbol(first));
        ops.extend(idx.iter().map(|&s| zsymbol(s)));
        let mut k = idx.len();
        loop {
            if k == 0 {
                return ops;
            }
            k -= 1;
            idx[k] += 1;
            if idx[k] < ZNSYM {
                break;
            }
            idx[k] = 0;
        }
    }
}

/// A random walk over deques of units whose lengths and consumed prefixes sit at the edges
/// of `usize`: counts are aimed (through a u128 shadow of the documented policy) at "exactly
/// half", "one more than half", "everything", and at the `ZEDGES` themselves.
pub fn zgen_case(rng: &mut Rng, thorough: bool) -> Vec<String> {
    let nops = rng.range(1, if thorough { 60 } else { 24 });
    let mut ops = Vec::new();
    let mut sh = ZRef::default();
    let near = |rng: &mut Rng, x: u128| -> usize {
        let d = rng.below(5) as i128 - 2;
        (x as i128 + d).clamp(0, usize::MAX as i128) as usize
    };
    for i in 0..nops {
        if i == 0 || rng.chance(1, 12) {
            let e = *rng.pick(&ZEDGES) as u128;
            let n = if rng.chance(1, 3) { near(rng, e) } else { e as usize };
            let op = ZOp::From(n);
            ops.push(format!("zfrom {}", n));
            sh.apply(op);
            continue;
        }
        let (op, text) = match rng.below(12) {
            0..=4 => {
                let len = sh.len();
                let half_left = (sh.clen / 2).saturating_sub(sh.consumed); // consumes up to exactly half
                let target = match rng.below(8) {
                    0 => half_left,
                    1 => half_left + 1,
                    2 => half_left.saturating_sub(1),
                    3 => len,
                    4 => len.saturating_sub(1),
                    5 => len + 1,
                    6 => *rng.pick(&ZEDGES) as u128,
                    _ => rng.below(4) as u128,
                };
                let n = if rng.chance(1, 4) { near(rng, target) } else { target.min(usize::MAX as u128) as usize };
                (ZOp::Advance(n), format!("zadvance {}", n))
            }
            5 | 6 => (ZOp::PopFront, "zpop_front".to_string()),
            7 | 8 => (ZOp::PopBack, "zpop_back".to_string()),
            9 => (ZOp::Push, "zpush".to_string()),
            10 => match rng.below(4) {
                0 => (ZOp::Clear, "zclear".to_string()),
                1 => (ZOp::Front, "zfront".to_string()),
                2 => (ZOp::Back, "zback".to_string()),
                _ => (ZOp::Len, "zlen".to_string()),
            },
            _ => (ZOp::Slide, "zslide".to_string()),
        };
        ops.push(text);
        if !(matches!(op, ZOp::Push) && sh.clen >= usize::MAX as u128) {
            sh.apply(op);
        }
    }
    ops
}

impl Family for SDequeFamily {
    fn name(&self) -> &'static str {
        "sdeque"
    }

    fn new_exec(&self) -> Box<dyn Exec> {
        crate::unwind::UnwindExec::boxed(SdExec::fresh)
    }

    /// All op sequences over the 11-symbol alphabet:
    /// * up to length 6 (quick) / 7 (thorough), walked as a tree through `clone()`d
    ///   snapshots (one case per 2-symbol prefix);
    /// * up to length 4 (quick) / 5 (thorough) as plain sequences without any clone
    ///   (so the SmallVec keeps whatever inline/heap state the sequence itself produced);
    /// * deques of zero-sized items: from each of the 9 edge lengths `ZEDGES`, all sequences
    ///   of 3 (quick) / 4 (thorough) symbols of the 14-symbol z-alphabet.
    fn enumerated(&self, thorough: bool) -> Vec<Vec<String>> {
        let depth = if thorough { 7 } else { 6 };
        let mut cases = Vec::new();
        for a in 0..NSYM {
            for b in 0..NSYM {
                cases.push(tree_case(&[a, b], depth));
            }
        }
        // zero-sized items: every edge length x all sequences of 3 (quick) / 4 (thorough) z-symbols
        let zdepth = if thorough { 4 } else { 3 };
        for &len in ZEDGES.iter() {
            for first in 0..ZNSYM {
                cases.push(ztree_case(len, first, zdepth));
            }
        }
        // standard traits (track traits): source state x destination state x {clone_from onto cur,
        // clone_from onto a handle, clone, take}; one more round with the trait call made while unwinding
        for src in 0..traits::NPREP {
            for dst in 0..traits::NPREP {
                for how in 0..4 {
                    cases.push(traits::clone_matrix_case(src, dst, how, false));
                    if thorough || (src + dst + how) % 4 == 0 {
                        cases.push(traits::clone_matrix_case(src, dst, how, true));
                    }
                }
            }
        }
        // every op called from a destructor while the thread unwinds: all sequences of 3 symbols
        for a in 0..NSYM {
            for b in 0..NSYM {
                let mut ops = Vec::new();
                for c in 0..NSYM {
                    ops.push("clear".to_string());
                    ops.extend(["push 91", "push 92", "push 93", "pop_front"].iter().map(|s| s.to_string()));
                    ops.extend([symbol(a, 0), symbol(b, 1), symbol(c, 2)].iter().map(|s| format!("unwinding {}", s)));
                }
                cases.push(ops);
            }
        }
        // iterator protocol (track gen3): every script of <= 2 (thorough: 3) non-consuming steps over the
        // small alphabet, alone and followed by each consuming step, on a deque with a consumed prefix
        // (5 items left of 8), on a one-item deque and on an empty one
        for (k, setup) in [vec!["from 1,2,3,4,5,6,7,8", "advance 3"], vec!["push 9"], vec![]].into_iter().enumerate() {
            let depth = if k == 0 { if thorough { 3 } else { 2 } } else { if thorough { 2 } else { 1 } };
            let scripts = crate::iterscript::enum_scripts(depth, true, 7);
            for chunk in scripts.chunks(250) {
                let mut ops: Vec<String> = setup.iter().map(|s| s.to_string()).collect();
                ops.extend(chunk.iter().map(|sc| format!("iterscript {}", sc)));
                cases.push(ops);
            }
        }
        let plain = if thorough { 5 } else { 4 };
        let mut idx = vec![0usize; plain];
        loop {
            cases.push(idx.iter().enumerate().map(|(lvl, &s)| symbol(s, lvl)).collect());
            let mut k = plain;
            loop {
                if k == 0 {
                    return cases;
                }
                k -= 1;
                idx[k] += 1;
                if idx[k] < NSYM {
                    break;
                }
                idx[k] = 0;
            }
        }
    }

    /// Random sequences up to length 200 (values distinct within a case, so the view
    /// identifies every element), with a shadow length to aim indices/counts at the edges.
    fn gen_case(&self, rng: &mut Rng, _idx: u64, thorough: bool) -> Vec<String> {
        if rng.chance(1, 8) {
            return zgen_case(rng, thorough);
        }
        let maxlen = if thorough { 200 } else { *rng.pick(&[12u64, 40, 200]) };
        let nops = rng.range(1, maxlen);
        let push_w = *rng.pick(&[3u64, 5, 7]); // out of 10: shrinking / balanced / growing runs
        let mut len: usize = 0;
        let mut next = 1u32;
        let mut ops = Vec::new();
        // track traits: a third of the cases move values between several objects (handle ops), a
        // quarter make some calls while the thread is unwinding
        let multi = rng.chance(1, 3);
        let unwinding = rng.chance(1, 4);
        let mut olens: Vec<usize> = Vec::new();
        if rng.chance(1, 8) {
            let n = rng.range(0, 9) as usize;
            let l: Vec<u32> = (0..n).map(|_| { next += 1; next - 1 }).collect();
            ops.push(format!("from {}", u32_list(&l)));
            len = n;
        }
        for _ in 0..nops {
            if multi && rng.chance(1, 6) {
                let mut lens = vec![len];
                lens.extend(olens.iter().copied());
                ops.push(traits::gen_mop(rng, &mut lens));
                len = lens[0];
                olens = lens[1..].to_vec();
                continue;
            }
            if rng.below(10) < push_w {
                ops.push(format!("push {}", next));
                next += 1;
                len += 1;
                continue;
            }
            match rng.below(14) {
                0 | 1 | 2 => {
                    ops.push("pop_front".into());
                    len = len.saturating_sub(1);
                }
                3 | 4 | 5 => {
                    ops.push("pop_back".into());
                    len = len.saturating_sub(1);
                }
                6 | 7 => {
                    let n = match rng.below(8) {
                        0 => 0,
                        1 => 1,
                        2 => len / 2,
                        3 => len / 2 + 1,
                        4 => len,
                        5 => len + 1,
                        6 => usize::MAX,
                        _ => rng.range(0, len as u64 + 2) as usize,
                    };
                    ops.push(format!("advance {}", n));
                    len -= n.min(len);
                }
                8 => {
                    if rng.chance(1, 4) {
                        ops.push("clear".into());
                        len = 0;
                    } else {
                        ops.push("slide".into());
                    }
                }
                9 => ops.push(format!("wfront {}", 1000 + rng.below(1000))),
                10 => ops.push(format!("wback {}", 2000 + rng.below(1000))),
                11 => {
                    let i = match rng.below(4) {
                        0 => len,
                        1 => len.saturating_sub(1),
                        _ => rng.range(0, len as u64 + 1) as usize,
                    };
                    ops.push(format!("wat {} {}", i, 3000 + rng.below(1000)));
                }
                12 => ops.push("front".into()),
                _ => ops.push("back".into()),
            }
            if rng.chance(1, 12) {
                ops.push(format!("iterscript {}", crate::iterscript::gen_script(rng, len, true)));
            }
        }
        if unwinding {
            ops = crate::unwind::sprinkle(rng, ops, 1, 4, |_| true);
            if rng.chance(1, 4) {
                ops.push("scoped_panic push 1 ; push 2 ; push 3 ; pop_front ; dstore 0 ; dclone_from 0".into());
            }
        }
        ops
    }
}
